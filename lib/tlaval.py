# Minimal parser for TLA+ values as printed by TLC (tuples, sets, records, functions, strings, ints, booleans).
import re

_tok = re.compile(r'\s*(<<|>>|\{|\}|\[|\]|\(|\)|\|->|:>|@@|,|"(?:[^"\\]|\\.)*"|-?\d+|[A-Za-z_][A-Za-z0-9_!]*)')


def tokenize(s):
    pos, out = 0, []
    while pos < len(s):
        m = _tok.match(s, pos)
        if not m:
            if s[pos:].strip() == "":
                break
            raise ValueError("cannot tokenize at %r" % s[pos:pos + 30])
        out.append(m.group(1))
        pos = m.end()
    return out


def parse(s):
    toks = tokenize(s)
    v, i = _val(toks, 0)
    return v


def _val(t, i):
    x = t[i]
    if x == "<<":
        i += 1
        items = []
        while t[i] != ">>":
            v, i = _val(t, i)
            items.append(v)
            if t[i] == ",":
                i += 1
        return items, i + 1
    if x == "{":
        i += 1
        items = []
        while t[i] != "}":
            v, i = _val(t, i)
            items.append(v)
            if t[i] == ",":
                i += 1
        return {"__set__": items}, i + 1
    if x == "[":
        i += 1
        d = {}
        while t[i] != "]":
            k = t[i]
            i += 1
            assert t[i] == "|->", t[i]
            v, i = _val(t, i + 1)
            d[k] = v
            if t[i] == ",":
                i += 1
        return d, i + 1
    if x == "(":
        # function printed as (a :> b @@ c :> d)
        i += 1
        d = {}
        while t[i] != ")":
            k, i = _val(t, i)
            assert t[i] == ":>"
            v, i = _val(t, i + 1)
            d[str(k)] = v
            if t[i] == "@@":
                i += 1
        return d, i + 1
    if x.startswith('"'):
        return bytes(x[1:-1], "utf-8").decode("unicode_escape") if "\\" in x else x[1:-1], i + 1
    if re.fullmatch(r"-?\d+", x):
        return int(x), i + 1
    if x == "TRUE":
        return True, i + 1
    if x == "FALSE":
        return False, i + 1
    return x, i + 1


def extract_tuples(out, heads=("VIOL", "TRACE-END", "INFO")):
    """Finds top-level printed tuples <<"HEAD", ...>> in TLC output, also when TLC wrapped them over
    several lines. Returns list of parsed python lists."""
    res = []
    lines = out.splitlines()
    i = 0
    start = re.compile(r'^<<\s*"(%s)"' % "|".join(heads))
    while i < len(lines):
        if start.match(lines[i]):
            buf = lines[i]
            while buf.count("<<") > buf.count(">>") and i + 1 < len(lines):
                i += 1
                buf += " " + lines[i].strip()
            try:
                res.append(parse(buf))
            except Exception:
                res.append(["UNPARSED", buf])
        i += 1
    return res
