# The generic flow of one check: base model(s) -> drive the real code -> TLC validates the traces
# -> classify / reproduce violations -> binding self-test -> evidence.
import json, os, sys, time, copy
from core import *
import known


def _drive_and_validate(work, fam, P, tier, seed, binary, sub, replay_file=None, extra_inputs=None):
    out = work.sub(sub)
    args = dict(fam.get("args", {}))
    if extra_inputs:
        ef = os.path.join(work.dir, "extra-inputs.json")
        with open(ef, "w") as f:
            json.dump(extra_inputs, f)
        args["extra"] = ef
    args.update(P.get("args", {}))
    args.update((P.get("tier_args", {}) or {}).get(tier, {}))
    meta = run_vdrive(binary, fam["vdrive"], out, tier, seed, args=args, replay=replay_file,
                      chunk=fam.get("chunk"), timeout=fam.get("drive_timeout", 3000), env_extra=fam.get("drive_env"))
    val = validate(work, fam["trace_module"], fam["trace_cfg"], out, heap=fam.get("heap", "3g"),
                   timeout=fam.get("validate_timeout", 1500), env_extra=fam.get("tlc_env"), linear=fam.get("linear", True), renames=fam.get("renames"))
    return out, meta, val


def run_check(pid, P, fam, tier, seed):
    t0 = time.time()
    work = Work(pid)
    try:
        return _run_check(pid, P, fam, tier, seed, work, t0)
    finally:
        work.cleanup()


def _examine(work, fam, P, pid, tier, seed, binary, out, meta, val, tag=""):
    """classifies the violation lines of one driven family and reproduces the unknown ones; returns a dict of results"""
    mach = [v for v in val["viols"] if v["prop"] == "MACHINERY"]
    if mach:
        raise Machinery("trace contained events the trace spec does not know: %s" % mach[:3])
    drift = [v for v in val["viols"] if v["prop"] == "DRIFT"]
    for v in drift[:5]:
        log("MODEL-DRIFT (reported, not a verdict): trace %d line %d %s %s" % (v["tid"], v["i"], v["aspect"], v["detail"][:200]))
    mine = [v for v in val["viols"] if v["prop"] == pid]
    tids = sorted({v["tid"] for v in mine})
    inputs = load_inputs(out, set(tids))
    findings = [k for k in load_known() if k["property"] == pid]

    # group violation lines per input
    per_input = {}
    for v in mine:
        per_input.setdefault(v["tid"], []).append(v)
    known_hits, unknown = {}, []
    for tid in tids:
        vs = per_input[tid]
        rest = []
        for v in vs:
            kf = known.match(findings, v, inputs[tid])
            if kf:
                known_hits.setdefault(kf["id"], []).append((tid, v))
            else:
                rest.append(v)
        if rest:
            unknown.append((tid, rest))

    for k in findings:
        hits = known_hits.get(k["id"], [])
        if hits:
            tid, v = hits[0]
            print("KNOWN-FINDING: property=%s id=%s %s (reproduced on %d input(s) in this run, e.g. %s)" % (
                pid, k["id"], k["what"], len({t for t, _ in hits}), json.dumps(inputs[tid])[:200]), flush=True)

    if os.environ.get("VERIF_SURVEY"):
        # development aid: tabulate the unclassified violation lines instead of reproducing three of them
        tab = {}
        for tid, vs in unknown:
            for v in vs:
                tab.setdefault(v["aspect"], []).append((tid, v))
        for asp, hits in sorted(tab.items(), key=lambda kv: -len(kv[1])):
            log("SURVEY %5d line(s) on %4d input(s): %s" % (len(hits), len({t for t, _ in hits}), asp))
            for tid, v in hits[:int(os.environ.get("VERIF_SURVEY_EX", "2"))]:
                log("         input=%s detail=%s" % (json.dumps(inputs[tid])[:160], v["detail"][:int(os.environ.get("VERIF_SURVEY_W", "300"))]))
        unknown = unknown[:0] if os.environ.get("VERIF_SURVEY") == "only" else unknown

    # unknown violations: reproduce each (up to 3) in isolation before believing it
    violations, unreproduced, unconfirmed = [], 0, 0
    for n, (tid, vs) in enumerate(unknown[:3]):
        rf = os.path.join(work.dir, "replay-in-%s%d.json" % (tag, n))
        with open(rf, "w") as f:
            json.dump(inputs[tid], f)
        again = []
        # schedule-dependent families get several attempts: the same seeded schedule does not always hit the same window
        for attempt in range(fam.get("repro_attempts", 1)):
            _, _, val2 = _drive_and_validate(work, fam, P, tier, seed, binary, "repro-%s%d-%d" % (tag, n, attempt), replay_file=rf)
            again = [v for v in val2["viols"] if v["prop"] == pid and not known.match(findings, v, inputs[tid])]
            if again:
                break
        if again:
            path = write_replay(pid, "%s%d" % (tag, n), dict(property=pid, family=fam.get("name", P["family"]), input=inputs[tid], seed=seed, tier=tier,
                                             violations=[dict(aspect=v["aspect"], detail=v["detail"], line=v["i"]) for v in again[:10]]))
            violations.append(path)
            print("VIOLATION property=%s replay=%s" % (pid, path), flush=True)
            log("violation: input=%s aspects=%s" % (json.dumps(inputs[tid])[:300], sorted({v["aspect"] for v in again})))
        else:
            # aspects that rest on the driver's own judgement "the system is idle now" (a bounded wait) can
            # fire when the machine is overloaded; they are a verdict only when they reproduce in isolation
            if {v["aspect"] for v in vs} <= set(fam.get("idle_judgement_aspects", [])):
                unconfirmed += 1
                log("UNCONFIRMED (idle-detection artefact, %d isolated re-runs were clean): input=%s aspects=%s" % (
                    fam.get("repro_attempts", 1), json.dumps(inputs[tid])[:300], sorted({v["aspect"] for v in vs})))
                continue
            unreproduced += 1
            log("NOT REPRODUCED in isolation: input=%s aspects=%s detail=%s" % (json.dumps(inputs[tid])[:300], sorted({v["aspect"] for v in vs}), vs[0]["detail"][:300]))
    if len(unknown) > 3 and violations:
        log("%d further violating input(s) not reproduced individually" % (len(unknown) - 3))
    return dict(violations=violations, unreproduced=unreproduced, unconfirmed=unconfirmed, known=sorted(known_hits.keys()), unknown=len(unknown), drift=len(drift))


def _run_check(pid, P, fam, tier, seed, work, t0):
    pre = fam.get("prebuild")
    if pre:
        pre()
    binary = build_vdrive(race=fam.get("race", False))
    base = check_base(work, (P.get("base", {}) or {}).get(tier, []))
    # counter-examples TLC found on design variants are replayed into the real code as extra inputs
    extra = []
    if fam.get("cex_input"):
        for b in base:
            if b.get("counterexample_actions"):
                extra.append(fam["cex_input"](b["counterexample_actions"]))
    # a fatal runtime error of the code under test kills the driver: find the input(s) that do it by re-running the
    # inputs that were in flight alone, leave them out and drive again; for the totality properties the crash is the verdict
    crashed = []
    for attempt in range(5):
        try:
            fam_try = dict(fam)
            if crashed:
                sp = os.path.join(work.dir, "skip-%d.txt" % attempt)
                with open(sp, "w") as f:
                    f.write("\n".join(crashed) + "\n")
                fam_try["drive_env"] = dict(fam.get("drive_env") or {}, VERIF_SKIP=sp)
            out, meta, val = _drive_and_validate(work, fam_try, P, tier, seed, binary, "drive-%d" % attempt if attempt else "drive", extra_inputs=extra)
            break
        except DriverCrash as dc:
            culprits = []
            for n, key in enumerate(dc.inflight[:16]):
                rf = os.path.join(work.dir, "crash-in-%d-%d.json" % (attempt, n))
                with open(rf, "w") as f:
                    f.write(key)
                try:
                    run_vdrive(binary, fam["vdrive"], work.sub("crash-%d-%d" % (attempt, n)), tier, seed, args=dict(fam.get("args", {}), **P.get("args", {})), replay=rf,
                               timeout=fam.get("crash_timeout", 120), env_extra=fam.get("drive_env"))
                except DriverCrash as dc2:
                    culprits.append(key)
                    log("input kills the driver process when run alone: %s :: %s" % (key[:200], str(dc2).strip().splitlines()[-1][:200] if str(dc2).strip() else ""))
            if not culprits or attempt == 4:
                raise
            crashed.extend(culprits)
    r = _examine(work, fam, P, pid, tier, seed, binary, out, meta, val)
    if crashed:
        if pid in fam.get("crash_props", []):
            for n, key in enumerate(crashed[:3]):
                path = write_replay(pid, "crash%d" % n, dict(property=pid, family=P["family"], input=json.loads(key), seed=seed, tier=tier,
                                                              violations=[dict(aspect="process-died-or-did-not-terminate", detail="fatal runtime error or timeout when the input is driven alone", line=0)]))
                r["violations"].append(path)
                print("VIOLATION property=%s replay=%s" % (pid, path), flush=True)
        else:
            log("%d input(s) kill the driver and were left out (reported by %s)" % (len(crashed), "/".join(fam.get("crash_props", [])) or "no property"))
    traces, events, states, nontriv = int(meta["traces"]), int(val["events"]), int(val["states"]), int(meta["nontrivial"].get(pid, 0))
    # further families that decide the same property on another input space (e.g. another alphabet of the same model)
    import registry
    also_st = []
    for k, fname in enumerate(P.get("also", [])):
        fam2 = dict(registry.FAMILIES[fname], name=fname)
        P2 = dict(P, args={}, tier_args={})
        out2, meta2, val2 = _drive_and_validate(work, fam2, P2, tier, seed, binary, "drive-%s" % fname)
        r2 = _examine(work, fam2, P2, pid, tier, seed, binary, out2, meta2, val2, tag=fname + "-")
        for key in ("violations", "known"):
            r[key] = r[key] + [x for x in r2[key] if x not in r[key]]
        for key in ("unreproduced", "unconfirmed", "unknown", "drift"):
            r[key] += r2[key]
        also_st.append("%s: %s" % (fname, selftest(work, fam2, P2, pid, out2, tag="-" + fname)))
        traces += int(meta2["traces"]); events += int(val2["events"]); states += int(val2["states"]); nontriv += int(meta2["nontrivial"].get(pid, 0))
    violations, unreproduced = r["violations"], r["unreproduced"]

    # binding self-test: corrupt one logged field of an accepted trace, TLC must flag it
    st = selftest(work, fam, P, pid, out)
    if also_st:
        st = "; ".join([st] + also_st)

    samples = meta["samples"].get(pid) or meta["samples"].get("*") or []
    cov = dict(
        evaluations=traces,
        distinct_nontrivial=nontriv,
        rule=P.get("rule", fam.get("rule", "")),
        samples=samples[:5],
        traces_validated_against_impl=traces,
        trace_events=events,
        trace_states_checked_by_tlc=states,
        base_models=base,
        states=sum(b["distinct"] for b in base) if base else states,
        transitions=sum(b["generated"] for b in base) if base else events,
        exhaustive=bool((P.get("exhaustive", {}) or {}).get(tier, False)),
        binding_selftest=st,
        known_findings_seen=r["known"],
        violating_inputs=r["unknown"],
        unconfirmed_idle_artefacts=r["unconfirmed"],
        driver_extra=meta.get("extra", {}),
        model_drift_lines=r["drift"],
    )
    wall = time.time() - t0
    write_evidence(pid, tier, seed, P["level"], cov, P.get("assumptions", []), wall, len(violations))
    if violations:
        return 1
    if unreproduced:
        raise Machinery("%d violating trace(s) did not reproduce when re-run in isolation (flaky; not a verdict)" % unreproduced)
    if nontriv < 2:
        raise Machinery("only %d non-trivial case(s) for %s - the run did not exercise the property" % (nontriv, pid))
    log("%s %s: held on %d traces (%d non-trivial), %.1fs" % (pid, tier, traces, nontriv, wall))
    return 0


def selftest(work, fam, P, pid, out, tag=""):
    cor = P.get("corrupt") or fam.get("corrupt")
    if not cor:
        return "none"
    chunks = sorted(f for f in os.listdir(out) if f.startswith("chunk_"))
    lines = [json.loads(l) for l in open(os.path.join(out, chunks[0]))]
    # keep at most the first 40 traces of the chunk
    cut, n = len(lines), 0
    for i, e in enumerate(lines):
        if e["ev"] == "reset":
            n += 1
            if n > 40:
                cut = i
                break
    lines = lines[:cut]
    desc = cor(lines, pid)
    if desc is None:
        raise Machinery("self-test: no event suitable for corruption found in the first chunk")
    d = work.sub("selftest" + tag)
    with open(os.path.join(d, "chunk_0000.ndjson"), "w") as f:
        for e in lines:
            f.write(json.dumps(e) + "\n")
    val = validate(work, fam["trace_module"], fam["trace_cfg"], d, heap=fam.get("heap", "3g"), env_extra=fam.get("tlc_env"), linear=False, renames=fam.get("renames"))
    hit = [v for v in val["viols"] if v["prop"] == pid]
    if not hit:
        raise Machinery("self-test: corrupted trace (%s) was accepted by %s - the check is vacuous" % (desc, fam["trace_module"]))
    return "corrupted trace rejected: %s -> %s" % (desc, hit[0]["aspect"])


def run_replay(pid, P, fam, path):
    work = Work(pid + "-replay")
    try:
        payload = json.load(open(path))
        import registry
        if payload.get("family") in registry.FAMILIES and payload["family"] in P.get("also", []):
            fam = dict(registry.FAMILIES[payload["family"]], name=payload["family"])   # recorded by a further family of this property
            P = dict(P, args={}, tier_args={})
        binary = build_vdrive(race=fam.get("race", False))
        rf = os.path.join(work.dir, "in.json")
        with open(rf, "w") as f:
            json.dump(payload["input"], f)
        try:
            _, _, val = _drive_and_validate(work, fam, P, payload.get("tier", "quick"), payload.get("seed", 1), binary, "replay", replay_file=rf)
        except DriverCrash as dc:
            if pid in fam.get("crash_props", []):
                log("replay: the input kills the driver process: %s" % str(dc).strip().splitlines()[-1][:200])
                print("VIOLATION property=%s replay=%s" % (pid, path), flush=True)
                return 1
            raise
        findings = [k for k in load_known() if k["property"] == pid]
        hit = [v for v in val["viols"] if v["prop"] == pid and not known.match(findings, v, payload["input"])]
        for v in hit[:10]:
            log("replay: %s %s" % (v["aspect"], v["detail"]))
        if hit:
            print("VIOLATION property=%s replay=%s" % (pid, path), flush=True)
            return 1
        log("replay: input no longer violates %s" % pid)
        return 0
    finally:
        work.cleanup()
