# Classifiers for KNOWN_FINDINGS.txt entries. A finding is identified by the specific input or by a
# history predicate on the input, as narrow as the defect's mechanism, so that any other violation of
# the same property is still reported. Nothing here is written at run time.
import json, re

CLASSIFIERS = {}


def classifier(name):
    def deco(f):
        CLASSIFIERS[name] = f
        return f
    return deco


def match(findings, viol, inp):
    """Returns the finding that explains violation line `viol` on input `inp`, or None."""
    for k in findings:
        f = CLASSIFIERS.get(k["classifier"])
        if f is None:
            continue
        try:
            if f(viol, inp, k["param"]):
                return k
        except Exception:
            continue
    return None


# ---- C34: a leaf board named "index" is written to the same file as its parent board ------------
def _index_collisions(boards):
    """number of leaf boards named 'index' whose parent has sub-boards of a single kind"""
    n = 0
    kinds = {b["kind"] for b in boards}
    for b in boards:
        ch = b.get("children") or []
        if b["name"] == "index" and not ch and len(kinds) == 1:
            n += 1
        n += _index_collisions(ch)
    return n


@classifier("c34_index_board")
def c34_index_board(viol, inp, param):
    if inp.get("mode") != "boards":
        return False
    pred = _index_collisions(inp.get("boards") or [])
    if pred == 0:
        return False
    d = json.loads(viol["detail"])
    if viol["aspect"] == "output-file-produced-twice":
        paths = d[1]["__set__"] if isinstance(d[1], dict) else d[1]
        return all(re.search(r"(^|/)index\.svg$", p) for p in paths)
    if viol["aspect"] == "files-written-vs-boards-rendered":
        files, boards = d
        return boards - files == pred
    return False
