# Classifiers for KNOWN_FINDINGS.txt entries. A finding is identified by the specific input or by a
# history predicate on the input, as narrow as the defect's mechanism, so that any other violation of
# the same property is still reported. Nothing here is written at run time.
import json, re

CLASSIFIERS = {}


def classifier(name):
    def deco(f):
        CLASSIFIERS[name] = f
        return f
    return deco


def match(findings, viol, inp):
    """Returns the finding that explains violation line `viol` on input `inp`, or None."""
    for k in findings:
        f = CLASSIFIERS.get(k["classifier"])
        if f is None:
            continue
        try:
            if f(viol, inp, k["param"]):
                return k
        except Exception:
            continue
    return None


# ---- C34: a leaf board named "index" is written to the same file as its parent board ------------
def _index_collisions(boards):
    """number of leaf boards named 'index' whose parent has sub-boards of a single kind"""
    n = 0
    kinds = {b["kind"] for b in boards}
    for b in boards:
        ch = b.get("children") or []
        if b["name"] == "index" and not ch and len(kinds) == 1:
            n += 1
        n += _index_collisions(ch)
    return n


@classifier("c34_index_board")
def c34_index_board(viol, inp, param):
    if inp.get("mode") != "boards":
        return False
    pred = _index_collisions(inp.get("boards") or [])
    if pred == 0:
        return False
    d = json.loads(viol["detail"])
    if viol["aspect"] == "output-file-produced-twice":
        paths = d[1]["__set__"] if isinstance(d[1], dict) else d[1]
        return all(re.search(r"(^|/)index\.svg$", p) for p in paths)
    if viol["aspect"] == "files-written-vs-boards-rendered":
        files, boards = d
        return boards - files == pred
    return False


# ---- ir family helpers -----------------------------------------------------------------------------
import os as _os
_ALPHA = None


def _alphabet():
    global _ALPHA
    if _ALPHA is None:
        _ALPHA = json.load(open(_os.path.join(_os.path.dirname(_os.path.dirname(_os.path.abspath(__file__))), "specs", "ir_alphabet.json")))
    return _ALPHA


def _foldpath(p):
    f = _alphabet()["fold"]
    return [f[x] for x in p]


# ---- C10: an explicit `label:` field beats a later primary value `x: text` --------------------------
@classifier("c10_label_field_beats_later_primary")
def c10_label_field(viol, inp, param):
    if viol["aspect"] != "label-is-not-the-last-assignment":
        return False
    path, observed, expected = json.loads(viol["detail"])
    decls = [_alphabet()["decls"][i - 1] for i in inp["prog"]]
    for i, d in enumerate(decls):
        if d["k"] == "attr" and d["a"] == "label" and _foldpath(d["p"]) == path and d["v"] == observed:
            for e in decls[i + 1:]:
                if e["k"] == "obj" and e.get("v") == expected and _foldpath(e["p"]) == path:
                    return True
    return False


# ---- C11: a connection created after a deletion in its bundle reuses a live index -------------------
@classifier("c11_index_reused_after_deletion")
def c11_index_reused(viol, inp, param):
    if viol["aspect"] != "indexed-reference-changed-several-connections":
        return False
    decls = [_alphabet()["decls"][i - 1] for i in inp["prog"]]

    def bundle(d):
        return (tuple(_foldpath(d["s"])), tuple(_foldpath(d["d"])), d["sa"], d["da"])
    # history predicate: in one bundle, a deletion (indexed, or through a null of an endpoint's ancestor is NOT enough:
    # that removes the whole bundle), then a creation, then an indexed update
    for i, d in enumerate(decls):
        if d["k"] != "enull":
            continue
        b = bundle(d)
        for j in range(i + 1, len(decls)):
            if decls[j]["k"] == "edge" and bundle(decls[j]) == b:
                for k in range(j + 1, len(decls)):
                    if decls[k]["k"] == "eref" and bundle(decls[k]) == b:
                        return True
    return False


# ---- C12: a glob declaration repeated verbatim in the same scope is not applied a second time -------
_GALPHA = None


def _galphabet():
    global _GALPHA
    if _GALPHA is None:
        _GALPHA = json.load(open(_os.path.join(_os.path.dirname(_os.path.dirname(_os.path.abspath(__file__))), "specs", "ir_alphabet_glob.json")))
    return _GALPHA


@classifier("c12_identical_glob_repeated")
def c12_identical_glob(viol, inp, param):
    if viol["aspect"] not in ("shape-is-not-the-last-assignment", "attribute-is-not-the-last-assignment", "label-differs-from-model"):
        return False
    decls = _galphabet()["decls"]
    prog = inp["prog"]
    d = json.loads(viol["detail"])
    expected = d[2]
    exp_vals = set()
    if isinstance(expected, dict) and "__set__" in expected:
        exp_vals = {tuple(p) for p in expected["__set__"]}
    for i in set(prog):
        g = decls[i - 1]
        if g["k"] != "glob" or prog.count(i) < 2:
            continue
        if viol["aspect"] == "shape-is-not-the-last-assignment" and g["a"] == "shape" and g["v"] == expected:
            return True
        if viol["aspect"] == "label-differs-from-model" and g["a"] == "label" and g["v"] == expected:
            return True
        if viol["aspect"] == "attribute-is-not-the-last-assignment" and (g["a"], g["v"]) in exp_vals:
            return True
    return False


# ---- C12: an object declared again after `x: null` does not receive the standing globs --------------
@classifier("c12_recreated_after_null_misses_globs")
def c12_recreated(viol, inp, param):
    if viol["aspect"] not in ("shape-is-not-the-last-assignment", "attribute-is-not-the-last-assignment", "label-differs-from-model"):
        return False
    al = _galphabet()
    fold = al["fold"]
    decls = [al["decls"][i - 1] for i in inp["prog"]]
    path = json.loads(viol["detail"])[0]
    line = viol["i"]
    seen_glob = False
    for d in decls[:max(line - 1, 0)]:
        if d["k"] == "glob":
            seen_glob = True
        if d["k"] == "null":
            p = [fold[x] for x in d["p"]]
            if path[:len(p)] == p and (seen_glob or any(x["k"] == "glob" for x in decls)):
                return True
    return False


# ---- layout findings (C19, C20, C21) ---------------------------------------------------------------
@classifier("c19_same_near_constant_overlap")
def c19_same_near(viol, inp, param):
    if viol["aspect"] != "sibling-shapes-overlap":
        return False
    d = json.loads(viol["detail"])
    return d[3] != "" and d[3] == d[4]


@classifier("c20_self_loop_on_container")
def c20_self_loop(viol, inp, param):
    if viol["aspect"] not in ("connection-does-not-start-on-its-source", "connection-does-not-end-on-its-destination"):
        return False
    d = json.loads(viol["detail"])
    rec = d[-1]
    return isinstance(rec, dict) and rec.get("self") == 1 and rec.get("kids", 0) > 0


@classifier("c21_dagre_label_and_icon_grow_explicit_size")
def c21_dagre_icon_label(viol, inp, param):
    if viol["aspect"] != "explicit-size-not-honoured":
        return False
    d = json.loads(viol["detail"])
    engine, _id, _shape, want, got, rec = d
    return engine == "dagre" and rec.get("icon") == 1 and rec.get("label") == 1 and got[0] >= want[0] and got[1] >= want[1] and got != want


@classifier("witness_seed")
def witness_seed(viol, inp, param):
    """a finding identified by its specific input: param = mode:seed:engine:aspect-prefix"""
    mode, seed, engine, aspect = param.split(":")
    return inp.get("mode") == mode and str(inp.get("seed")) == seed and inp.get("engine") == engine and viol["aspect"].startswith(aspect)


# ---- formatter findings (C03, C04): board blocks are hoisted to the end of their map ---------------
def _fmt_feats(viol):
    d = json.loads(viol["detail"])
    return d.get("feats", []) if isinstance(d, dict) else []


@classifier("c03_board_block_first_in_file")
def c03_board_first(viol, inp, param):
    return viol["aspect"] == "formatting-twice-changes-the-text" and "boards-first" in _fmt_feats(viol)


@classifier("c04_scenarios_or_steps_moved_behind_later_declarations")
def c04_boards_moved(viol, inp, param):
    f = _fmt_feats(viol)
    return (viol["aspect"] == "formatted-text-compiles-to-a-different-diagram" and ("boards-first" in f or "boards-middle" in f)
            and ("boards-scenarios" in f or "boards-steps" in f))


@classifier("c20_elk_self_loop_offset")
def c20_elk_self(viol, inp, param):
    if viol["aspect"] not in ("connection-does-not-start-on-its-source", "connection-does-not-end-on-its-destination"):
        return False
    d = json.loads(viol["detail"])
    engine, _id, _shape, pt, box, rec = d
    if engine != "elk" or rec.get("self") != 1 or rec.get("kids", 0) != 0:
        return False
    dx = max(box[0] - pt[0], pt[0] - box[2], 0)
    dy = max(box[1] - pt[1], pt[1] - box[3], 0)
    return max(dx, dy) <= 10


# ---- oracle findings (C37, C39, C40) ----------------------------------------------------------------
def _strip_index(s):
    return re.sub(r"\[\d+\]$", "", s)


@classifier("c37_parallel_connection_created_in_front")
def c37_parallel(viol, inp, param):
    d = json.loads(viol["detail"])
    if viol["aspect"] == "created-connection-has-not-the-returned-id":
        actual, returned = d[0], d[1]
        return actual != returned and _strip_index(actual) == _strip_index(returned)
    if viol["aspect"] == "create-changed-an-existing-connection":
        returned = d[1]
        m = re.search(r"\[(\d+)\]$", returned)
        return bool(m) and int(m.group(1)) >= 1
    return False


@classifier("c40_reconnect_index_ignores_arrow_direction")
def c40_reconnect(viol, inp, param):
    if viol["aspect"] != "connection-id-after-the-edit-differs-from-the-predicted-one":
        return False
    op, before, actual, predicted = json.loads(viol["detail"])[:4]
    return op == "reconnect" and actual != predicted and _strip_index(actual) == _strip_index(predicted)


@classifier("c40_rename_collision_with_nested_path")
def c40_rename_collision(viol, inp, param):
    d = json.loads(viol["detail"])
    if viol["aspect"] in ("object-id-after-the-edit-differs-from-the-predicted-one", "connection-id-after-the-edit-differs-from-the-predicted-one"):
        op, before, actual, predicted = d[:4]
        unq = lambda x: x.replace("'", "").replace('"', "")
        return op == "rename" and unq(re.sub(r" \d+", "", actual)) == unq(predicted)
    if viol["aspect"] == "renamed-object-has-not-the-requested-name":
        wanted, got = d
        return re.fullmatch(re.escape(wanted) + r" \d+", got) is not None
    return False


@classifier("c40_delete_predicts_change_for_removed_connection_to_own_descendant")
def c40_delete_removed(viol, inp, param):
    if viol["aspect"] != "id-change-predicted-for-a-removed-connection":
        return False
    eid = json.loads(viol["detail"])
    m = re.search(r"\((.+?) (?:->|<-|--|<->) (.+?)\)\[\d+\]$", eid)
    if not m:
        return False
    a, b = m.group(1), m.group(2)
    return a.startswith(b + ".") or b.startswith(a + ".")


@classifier("c41_move_into_inherited_container")
def c41_move_inherited(viol, inp, param):
    if viol["aspect"] != "edit-changed-a-board-that-neither-is-nor-inherits-from-the-addressed-one":
        return False
    op, board, changed, ok, inherited = json.loads(viol["detail"])
    # the edit is addressed to a scenario/step and its target (or, for a move, the destination container) is an
    # element the scenario inherits from the base board
    # observed on the unchanged tree for exactly these operations; Rename, ReconnectEdge, Create and deleting or
    # restyling a connection never leak (a Rename or Move of an inherited object itself is refused)
    leaking = ("delete", "delete-attr", "delete-edge-attr", "move", "set-attr", "set-label", "set-shape", "set-style")
    return ok == 1 and len(board) > 0 and board[0] in ("s1", "s2") and inherited == 1 and op in leaking


# ---- parser positions (C02) --------------------------------------------------------------------------
def _input_bytes(inp):
    try:
        return bytes.fromhex(inp.get("hex", ""))
    except Exception:
        return b""


@classifier("c02_invalid_utf8_advances_three_bytes")
def c02_invalid_utf8(viol, inp, param):
    if not (viol["aspect"].startswith("line-column-offset") or viol["aspect"].endswith("outside-the-input") or viol["aspect"] in ("node-range-not-nested-in-its-parent", "key-segment-text-does-not-parse-back-to-its-value")):
        return False
    b = _input_bytes(inp)
    try:
        b.decode("utf-8")
        return False
    except UnicodeDecodeError:
        return True


@classifier("c02_unterminated_substitution_range")
def c02_unterminated_subst(viol, inp, param):
    # the string's own end is the last rune read by parseUnquotedString itself: what parseSubstitution
    # consumed is not counted, so a value that ends on a substitution (terminated or not) ends too early
    b = _input_bytes(inp)
    return viol["aspect"] == "node-range-not-nested-in-its-parent" and b"${" in b


@classifier("c02_line_continuation_at_end_column_minus_one")
def c02_line_continuation(viol, inp, param):
    if viol["aspect"] != "line-column-offset-of-an-error-disagree":
        return False
    d = json.loads(viol["detail"])
    # "missing value after colon" is placed one rune before the first rune after the continuation: column 0 - 1
    return b"\\\n" in _input_bytes(inp) and d[1][1] == -1


@classifier("c02_unquoted_string_ending_on_escape")
def c02_unquoted_escape_end(viol, inp, param):
    if viol["aspect"] != "key-segment-text-does-not-parse-back-to-its-value":
        return False
    d = viol["detail"]
    if d.startswith('"'):
        d = json.loads(d)
    m = re.search(r'covers ".*?(\\*)"$', d, re.S)
    # the covered source text (Go %q: every backslash doubled) stops in the middle of the segment's final
    # escape sequence, i.e. it ends on an odd number of backslashes
    return bool(m) and (len(m.group(1)) // 2) % 2 == 1


@classifier("c02_unquoted_key_ending_on_dash")
def c02_unquoted_dash_end(viol, inp, param):
    if viol["aspect"] != "key-segment-text-does-not-parse-back-to-its-value":
        return False
    d = viol["detail"]
    if d.startswith('"'):
        d = json.loads(d)
    m = re.match(r'^"(.*)" covers "(.*)"$', d, re.S)
    # a key that ends on a dash right before a line end or bracket: the dash is in the value, not in the range
    return bool(m) and m.group(1) == m.group(2) + "-"


# ---- Move into a container that is declared only through flat keys (KF-C39-2) ----------------------
@classifier("c39_move_into_container_declared_only_by_the_moved_key")
def c39_move_flat_parent(viol, inp, param):
    d = json.loads(viol["detail"])
    if viol["aspect"] == "moved-object-is-not-in-the-requested-container":
        dest, got_parent, want_parent = d
        return want_parent.startswith("id:")
    if viol["aspect"] in ("object-id-after-the-edit-differs-from-the-predicted-one", "connection-id-after-the-edit-differs-from-the-predicted-one"):
        return d[0] == "move" and len(d) > 4 and d[4].startswith("id:")
    return False


@classifier("witness_oracle")
def witness_oracle(viol, inp, param):
    """an edit-history finding identified by its specific input: param = gen:seed:boards:aspect-prefix"""
    if "," in param:   # several witnesses of the same defect
        return any(witness_oracle(viol, inp, w) for w in param.split(","))
    gen, seed, boards, aspect = param.split(":")
    if gen == "script":   # a written history of harness/cmd/vdrive/oraclescripts.go, by its 1-based number
        return str(inp.get("script", 0)) == seed and viol["aspect"].startswith(aspect)
    return (not inp.get("script") and str(inp.get("gen", 1)) == gen and str(inp.get("seed")) == seed and str(int(bool(inp.get("boards")))) == boards
            and viol["aspect"].startswith(aspect))


# ---- C05: the formatter folds the letter case of unquoted keys that are spelled like a reserved keyword ------
@classifier("c05_keyword_like_key_lower_cased")
def c05_keyword_key(viol, inp, param):
    if viol["aspect"] != "string-read-back-differs":
        return False
    via, s, back, text = json.loads(viol["detail"])
    given = "".join(chr(c) for c in s)
    got = "".join(chr(c) for c in back)
    return via == "key" and given != given.lower() and got == given.lower() and text == got


# ---- C13: substitution inside a longer string rewrites the AST string shared with inheriting scenarios ---------
@classifier("c13_mixed_string_resolved_once_for_base_and_scenario")
def c13_shared_ast(viol, inp, param):
    if viol["aspect"] not in ("compiled-text-is-not-the-textual-replacement-from-the-innermost-scope", "program-and-its-textually-substituted-twin-compile-differently",
                              "undefined-variable-not-reported"):
        return False
    d = json.loads(viol["detail"])
    return d[-1] == 1


# ---- C14: an imported file is compiled on its own and then overlaid ---------------------------------------------
_C14_ASPECTS = ("import-is-not-inlining", "file-set-and-its-inlined-twin-compile-differently", "valid-file-set-rejected", "reference-to-a-missing-connection-accepted")


def _c14_flags(viol):
    d = json.loads(viol["detail"])
    return d[-3], d[-2], d[-1]   # a null declaration / a shared connection bundle / an indexed reference in an imported file


@classifier("c14_null_in_imported_file_stays_local")
def c14_null(viol, inp, param):
    return viol["aspect"] in _C14_ASPECTS and _c14_flags(viol)[0] == 1


@classifier("c14_imported_connection_merges_with_an_equal_one")
def c14_twice(viol, inp, param):
    return viol["aspect"] in _C14_ASPECTS and _c14_flags(viol)[1] == 1


@classifier("c14_indexed_reference_in_imported_file_sees_only_that_file")
def c14_eref(viol, inp, param):
    return viol["aspect"] in _C14_ASPECTS and _c14_flags(viol)[2] == 1


# ---- C47: code is drawn with non-breaking spaces that are not in the corpus the font subsets are cut from --------
@classifier("c47_nbsp_of_code_not_in_subset")
def c47_nbsp(viol, inp, param):
    if viol["aspect"] != "character-drawn-in-a-font-whose-embedded-subset-has-no-glyph-for-it":
        return False
    style, missing, _ = json.loads(viol["detail"])
    return style.startswith("mono") and missing.get("__set__") == [160]


@classifier("c47_greek_capital_omega_dropped_from_italic_subset")
def c47_omega(viol, inp, param):
    if viol["aspect"] != "character-drawn-in-a-font-whose-embedded-subset-has-no-glyph-for-it":
        return False
    style, missing, _ = json.loads(viol["detail"])
    return style == "italic" and missing.get("__set__") == [937]


# ---- C10: a class written as a scalar beats a class list written later ---------------------------------------------
@classifier("c10_scalar_class_beats_later_class_list")
def c10_class_scalar(viol, inp, param):
    if viol["aspect"] != "class-is-not-the-last-assignment":
        return False
    path, got, want = json.loads(viol["detail"])
    return len(got) == 1 and len(want) > 1


# ---- C07: recursive globs that create objects multiply them --------------------------------------
@classifier("c07_recursive_globs_multiply_objects")
def c07_rglobs(viol, inp, param):
    # two or more ** / *** globs in the program, each of which may create objects the other matches again;
    # the detail carries the number of recursive globs of the input (a syntactic fact logged by the driver)
    if viol["aspect"] == "compile-time-not-proportional-to-input":
        return json.loads(viol["detail"])[2] >= 2
    if viol["aspect"] == "stage-did-not-terminate":
        d = json.loads(viol["detail"])
        return d[0] == "compile" and d[2] >= 2
    return False


@classifier("c03_no_final_newline_one_line_file_or_array")
def c03_no_final_nl(viol, inp, param):
    f = _fmt_feats(viol)
    return viol["aspect"] == "formatting-twice-changes-the-text" and "no-final-newline" in f and ("file-on-one-line" in f or "array-then-eof" in f)


@classifier("c02_array_range_ends_behind_the_newline")
def c02_array_end(viol, inp, param):
    # detail = [which, child range, parent range], a range = [line, column, byte, end line, end column, end byte, kind]:
    # the child ends at column 0 of a later line, right behind a newline that follows the closing bracket
    if viol["aspect"] != "node-range-not-nested-in-its-parent":
        return False
    child = json.loads(viol["detail"])[1]
    lines = _input_bytes(inp).split(b"\n")
    return child[4] == 0 and child[3] > child[0] and child[3] - 1 < len(lines) and lines[child[3] - 1].rstrip(b" \t\r").endswith(b"]")


# ---- C35: a board nested two or more levels deep keeps a link to itself -----------------------------
@classifier("c35_self_link_in_board_nested_two_levels")
def c35_self_link(viol, inp, param):
    # both aspects are only raised when the specification's Target(cur, base, toks) is the board itself; detail[0] = that board
    if viol["aspect"] not in ("link-to-the-board-itself-kept", "link-to-the-board-itself-present-in-the-output"):
        return False
    return len(json.loads(viol["detail"])[0]) >= 4


# ---- C12: a label-field glob on connections beats the own label of a connection created later -------
_EALPHA = None


@classifier("c12_connection_label_glob_beats_own_label")
def c12_edge_label_glob(viol, inp, param):
    global _EALPHA
    if viol["aspect"] != "connection-label-is-not-the-last-assignment":
        return False
    if _EALPHA is None:
        _EALPHA = json.load(open(_os.path.join(_os.path.dirname(_os.path.dirname(_os.path.abspath(__file__))), "specs", "ir_alphabet_edgeglob.json")))
    decls = [_EALPHA["decls"][i - 1] for i in inp["prog"]]
    return any(d["k"] == "eglob" and d["a"] == "label" for d in decls) and any(d["k"] in ("edge", "gedge") and d.get("v", "") != "" for d in decls)
