# Classifiers for KNOWN_FINDINGS.txt entries. A finding is identified by the specific input or by a
# history predicate on the input, as narrow as the defect's mechanism, so that any other violation of
# the same property is still reported. Nothing here is written at run time.
import json, re

CLASSIFIERS = {}


def classifier(name):
    def deco(f):
        CLASSIFIERS[name] = f
        return f
    return deco


def match(findings, viol, inp):
    """Returns the finding that explains violation line `viol` on input `inp`, or None."""
    for k in findings:
        f = CLASSIFIERS.get(k["classifier"])
        if f is None:
            continue
        try:
            if f(viol, inp, k["param"]):
                return k
        except Exception:
            continue
    return None
