# Families (one vdrive sub-command + one Trace*.tla each) and the per-property configuration.
import copy

FAMILIES = {}
PROPS = {}


# ---------------------------------------------------------------------------------- anim (C33)
def corrupt_anim(lines, pid):
    for e in lines:
        if e.get("ev") == "anim" and e["n"] >= 2 and e["T"] >= 10:
            st = e["boards"][0]
            st[-1]["op"] = 100
            st[-2]["op"] = 100
            return "board 0 of (n=%d,T=%d) never fades out" % (e["n"], e["T"])
    return None


FAMILIES["anim"] = dict(vdrive="anim", trace_module="TraceD2Anim", trace_cfg="TraceD2Anim.cfg", chunk=60, corrupt=corrupt_anim)

PROPS["C33"] = dict(
    family="anim", level="model_checking", design_ref="4.9",
    technique="TLA+ clock model of the animation cycle checked by TLC (safety + liveness); key frames emitted by the real d2animate.Wrap validated by TLC against the same operators",
    base=dict(
        quick=[dict(module="D2Anim", cfg="D2Anim_quick.cfg"),
               dict(module="D2Anim", cfg="D2Anim_ceil100.cfg", expect="violation", note="variant EndRule=ceil100 (pre-fix code rule) must break OneAtATime at n=101")],
        thorough=[dict(module="D2Anim", cfg="D2Anim_quick.cfg"), dict(module="D2Anim", cfg="D2Anim_thorough.cfg", timeout=1800),
                  dict(module="D2Anim", cfg="D2Anim_ceil100.cfg", expect="violation")]),
    rule="(n boards, interval T ms) pairs: quick n in 1..24 plus {50,99,100,101,102,127,128,130} and 4 seed-chosen n, thorough every n in 1..130; T from {1, 2, 3, 10, 16, 100, 1000, 1200, 2000, 5000} (thorough also 7, 33, 250, 3000, 7500); n*T <= 1e6 ms. "
         "Non-trivial: n >= 2 and T >= 3 (a steady interval with interior sample instants exists).",
    exhaustive=dict(quick=False, thorough=True),
    assumptions=["CSS animation semantics as transcribed in AnimOps.tla (same-offset stops cascade, linear interpolation)",
                 "percentages are printed with 6 decimals; sample instants stay eps = total/1e8 + 2 us inside each steady interval",
                 "regex extraction of @keyframes blocks from the SVG in harness/cmd/vdrive/anim.go"],
    text="The animation timeline is a small discrete-time state machine; TLC checks OneAtATime/Ordered/EveryBoardShown on the ideal key frames for all (n,T) in the config, "
         "and re-evaluates the same predicates on the key frames the real Wrap emits for every (n,T) of the tier.",
    note="Trusted: TLC, the Json module, the keyframe regex/decimal parser in the driver.")


# ---------------------------------------------------------------------------------- fs (C48, C34)
def _prebuild_d2():
    import core
    core.build_d2()


def corrupt_fs(lines, pid):
    if pid == "C48":
        # make a completed atomic/plain run "lose" its last write: the file is then partial at exit
        for k, e in enumerate(lines):
            if e.get("ev") == "sys" and e.get("call") == "write" and e["n"] > 1:
                e["n"] -= 1
                return "one byte dropped from a write of %s" % e["path"]
        return None
    if pid == "C34":
        for e in lines:
            if e.get("ev") == "exit" and e.get("changed") and len(e["changed"]) > 1:
                e["changed"][0] = ["L1", "ESCAPED.svg"]
                return "one written file relocated outside the output directory"
        return None


import os as _os
import core as _core
_D2 = _os.path.join(_core.BUILD, "d2")   # .build/d2, or the scratch build directory when VERIF_REPO points at a worktree
FAMILIES["fs"] = dict(vdrive="fs", trace_module="TraceFSWrite", trace_cfg="TraceFSWrite.cfg", corrupt=corrupt_fs,
                      prebuild=_prebuild_d2, args={"d2": _D2}, engine="TraceFSWrite")

PROPS["C48"] = dict(
    family="fs", level="model_checking", design_ref="4.3", args={"modes": "fmt,render"},
    technique="TLA+ file-system model of the write protocols with a Crash action at every system call (TLC); strace-recorded system calls of the real `d2 fmt` / `d2 in out.svg` replayed on the model by TLC, Atomicity evaluated after every call; real SIGKILLs at those calls",
    base=dict(quick=[dict(module="FSWrite", cfg="FSWrite_atomic.cfg"),
                     dict(module="FSWrite", cfg="FSWrite_plain.cfg", expect="violation", note="os.WriteFile protocol (d2 fmt before the fix) must break Atomicity")],
              thorough=[dict(module="FSWrite", cfg="FSWrite_atomic.cfg"),
                        dict(module="FSWrite", cfg="FSWrite_plain.cfg", expect="violation")]),
    rule="one trace per command run: `d2 fmt f.d2` on unformatted sources of several sizes, `d2 in.d2 out.svg` with and without an existing out.svg; plus one trace per real SIGKILL "
         "(strace inject at the per-thread ordinal of each sandbox system call). Every system-call prefix of a run is a crash point. Non-trivial: the run made at least one modifying call in the sandbox, or the process was really killed.",
    exhaustive=dict(quick=False, thorough=False),
    assumptions=["single sequential writer: the disk state after calls 1..i is what a kill before call i+1 leaves (no fsync/power-loss reordering is modelled)",
                 "strace -f -y output is parsed by harness/cmd/vdrive/fs.go; only calls on paths inside the sandbox are kept",
                 "a file created/truncated by the command and grown to NewLen bytes holds the new content (confirmed byte-for-byte for the completed run)",
                 "kill points are reached opportunistically (strace counts per thread); coverage achieved is reported in driver_extra, unreached points are covered by the prefix argument only"],
    text="TLC proves Atomicity for the temp+rename protocol at every crash point and refutes it for open(O_TRUNC)+write; the real binary's system calls are replayed by TLC on the same FS model "
         "with the invariant evaluated after every call, and the file really left behind by SIGKILL at those calls is compared with the model.",
    note="Trusted: TLC, Json module, strace and its parser in the driver, the FSOps abstraction of POSIX calls.")

PROPS["C34"] = dict(
    family="fs", level="model_checking", design_ref="4.3", args={"modes": "boards"},
    technique="TLA+ transcription of the board-to-file path derivation checked by TLC over all board trees within bounds (injectivity, containment, no late delete); strace traces and before/after directory snapshots of the real CLI on generated board trees validated by TLC",
    base=dict(quick=[dict(module="BoardPaths", cfg="BoardPaths_plain.cfg"),
                     dict(module="BoardPaths", cfg="BoardPaths_escaped.cfg"),
                     dict(module="BoardPaths", cfg="BoardPaths_code.cfg", expect="violation", note="names read as paths escape the output directory"),
                     dict(module="BoardPaths", cfg="BoardPaths_index.cfg", expect="violation", note="a board named index collides with its parent's index file")],
              thorough=[dict(module="BoardPaths", cfg="BoardPaths_plain.cfg"),
                        dict(module="BoardPaths", cfg="BoardPaths_escaped.cfg"),
                        dict(module="BoardPaths", cfg="BoardPaths_code.cfg", expect="violation"),
                        dict(module="BoardPaths", cfg="BoardPaths_index.cfg", expect="violation")]),
    rule="board trees of depth <= 2 (1-3 boards per level, kinds layers/scenarios/steps) with names from {a,b,index,layers,a.b,a/b,..,../x,'x y',.,x/index,scenarios}: 11 fixed trees plus seeded random trees "
         "(14 quick / 400 thorough), each rendered by the real CLI into a 6-level sentinel sandbox. Non-trivial: the CLI exited 0 and made modifying calls.",
    exhaustive=dict(quick=False, thorough=False),
    assumptions=["the output location of `d2 in.d2 out.svg` for a multi-board diagram is the directory out/ next to it",
                 "boards rendered = boards of the compiled diagram that are not folder-only (computed with d2lib from the same source)"],
    text="The path derivation is a function over board trees; TLC enumerates all trees within the bounds and checks OneFilePerBoard/Contained/NoLateDelete, and every modifying system call, changed file "
         "and deleted file of the real CLI is checked by TLC against the output directory.",
    note="Trusted: TLC, Json module, strace parser, directory snapshot code in the driver.")


# ---------------------------------------------------------------------------------- watch (C44, C45)
def corrupt_watch(lines, pid):
    if pid == "C44":
        # a registered client is skipped by one broadcast
        for k, e in enumerate(lines):
            if e.get("ev") == "wake":
                del lines[k]
                return "one wake event of a broadcast removed (client %d not notified)" % e["c"]
        return None
    if pid == "C45":
        # close() returns before a handler has finished
        for k, e in enumerate(lines):
            if e.get("ev") == "done":
                for j in range(k + 1, len(lines)):
                    if lines[j].get("ev") == "reset":
                        break
                    if lines[j].get("ev") == "closed":
                        lines.insert(j, lines.pop(k))
                        return "done of client %d moved after closed" % e["c"]
        return None


FAMILIES["watch"] = dict(vdrive="watch", trace_module="TraceD2Watch", trace_cfg="TraceD2Watch.cfg", corrupt=corrupt_watch, engine="TraceD2Watch", repro_attempts=4,
                        idle_judgement_aspects=["last-compile-did-not-use-latest-content", "latest-result-not-delivered-to-every-client-within-bound"])

_watch_base = dict(
    quick=[dict(module="D2Watch", cfg="D2Watch_quick.cfg"),
           dict(module="D2Watch", cfg="D2Watch_live.cfg"),
           dict(module="D2Watch", cfg="D2Watch_shutdown.cfg"),
           dict(module="D2Watch", cfg="D2Watch_notifyfirst.cfg", expect="violation", note="broadcast that notifies before storing the result must break LatestDelivered")],
    thorough=[dict(module="D2Watch", cfg="D2Watch_safety.cfg", timeout=1800),
              dict(module="D2Watch", cfg="D2Watch_live.cfg"),
              dict(module="D2Watch", cfg="D2Watch_shutdown.cfg"),
              dict(module="D2Watch", cfg="D2Watch_notifyfirst.cfg", expect="violation")])
_watch_rule = ("one trace per watcher lifetime: the real d2cli.Run --watch in-process, a seeded harness schedule of 1-3 websocket clients, 1-4 file changes, hang-ups, "
               "a quiescence wait, then shutdown racing with late dials; hook calls sleep 0-3 ms with probability 0/30/60 % (seeded), plus one targeted run per hook in which that hook always sleeps 6 ms. "
               "Non-trivial: ")
_watch_assume = ["hook events are appended under the lock that protects the state they describe (wsclientsMu / resMu / the trace lock around requestCompile)",
                 "channel receives, the input read and getRes are announced after the fact; only interval facts are checked for them",
                 "bounded liveness: 6 s (less than the 10 s poll ticker) for every live client to receive the last version after the last change",
                 "the http server stops accepting before close() begins, so admission racing with shutdown is explored by the model only",
                 "poll ticker (10 s) and board-path changes via handleRoot are outside the model (extra compile requests only)"]
PROPS["C44"] = dict(
    family="watch", level="model_checking", design_ref="4.1", base=_watch_base,
    technique="TLA+ model of watch.go's goroutines/mutexes/capacity-1 channels checked by TLC (safety incl. NeverLost/Monotone, liveness LatestCompiled/LatestDelivered under fairness); hook traces of the real watcher validated by TLC: atomic steps must be D2Watch actions, interval facts for the rest",
    rule=_watch_rule + "at least one change and one live client at quiescence.",
    exhaustive=dict(quick=False, thorough=False), assumptions=_watch_assume,
    text="All interleavings of 2 clients x 2-3 versions are model-checked (safety and liveness); recorded executions of the real watcher under perturbed schedules are checked step by step against the same module.",
    note="Trusted: TLC, Json module, the hook placement in d2cli/watch.go, the harness websocket client.")
PROPS["C45"] = dict(
    family="watch", level="model_checking", design_ref="4.1", base=_watch_base,
    technique="TLA+ model of admission/registration/wait-group/shutdown checked by TLC (WgCounts, ClosedMeansAllFinished, NoAdmitAfterClosing, NoWgChangeAfterClosed, ShutdownCompletes); hook traces of the real watcher incl. shutdown racing with dials/hang-ups validated by TLC, plus goroutine/connection leak observations",
    rule=_watch_rule + "the watcher was shut down (every trace).",
    exhaustive=dict(quick=False, thorough=False), assumptions=_watch_assume,
    text="Same model and traces as C44; the C45 invariants are evaluated on the replayed wait-group/handler state at every step and on what the harness observes after Run returns.",
    note="Trusted: TLC, Json module, hook placement, runtime.Stack based handler-leak detection.")


# ---------------------------------------------------------------------------------- bundle (C46)
def corrupt_bundle(lines, pid):
    for e in lines:
        if e.get("ev") == "return" and e["replaced"] and 1 in e["replaced"]:
            k = e["replaced"].index(1)
            e["replaced"][k] = 0
            return "one replaced occurrence reported as not replaced"
    return None


FAMILIES["bundle"] = dict(vdrive="bundle", trace_module="TraceImgBundle", trace_cfg="TraceImgBundle.cfg", corrupt=corrupt_bundle, engine="TraceImgBundle")
PROPS["C46"] = dict(
    family="bundle", level="model_checking", design_ref="4.2",
    technique="TLA+ model of the worker pool (semaphore, unbuffered rendezvous channel, closer goroutine) checked by TLC for every interleaving and failure subset (Outcome, NoEarlyReturn, Terminates); the real BundleRemote/BundleLocal driven through every completion order x failure subset for small n (gated HTTP handlers / FIFOs) and judged by TLC",
    base=dict(quick=[dict(module="ImgBundle", cfg="ImgBundle_quick.cfg")], thorough=[dict(module="ImgBundle", cfg="ImgBundle_quick.cfg"), dict(module="ImgBundle", cfg="ImgBundle_thorough.cfg")]),
    rule="every completion order x every failing subset of n unique remote images for n <= 3 (quick) / n <= 4 (thorough), the same for local files behind FIFOs for n <= 2 / 3, plus seeded random orders for 5-24 images "
         "(more than the 16 worker slots); SVG layouts rotate over plain, duplicate references, hrefs that are prefixes of each other, HTML-escaped hrefs, mixed local/remote/data hrefs, one content under two hrefs. Non-trivial: n >= 2.",
    exhaustive=dict(quick=True, thorough=True),
    assumptions=["completion order is imposed by releasing the fetches one by one with 1.5 ms gaps; the rendezvous order normally follows it",
                 "the bundler's 5-minute context and HTTP retry/size limits are outside the model",
                 "bytes outside the <image href=\"...\"> tokens are compared segment by segment with the input"],
    text="TLC shows the outcome is a function of the failing set only, over all interleavings; the real bundler is run for all orders x failure subsets within the bound and each outcome is compared by TLC with that function.",
    note="Trusted: TLC, Json module, the harness HTTP server/FIFO gating and the occurrence-by-occurrence output comparison.")


# ---------------------------------------------------------------------------------- ir (C09, C10, C11)
def corrupt_ir(lines, pid):
    for e in lines:
        if e.get("ev") != "decl" or e.get("err") == 1:
            continue
        o = e["obs"]
        if pid == "C09" and len(o["objs"]) >= 2:
            o["objs"][0], o["objs"][1] = o["objs"][1], o["objs"][0]
            return "first two objects swapped in an observed graph"
        if pid == "C10" and o["objs"]:
            o["objs"][0]["shape"] = "hexagon"
            return "shape of an observed object changed"
        if pid == "C11" and len(o["edges"]) >= 1:
            o["edges"][-1]["idx"] += 1
            return "index of an observed connection incremented"
    return None


_SPECS = _os.path.join(_os.path.dirname(_os.path.dirname(_os.path.abspath(__file__))), "specs")
FAMILIES["ir"] = dict(vdrive="ir", trace_module="TraceD2IR", trace_cfg="TraceD2IR.cfg", corrupt=corrupt_ir, engine="TraceD2IR",
                      args={"alphabet": _os.path.join(_SPECS, "ir_alphabet.json")}, chunk=6000, heap="4g",
                      cex_input=lambda acts: {"prog": acts})
_ir_base = dict(
    quick=[dict(module="D2IR", cfg="D2IR_quick.cfg"),
           dict(module="D2IR", cfg="D2IR_stable.cfg", note="the code's numbering after the fix (one past the highest index in use) satisfies IndexedRefHitsOne"),
           dict(module="D2IR", cfg="D2IR_count.cfg", expect="violation", note="pre-fix rule 'index of a new connection = number of survivors' must break IndexedRefHitsOne; the counter-example is replayed into the real compiler"),
           dict(module="D2IR", cfg="D2IR_labelcode.cfg", expect="violation", note="code rule 'label field beats primary value' must break LastWriterWins (KF-C10-1)")],
    thorough=[dict(module="D2IR", cfg="D2IR_thorough.cfg", timeout=1800),
              dict(module="D2IR", cfg="D2IR_stable.cfg"),
              dict(module="D2IR", cfg="D2IR_count.cfg", expect="violation"),
              dict(module="D2IR", cfg="D2IR_labelcode.cfg", expect="violation")])
_ir_rule = ("programs over the 38-declaration alphabet specs/ir_alphabet.json (objects at depth 1-2 in three casings, labels, shapes, two style attributes, attribute null, object null, "
            "connections in 4 arrow forms incl. self and nested endpoints, indexed connection updates and deletions): every program of length <= 2 (quick) / <= 3 (thorough) and "
            "2500 / 30000 seeded programs of length up to 7 / 10 biased to connections or nulls, declarations rendered flat or as nested maps; every line prefix is compiled. Non-trivial: ")
_ir_assume = ["the alphabet fixes the fragment; names are opaque to TLC, case folding is the alphabet's table",
              "DEVIATION-1..3 of D2IR.tla: where the property text is silent the model follows the code (containers created by null on a missing key; in-source index numbering after a deletion - both numberings accepted)",
              "object IDs are parsed back with the real d2parser.ParseKey before comparison"]
for _pid, _nt, _txt in [("C09", "length >= 2", "TreeWF/EndpointsWF hold on every reachable model state; object and connection lists of every compiled prefix equal the model's (membership, order of first appearance, parent links, first spelling)."),
                        ("C10", "length >= 3 or contains a null", "LastWriterWins/FreshAfterNull hold as action properties of the model; labels, shapes and style attributes of every compiled prefix equal the model's last-writer state."),
                        ("C11", "contains an indexed connection update or deletion", "IndexedRefHitsOne/IndexedNullRemovesOne/DistinctIDs hold on the model under the property's numbering; on the real compiler indexes must be consecutive per bundle in list order, an indexed update may change at most one connection, a missing index must be an error.")]:
    PROPS[_pid] = dict(
        family="ir", level="model_checking", design_ref="4.4", base=_ir_base,
        technique="TLA+ reference interpreter of the D2 core fragment as a state machine (one Declare per source declaration) model-checked by TLC over all programs within the bound; every line prefix of every program compiled by the real d2compiler and compared by TLC with the model state, aspect by aspect",
        rule=_ir_rule + _nt + ".", exhaustive=dict(quick=True, thorough=True), assumptions=_ir_assume, text=_txt,
        note="Trusted: TLC, Json module, the projection in harness/internal/proj (uses the real ParseKey), the renderer of declarations to D2 text in harness/cmd/vdrive/ir.go.")
# C10 is also decided on the class alphabet: class values are defaults under an object's own values
PROPS["C10"]["also"] = ["irclass", "irnest"]
PROPS["C11"]["also"] = ["irnest"]
for _pid in ("C10", "C11"):
    PROPS[_pid]["rule"] += (" Also over the 32-declaration alphabet specs/ir_alphabet_nested.json: connections between objects below a common container, declared, referred to by index and set to null with the container "
                            "spelled in different letter cases on the two sides, parallel and reversed connections, connections leaving the container, nulls of the container and of an end.")
# C09's tree and endpoint conditions are also evaluated on every board compiled from the full-language generators
PROPS["C09"]["also"] = ["pipe_wf"]
PROPS["C09"]["rule"] += (" The tree and endpoint conditions are also evaluated by TLC (stage wf of TracePipeline) on every board compiled from the full-language generators: modes text, text2, text3, layout and soup, "
                         "5 x 1200 programs (quick: 5 x 300), read from the graph's own structures (object list, parent pointers, child lists and child maps, connection ends), not from the projection.")
PROPS["C10"]["rule"] += (" The same is done over the 30-declaration alphabet specs/ir_alphabet_class.json: objects with own shapes and style values, attribute and object null, 7 class definitions (two classes, one spelled in another letter case, "
                         "definitions before and after their uses, a redefinition), 8 class assignments (single, lists in both orders, an unknown class, on a nested object) and the removal of the class.")
PROPS["C10"]["assumptions"] = _ir_assume + ["classes (DEVIATION-4 of D2IR.tla, following the code where the property text is silent): a class value is a default under the object's own value wherever either is written; the last class assignment replaces earlier ones; "
                                             "in a class list the later class wins; a class label counts as a label field; class names fold case; an unknown class is ignored"]


# ---------------------------------------------------------------------------------- irglob (C12)
def corrupt_irglob(lines, pid):
    for e in lines:
        if e.get("ev") == "decl" and e.get("err") == 0 and "*" in e.get("text", "") and e["obs"]["objs"]:
            o = e["obs"]["objs"][0]
            o["shape"] = "square" if o["shape"] != "square" else "oval"
            return "shape of an observed object changed after a glob declaration"
    return None


def corrupt_ir_edge(lines, pid):
    for e in lines:
        if e.get("ev") == "decl" and e.get("err") == 0 and e["obs"]["edges"]:
            ed = e["obs"]["edges"][-1]
            ed["label"] = "tampered"
            return "label of an observed connection changed after a glob declaration"
    return None


_CLASS_RENAMES = {"ir_alphabet.json": "ir_alphabet_class.json"}
FAMILIES["irclass"] = dict(vdrive="ir", trace_module="TraceD2IR", trace_cfg="TraceD2IR.cfg", corrupt=corrupt_ir, engine="TraceD2IR",
                           args={"alphabet": _os.path.join(_SPECS, "ir_alphabet_class.json")}, chunk=6000, heap="4g", renames=_CLASS_RENAMES)
FAMILIES["irnest"] = dict(vdrive="ir", trace_module="TraceD2IR", trace_cfg="TraceD2IR.cfg", corrupt=corrupt_ir, engine="TraceD2IR",
                          args={"alphabet": _os.path.join(_SPECS, "ir_alphabet_nested.json")}, chunk=6000, heap="4g", renames={"ir_alphabet.json": "ir_alphabet_nested.json"})
_GLOB_RENAMES = {"ir_alphabet.json": "ir_alphabet_glob.json"}
FAMILIES["irglob"] = dict(vdrive="ir", trace_module="TraceD2IR", trace_cfg="TraceD2IR_glob.cfg", corrupt=corrupt_irglob, engine="TraceD2IR",
                          args={"alphabet": _os.path.join(_SPECS, "ir_alphabet_glob.json")}, chunk=6000, heap="4g", renames=_GLOB_RENAMES)
_EDGE_RENAMES = {"ir_alphabet.json": "ir_alphabet_edgeglob.json"}
FAMILIES["iredge"] = dict(vdrive="ir", trace_module="TraceD2IR", trace_cfg="TraceD2IR_glob.cfg", corrupt=corrupt_ir_edge, engine="TraceD2IR",
                          args={"alphabet": _os.path.join(_SPECS, "ir_alphabet_edgeglob.json")}, chunk=6000, heap="4g", renames=_EDGE_RENAMES)
PROPS["C12"] = dict(
    family="irglob", level="model_checking", design_ref="4.4",
    technique="globs as standing rules in the TLA+ reference interpreter D2IR (applied to existing targets at the declaration, to later targets at their creation, before the creating declaration's own value), model-checked by TLC (GlobNow, GlobLater); every compiled program prefix compared by TLC with the model",
    base=dict(quick=[dict(module="D2IR", cfg="D2IR_glob.cfg", renames=_GLOB_RENAMES), dict(module="D2IR", cfg="D2IR_edgeglob.cfg", renames=_EDGE_RENAMES)],
              thorough=[dict(module="D2IR", cfg="D2IR_glob_thorough.cfg", renames=_GLOB_RENAMES, timeout=1800), dict(module="D2IR", cfg="D2IR_edgeglob_thorough.cfg", renames=_EDGE_RENAMES, timeout=1800)]),
    also=["iredge"],
    rule="programs over the 28-declaration alphabet specs/ir_alphabet_glob.json: objects at depth 1-3 (one mixed-case), explicit shapes/strokes/labels, object nulls, connections, and 13 glob rules "
         "(* and ** at the root, scoped a.* and a.**, b.*, prefix patterns a* and A*, suffix patterns *2, *B and *C with upper-case literals, infix a*2) setting shape, label, stroke, opacity; every program of length <= 2 / <= 3 plus 2500 / 30000 seeded programs of length up to 7 / 10. "
         "Non-trivial: contains a glob and at least one more declaration. Also over the 23-declaration alphabet specs/ir_alphabet_edgeglob.json: top-level objects (one nested, one in another letter case), explicit connections with and without labels, "
         "the creation rules * -> * and * -- *: und, seven attribute rules on connections ((* -> *)[*], (a -> *)[*], (* -> b)[*], (a -> b)[*], (A -> *)[*], (* -- *)[*] setting stroke, opacity, label) and indexed references to explicit and glob-made connections.",
    exhaustive=dict(quick=True, thorough=True),
    assumptions=["globs with scalar bodies only; glob filters, triple globs across boards/imports, globs written inside a nested map and connection globs below the top level or with a literal end in a creation rule are not in these alphabets",
                 "connection globs: the connections one creation rule makes have no mandated order among themselves (they first appear at the same source line); compared as a set once such a rule stands; a glob declaration is not repeated verbatim within a program (KF-C12-1's subject)",
                 "pattern matching on names is the alphabet's match table (TLC cannot compute on characters); the real matcher decides which names each pattern selects in the code"] + _ir_assume,
    text="GlobNow/GlobLater hold as action properties over every program within the bound; the real compiler's object attributes after every prefix must equal the model's, which applies each rule to existing and later-created targets in source order.",
    note="Trusted: TLC, Json module, the projection and renderer in the harness, the alphabet's pattern-match table.")


# ---------------------------------------------------------------------------------- pipe (C03 C04 C07 C08 C17-C21 C26)
def corrupt_pipe(lines, pid):
    for e in lines:
        ev = e.get("ev")
        if pid == "C03" and ev == "fmt" and e.get("parseOK") == 1:
            e["idempotent"] = 0
            return "idempotent flag of a formatted program cleared"
        if pid == "C04" and ev == "fmt" and e.get("compiles") == 1:
            e["sameMeaning"] = 0
            return "same-meaning flag of a formatted program cleared"
        if pid == "C07" and ev == "compile":
            e["ok"], e["errPositioned"] = 0, 0
            return "a compile result turned into an unpositioned error"
        if pid == "C09" and ev == "wf":
            for b in e["boards"]:
                if b["rootKids"]:
                    b["rootKids"].append(b["rootKids"][0])
                    b["rootMapKids"] += 1
                    return "the root of a board made to list its first child twice"
        if pid == "C08" and ev == "recompile":
            e["digests"][0] = "tampered"
            return "one recompilation digest replaced"
        if ev == "layout" and e.get("ok") == 1:
            g = e["geom"]
            if pid == "C17" and g["objs"]:
                g["objs"][0]["finite"] = 0
                return "an object position marked non-finite"
            if pid == "C18" and e["struct"]["boards"] and e["struct"]["boards"][0]["objs"]:
                e["struct"]["boards"][0]["objs"].pop()
                return "an object dropped from the structure after layout"
            if pid == "C19":
                for o in g["objs"]:
                    if o["parent"] and not o["inSeq"] and not g["objs"][o["parent"] - 1]["isSeq"]:
                        o["x"] -= 500
                        return "a child moved 500 px left of its container"
            if pid == "C20":
                for ed in g["edges"]:
                    if not ed["inSeq"] and len(ed["route"]) >= 2 and ed["src"] != ed["dst"]:
                        ed["route"][0][0] += 700
                        return "the first route point of a connection moved 700 px away"
            if pid == "C21":
                for o in g["objs"]:
                    if o["ew"] and o["eh"] and o["kids"] == 0 and not o["inSeq"] and o["shape"] not in ("square", "circle") and not (o["parent"] and g["objs"][o["parent"] - 1]["grid"]):
                        o["w"] += 9
                        return "width of an explicitly sized leaf increased by 9"
        if pid == "C26" and ev == "serde":
            e["sameResult"] = 0
            return "wire-format result flagged as different"
    return None


def _pipe_family(name, modes, stages, n, space, engines="dagre"):
    FAMILIES[name] = dict(vdrive="pipe", trace_module="TracePipeline", trace_cfg="TracePipeline.cfg", corrupt=corrupt_pipe, engine="TracePipeline", crash_props=["C07"],
                          args={"modes": modes, "stages": stages, "n": str(n), "space": str(space), "engines": engines}, chunk=1500, heap="4g")


_pipe_family("pipe_fmt", "text,text2,text3,soup", "fmt", 300, 1200)
_pipe_family("pipe_compile", "text,text-mut,text2,text2-mut,text3,text3-mut,soup", "compile", 800, 4000)
_pipe_family("pipe_det", "text,text2,text3,text2-mut,text3-mut,soup", "determinism", 150, 1200)
_pipe_family("pipe_wf", "text,text2,text3,layout,soup", "wf", 300, 1200)
_pipe_family("pipe_layout", "layout,layout-tricky", "layout", 100, 1200, "dagre,elk")
_pipe_family("pipe_serde", "layout,layout-tricky", "layout,serde", 60, 1200, "dagre,elk")

_pipe_note = "Trusted: TLC, Json module, the generator harness/internal/gen, the projection (real ParseKey) and the geometry extraction in harness/cmd/vdrive/pipe.go."
_pipe_space = ("the input space is FIXED: diagram #i of a mode is generated from seed i by harness/internal/gen whatever VERIF_SEED is; the thorough tier takes all of it, the quick tier the slice VERIF_SEED selects, "
               "so the unchanged tree's behaviour on every input is known in advance. ")
def _pp(pid, fam, design, technique, rule, text, assumptions, exhaustive=True):
    PROPS[pid] = dict(family=fam, level="exploration", design_ref=design, technique=technique, rule=_pipe_space + rule, exhaustive=dict(quick=False, thorough=exhaustive),
                      assumptions=assumptions, text=text, note=_pipe_note)

_gen_text2 = ("mode text2: mode text plus line comments of every form (empty, blank, tab, trailing blanks, indented, inside maps, before connections), block comments, labels spelled like numbers (007, +5, 0x1F, 1_000, 1e3, .5), "
              "explicit boundary values of style keywords on shapes and connections, links and tooltips on labelled connections; ")
_gen_text3 = ("mode text3: mode text2 plus sql_table and class shapes whose columns, fields and methods are named like other objects and are ends of connections, connection references in every form "
              "((a -> b).k, (a -> b)[i].k, (a -> b)[*].k, (a -> *)[*].k, c.(x -> y)[i].k, with maps and flat keys), block strings (markdown, code, other tags, `|`` and || delimiters) with whitespace-only lines, "
              "and boards declared with an empty map, a label and an empty map, or no map; mode soup (harness/internal/gen/soup.go): 2-14 statements drawn independently from the whole surface syntax - globs of all three depths "
              "with filters, substitutions and spreads, imports, underscores, connection chains, arrays, block strings, board keywords as keys and values, keywords in odd letter case, comments, missing final newline; ")
_gen_text = "mode text: object trees of 1-6 objects with plain and tricky names/labels (quotes, dots, unicode, XML metacharacters, keywords), containers, styles, classes, markdown, grids, sequence diagrams, near constants, and layers/scenarios/steps blocks placed before, between or after the other declarations; "
_pp("C03", "pipe_fmt", "4.11", "stage guard on Format: TLC evaluates parse(fmt(x)) ok and fmt(fmt(x)) = fmt(x) on the real formatter's output for every generated program",
    _gen_text + _gen_text2 + _gen_text3 + "4 x 1200 programs (quick: 4 x 300). Non-trivial: the program parses.", "Format is a stage transition of TracePipeline; its guard is the property.",
    ["byte equality of the two formatter outputs is computed in Go and judged by TLC as a flag"])
_pp("C04", "pipe_fmt", "4.11", "stage guard on Format: the projection (all boards: objects, labels, shapes, attributes, connections with index) of compile(x) must equal that of compile(fmt(x)), judged by TLC",
    _gen_text + _gen_text2 + _gen_text3 + "4 x 1200 programs (quick: 4 x 300). Non-trivial: the program compiles.", "Same stage as C03 with the meaning-preservation guard.",
    ["meaning = harness/internal/proj digest of every board (IDs, parents, labels, shapes, every attribute, connections with endpoints/arrows/index/labels)"])
_pp("C07", "pipe_compile", "4.11", "totality monitor on Compile: every call returns a graph or positioned errors, never panics or hangs, within a time bound linear in the input; inputs incl. 1-3 random damages and reserved keywords/config keys with every value shape",
    _gen_text + "plus mode text-mut: the same programs damaged in 1-3 places (byte deletion/insertion of structural tokens, truncation, duplication, line swaps) or prefixed with reserved/config keywords given scalar, map, array, null, import and substitution values; mode text2 (see C03) and mode text2-mut: program #i holds exactly one declaration of a reserved keyword or configuration key (29 keywords x 31 values incl. board keywords and board paths x 4 places - dotted key, map, connection, inside a layer - plus 13 configuration keys x 31 values, spread over the seeds by a multiplicative permutation) followed by a fixed valid tail with boards, because any error ends compilation before the later passes; " + _gen_text3 + "mode text3-mut: even seeds hold one declaration of one of 28 further keywords (every style keyword, gaps, arrowhead fields, label.near ...) with one of the 31 values in one of the 4 places, odd seeds a damaged text3 program; 4000 x 7 inputs (quick: 800 x 7). An input that kills the driver process (stack overflow) or hangs it is isolated by the crash journal and reported under this property. Non-trivial: more than 20 bytes.",
    "Compile is a stage transition whose guard is the totality contract.", ["time bound 3000 ms + 1 ms per input byte", "import sets are not generated here (no importable files)"])
_pp("C08", "pipe_det", "4.11", "Compile stage run 1 + 6 concurrent + 2 sequential times per program; TLC checks that the relation input -> (projection digest | text of the errors) is functional",
    _gen_text + _gen_text2 + _gen_text3 + "and the -mut modes of C07 (so that erroneous programs are compared too); 6 x 1200 programs (quick: 6 x 150), each compiled 9 times (6 from concurrent goroutines). Non-trivial: every program.", "Determinism guard of the Compile stage.",
    ["GOMAXPROCS is the machine default; the race detector is not used in this check"])
_gen_layout = ("mode layout: 1-7 objects, all 17 shapes, containers to depth 3, explicit sizes, styles (3d, multiple, shadow, fonts), icons, root direction, up to 5 connections (incl. self loops and containers), "
               "grids, sequence diagrams, constant nears; mode layout-tricky: names/labels with special characters, markdown; every 4th diagram laid out with ELK, the others with dagre; 2 x 1200 diagrams. ")
_lay_assume = ["coordinates are rounded to whole pixels; tolerances: containment/overlap 1 px, connection ends 2 px",
               "visual extent of a shape = box + outside label (label size + 5 px padding) + outside icon (64 + 5 px) + 3D (15 px) / multiple (10 px) offsets, as C20 defines it",
               "connection ends on non-rectangular shapes are only required to lie within the extent (their outline is C27's subject)"]
_pp("C17", "pipe_layout", "4.11", "totality monitor on Layout(dagre|elk) + Render: no error, no panic, no hang; TLC checks finiteness, non-negative sizes and routes of >= 2 points on the logged geometry",
    _gen_layout + "Non-trivial: every diagram.", "Layout/Render are stage transitions; the guard is the contract of C17.", _lay_assume)
_pp("C18", "pipe_layout", "4.10", "TLC compares the structure lists (objects with parents, connections with endpoints/arrows/index, in order, per board) logged after compile and after layout",
    _gen_layout + "Non-trivial: every diagram.", "Frame condition of the Layout stage.", ["lifeline pseudo-edges appended by the sequence layout (an endpoint that is not an object of the board) are excluded"] + _lay_assume)
_pp("C19", "pipe_layout", "4.11", "Layout stage guard evaluated by TLC on logged boxes: child inside parent (1 px), siblings disjoint (1 px), shapes inside sequence diagrams excluded",
    _gen_layout + "Non-trivial: at least two objects.", "Geometric guard of the Layout stage on a fixed input space; the unchanged tree's violations on that space are all listed as known findings.", _lay_assume)
_pp("C20", "pipe_layout", "4.11", "Layout stage guard evaluated by TLC: first/last route point within the source's/destination's visual extent (2 px) and, for box-shaped shapes, not in the interior of the box",
    _gen_layout + "Non-trivial: at least one connection.", "Geometric guard of the Layout stage on a fixed input space.", _lay_assume)
_pp("C21", "pipe_layout", "4.11", "Layout stage guard evaluated by TLC: explicit width/height of leaves honoured exactly (square/circle: the larger), label box within the shape's inner box for auto-sized shapes with an inside label",
    _gen_layout + "Non-trivial: every diagram.", "Size guard of the Layout stage.", _lay_assume + ["the inner text box is the shape library's own GetInnerBox (trusted)", "tables, classes, code and text shapes are not generated"])
_pp("C26", "pipe_serde", "4.11", "the whole pipeline run a second time with every core-layout call going through SerializeGraph -> DeserializeGraph -> layout -> SerializeGraph -> DeserializeGraph (what d2plugin exec/serve do); TLC checks each round trip and the final geometry/structure against the in-process run",
    _gen_layout + "Non-trivial: every diagram.", "Serialize;Deserialize stage guards.", ["an external plugin process is not spawned; the wire functions are the ones exec.go/serve.go call"] + _lay_assume)


# ---------------------------------------------------------------------------------- special layouts (C22 C23 C24)
def corrupt_special(lines, pid):
    for e in lines:
        if e.get("ev") != "layout" or e.get("ok") != 1:
            continue
        objs = e["geom"]["objs"]
        if pid == "C22":
            for i, o in enumerate(objs):
                if o["grid"] == 1:
                    cells = [c for c in objs if c["parent"] == i + 1]
                    if len(cells) >= 2:
                        cells[1]["x"] += 17
                        cells[1]["x2"] += 17
                        return "second cell of a grid shifted 17 px"
        if pid == "C23":
            actors = [o for o in objs if o["isActor"] == 1]
            if len(actors) >= 2:
                actors[0]["x"], actors[1]["x"] = actors[1]["x"], actors[0]["x"]
                actors[0]["x2"], actors[1]["x2"] = actors[1]["x2"], actors[0]["x2"]
                return "first two actors swapped horizontally"
        if pid == "C24":
            for o in objs:
                if o["near"].startswith("top") and o["parent"] == 0:
                    o["y"] += 1000
                    o["y2"] += 1000
                    return "a near: top-* shape moved 1000 px down"
    return None


for _nm, _mode in [("pipe_grid", "grid"), ("pipe_seq", "sequence"), ("pipe_near", "near")]:
    _pipe_family(_nm, _mode, "layout", 120, 1200, "dagre,elk")
    FAMILIES[_nm]["corrupt"] = corrupt_special
_pp("C22", "pipe_grid", "4.10", "Layout stage guard evaluated by TLC on the logged cell boxes: consecutive cells continue the row (column) one gap further or start the next one a gap below (right of) the previous, extent to extent; cells inside the container, disjoint, equal heights per row / widths per column when both counts are given",
    "mode grid: one grid container with 0-30 cells (explicit sizes, labels, nested containers as cells), grid-rows and/or grid-columns in either order, grid-gap / vertical-gap / horizontal-gap in any combination, plus up to 2 ordinary objects; every 4th diagram with ELK; 1200 diagrams. Non-trivial: the diagram contains a grid.",
    "Placement guard of the grid layout: the row/column split that layoutDynamic chose is not predicted but inferred from the logged boxes.", _lay_assume + ["fill direction: rows keyword first, or only grid-rows given, means row-directed (d2grid's documented rule)", "default gap 40"])
_pp("C23", "pipe_seq", "4.10", "Layout stage guard evaluated by TLC on logged actor boxes and message routes: actors strictly left to right on one baseline in declaration order, messages top to bottom in declaration order, messages between different actors horizontal, message ends within their actor's horizontal extent",
    "mode sequence: one sequence diagram with 1-8 actors, 0-30 messages incl. self messages, spans, notes and groups, plus up to 2 ordinary objects; 1200 diagrams. Non-trivial: the diagram contains a sequence diagram.",
    "Order guard of the sequence layout.", _lay_assume + ["actors are recognised by the generator's naming convention (pN directly inside the sequence diagram)", "a message end is required to lie within its actor's box horizontally (lifeline or span), not at an exact x"])
_pp("C24", "pipe_near", "4.10", "Layout stage guard evaluated by TLC: every top-level constant-near shape lies outside the main diagram's bounding box (shapes with outside labels/icons and connection routes) on the named side(s); centred (within the label padding, 6 px) when it is the only shape of its phase",
    "mode near: 1-4 ordinary objects with containers and connections plus 1-8 shapes with constant near positions (containers, labelled shapes, all 8 constants, repeats); 1200 diagrams. Non-trivial: the diagram has a constant-near shape.",
    "Placement guard of the near layout.", _lay_assume + ["main diagram = objects whose top-level ancestor has no constant near, with their outside labels/icons, and the routes among them", "with several near shapes of one phase the later ones are centred on a box the earlier ones extended: centring is only checked for a single shape per phase"])


# ---------------------------------------------------------------------------------- render (C25 C28 C29 C30 C31)
def corrupt_render(lines, pid):
    for e in lines:
        ev = e.get("ev")
        if pid == "C28" and ev == "export" and e.get("ok") == 1 and e["shapeIDs"]:
            e["shapeIDs"].pop()
            return "one exported shape dropped"
        if ev == "render" and e.get("ok") == 1:
            if pid == "C25" and e["again"]:
                e["again"][0] = "0000000000000000"
                return "digest of a repeated render replaced"
            if pid == "C29" and e["extents"]:
                e["extents"][0][3] += 5000
                return "a drawn extent stretched 5000 px to the right"
            if pid == "C30":
                e["elems"].append("script")
                return "a script element added to the element set"
            if pid == "C31" and e["css"]:
                k = sorted(e["css"])[0]
                e["css"][k] = "#010203"
                return "stylesheet colour of %s replaced" % k
    return None


_pipe_family("pipe_render", "render,render2,render3", "layout,render", 100, 600, "dagre")
FAMILIES["pipe_render"]["corrupt"] = corrupt_render
_gen_render = ("mode render: 1-5 objects, all shapes, containers, styles, explicit sizes, icons, markdown, near constants, classes, tooltips and links; names, labels, tooltips and links carry XML metacharacters, quotes, "
               "control characters and the marker ZQXJ inside attribute-breaking and element-injecting payloads; dagre; per diagram 2 exports (a random catalog theme and one of the special-rule themes 300/301/303) and 3 renders "
               "(pad 100 / random pad + sketch + random theme / centre + scale + dark theme 200|201 + 1-4 random colour overrides); 600 diagrams. "
               "mode render2: boundary style values on shapes and connections, links on connections, 3d/multiple shapes with every outside label position, all special-rule themes, overrides for one colour scheme only; "
               "mode render3: render2 plus connections with a border radius and labels with special characters on both arrowheads, sql_table and class shapes (columns and fields named like other objects, constraints that carry markup), exported under themes 300-303; 600 diagrams each. ")
_rn_assume = ["SVG tokenised with Go's strict encoding/xml (HTML entities allowed)", "element/attribute vocabulary = specs/svg_vocab.json, learnt by tools/learn_vocab.sh from the marker-free twin diagrams (modes render-plain, render2-plain, render3-plain) on the unchanged tree"]
_pp("C25", "pipe_render", "4.11", "Render stage determinism guard: the same input and options compiled, laid out and rendered again from 2 concurrent goroutines (while other diagrams are processed in up to 12 goroutines); TLC checks all SVG digests equal",
    _gen_render + "Non-trivial: every diagram.", "Determinism guard of the whole pipeline in one process.", ["separate processes and the race detector are not part of this check", "each run uses its own text ruler (textmeasure.Ruler is documented as not goroutine-safe)"])
_pp("C28", "pipe_render", "4.11", "Export stage guard: TLC checks shapes <-> objects and connections <-> connections (with source and destination IDs) are bijections, and every style value the user set equals the exported one, under several themes incl. the special-rule themes",
    _gen_render + "Non-trivial: every diagram.", "One-to-one and user-wins guards of the Export stage.", ["style keys compared: opacity, stroke, fill, stroke-width, stroke-dash, border-radius, shadow, 3d, multiple, font-size, font-color, bold, italic, double-border, animated; numbers compared numerically", "sequence-diagram lifeline pseudo-connections are excluded"])
_pp("C29", "pipe_render", "4.11", "Render stage guard: every drawn extent (shape box with half stroke, shadow, 3D/multiple offsets, outside label box, route points with half stroke, connection label box) inside the reported bounding box (1 px), inner SVG viewBox contains the box plus padding",
    _gen_render + "Non-trivial: every diagram.", "Enclosure guard of the Render stage.", ["outside label and connection label positions come from the public helpers label.Position.GetPointOnBox and Connection.GetLabelTopLeft (trusted)", "icons and arrowhead labels are not measured"])
_pp("C30", "pipe_render", "4.11", "Render stage guard: strict XML tokenisation succeeds, no user marker inside element/attribute names, no duplicate attributes, element and attribute names within the renderer's vocabulary learnt from marker-free twins",
    _gen_render + "Non-trivial: every diagram.", "Well-formedness and non-injection guard of the Render stage.", _rn_assume)
_pp("C31", "pipe_render", "4.11", "Render stage guard: for each of the 18 theme colour codes the .fill-XX rule of the light block (and of the dark media block) equals the override when given, else the catalog colour of the requested theme; unknown theme IDs must be rejected",
    _gen_render + "Non-trivial: every diagram.", "Theme table guard: observed[code] = IF code in overrides THEN override ELSE catalog[theme][code].", ["colours are read from the .fill-XX rules of the embedded stylesheet; inline colours are not inspected", "catalog colours are read from d2themescatalog (the table being checked against is the code's own catalog)"])


# ---------------------------------------------------------------------------------- oracle (C36 - C41)
def corrupt_oracle(lines, pid):
    for e in lines:
        if e.get("ev") != "edit" or e.get("ok") != 1:
            continue
        op = e["op"]
        if pid == "C36":
            e["fmtFixed"] = 0
            return "formatter-fixed-point flag cleared"
        if pid == "C37" and op in ("set-label", "set-shape", "set-style", "set-attr") and e["after"]["objs"]:
            for o in e["after"]["objs"]:
                if o["lab"] != e["target"]:
                    o["shape"] = "hexagon" if o["shape"] != "hexagon" else "oval"
                    return "shape of an untouched object changed after a Set"
        if pid == "C38" and op == "delete" and e["after"]["objs"]:
            e["after"]["objs"].pop()
            return "one more object removed by a Delete"
        if pid == "C39" and op in ("rename", "move") and e["after"]["edges"]:
            e["after"]["edges"][0]["src"] = "T999"
            return "a connection re-attached by a Rename/Move"
        if pid == "C40" and e.get("hasDeltas") == 1 and e["after"]["objs"]:
            after = {o["lab"] for o in e["after"]["objs"]}
            for o in e["before"]["objs"]:
                if o["lab"] in after:
                    e["deltas"] = [d for d in e["deltas"] if d[0] != o["id"]] + [[o["id"], "zzz"]]
                    return "the predicted ID of a surviving object replaced by a bogus one"
        if pid == "C41" and e.get("boardsBefore"):
            for bb in e["boardsBefore"]:
                if bb[2] == "other":
                    bb[1] += "#"
                    return "digest of an unrelated board changed"
    return None


FAMILIES["oracle"] = dict(vdrive="oracle", trace_module="TraceD2Oracle", trace_cfg="TraceD2Oracle.cfg", corrupt=corrupt_oracle, engine="TraceD2Oracle", args={"n": "1000"}, chunk=1500, heap="4g")
FAMILIES["oracle_boards"] = dict(vdrive="oracle", trace_module="TraceD2Oracle", trace_cfg="TraceD2Oracle.cfg", corrupt=corrupt_oracle, engine="TraceD2Oracle", args={"n": "1000", "boards": "1"}, chunk=1500, heap="4g")
_or_rule = ("the history space is FIXED and has three parts. (1) generator 1, history #i: the program generated from seed i (2-7 objects to depth 3, one block per object, each with a unique tooltip as identity, labels, shapes, "
            "opacity/stroke/width/link, up to 4 labelled connections incl. self loops) and 1 + i mod 8 edits drawn from create object / create connection / set label (60 tricky values: keywords and booleans in any case, strings "
            "needing quotes, numbers, escapes, empty, unicode) / set style / set shape / set connection style / delete object / delete connection / delete attribute / rename (fresh, colliding, tricky names) / move (into, out of, "
            "to a fresh container; with and without descendants) / reconnect. (2) generator 2, history #i: programs written the way people write them - names from a pool of four so that the same name occurs at several levels, "
            "objects declared as blocks, as flat dotted keys or with nested style maps, 25 attribute kinds, connections declared inside containers with relative names and at the root with dotted paths, ends that are declared "
            "nowhere else (implicit objects, identified by the connection they end; implicit containers, identified by their ID), scenarios that refer to base objects - and 1 + i mod 6 edits that additionally set and delete any "
            "of 25 object and 15 connection attributes; the first edit of 4 histories in 6 is aimed (delete a container, move an untagged end, move a container, move a deeply nested object). (3) 19 written histories "
            "(harness/cmd/vdrive/oraclescripts.go): the reproducers of every defect this family found, Create with keys that are taken on the addressed (nested or root) board, and the deletion of an attribute a descendant also sets through a flat key. (4) 120 (thorough: 1200) import updates (oracleimports.go): a program importing 2-5 of 9 files from directories whose names are prefixes of one another (lib/, lib2/, libs/, foo, foobar, foo/bar) in every import form; a file is renamed, a directory (trailing slash) is renamed, an import is removed, or a path that only shares a prefix is renamed; the result must rewrite exactly the imports TLC computes on token lists, compile against the renamed file system and be formatter-stable. Every object or connection an edit creates is tagged before the next edit; an edit that is meant to change the ID of an "
            "ID-identified object, or to remove the connection an object is identified by, is not applied. 3000 + 3000 generated histories + 19 written ones + the import updates; quick takes the 1000 + 1000 that VERIF_SEED selects, the written ones and 120 import updates. Non-trivial: ")
_or_assume = ["identity of an object = its tooltip, of a connection = its label; IDs are derived data", "a refused edit may leave the graph it was given modified; the harness continues from a fresh compile of the last good text",
              "Delete of an attribute is exercised for the attributes d2oracle.Delete handles by design (style keywords, near, icon, width, height, top, left, link; any attribute of a connection); other reserved keys (shape, label, direction, grid-*) are ignored by Delete and are not exercised",
              "a crash of an edit is reported under C36"]
for _pid, _nt, _txt, _tech in [
    ("C36", "at least one successful edit", "Post-condition of every successful edit.", "every successful edit's text is re-compiled and re-formatted; TLC checks compiles / equals the returned graph / formatter fixed point"),
    ("C37", "a successful create or set", "Effect and frame condition of Create and Set on the identity-keyed graph.", "TLC evaluates effect + frame condition of Create/Set on the identity-keyed before/after snapshots of the real call"),
    ("C38", "a successful delete", "Effect and frame condition of Delete.", "TLC evaluates effect (target and attached connections gone, children hoisted, later parallel connections renumbered, attribute reset) + frame condition of Delete on the snapshots"),
    ("C39", "a successful rename or move", "Effect and frame condition of Rename, Move and ReconnectEdge.", "TLC evaluates that all identities survive with their content, only the moved object (and descendants when requested) change ID, connections keep their end identities"),
    ("C40", "a successful edit whose ID deltas were queried beforehand", "Agreement of the *IDDeltas predictions with the edit.", "the delta map is queried before the edit; TLC checks id_after = delta(id_before) for every surviving identity and no delta for a removed one")]:
    PROPS[_pid] = dict(family="oracle", level="exploration", design_ref="4.5", technique=_tech, rule=_or_rule + _nt + ".", exhaustive=dict(quick=False, thorough=True),
                       assumptions=_or_assume, text=_txt + " One action per public API call in TraceD2Oracle.tla; the state space explored is the set of recorded histories (no separate base model).",
                       note="Trusted: TLC, Json module, the snapshot code in harness/cmd/vdrive/oracle.go.")
PROPS["C41"] = dict(family="oracle_boards", level="exploration", design_ref="4.5",
                    technique="edits addressed to the root, layers l1/l2, scenarios s1/s2 and steps s1/1, s1/2; TLC checks that every board that neither is nor inherits from the addressed board keeps its projection digest, for successful and refused edits",
                    rule=_or_rule.replace("applies 1 + i mod 8 edits", "adds two layers, two scenarios and two steps, then applies 1 + i mod 8 edits, each addressed to a random board,") + "an edit was attempted.",
                    exhaustive=dict(quick=False, thorough=True), assumptions=_or_assume + ["heirs of a board: boards nested in it and, for a step, the other steps of the same parent"],
                    text="Board frame condition of every edit, whether it succeeds or is refused.", note="Trusted: TLC, Json module, the snapshot/digest code in the harness.")


# ---------------------------------------------------------------------------------- parse (C01 C02)
def corrupt_parse(lines, pid):
    for e in lines:
        if e.get("ev") != "parse":
            continue
        if pid == "C01" and e["fn"] == "Parse":
            e["tree"] = 0
            return "syntax tree of a Parse call dropped"
        if pid == "C02" and e["fn"] == "Parse" and e["nodes"]:
            e["nodes"][-1][2] += 1
            return "byte offset of a node start incremented"
    return None


FAMILIES["parse"] = dict(vdrive="parse", trace_module="TraceD2Parse", trace_cfg="TraceD2Parse.cfg", corrupt=corrupt_parse, engine="TraceD2Parse", crash_props=["C01"], args={"n": "900"}, chunk=1200, heap="4g")
_ps_rule = ("the input space is FIXED (input #i from seed i, 9900 inputs; quick takes the 900 VERIF_SEED selects): generated programs (mode text), the same damaged in 1-3 places, raw byte strings of 1-7 bytes over 31 structural/invalid bytes "
            "(incl. UTF-16 LE with BOM, odd and even payloads, and multi-byte/astral prefixes), constructs nested or left open 1-2000 deep, key/value fragments, and systematic token rows (28 tokens incl. *, ${x}, ...${x}, quotes, escapes, brackets, arrows: every pair and every triple of tokens next to each other in a key, a value and a connection label, 2436 rows of 28 lines); each through Parse (UTF-8 and UTF-16 position modes), ParseKey, ParseMapKey, ParseValue. Non-trivial: ")
PROPS["C01"] = dict(family="parse", level="exploration", design_ref="5", technique="totality monitor in TLA+ over call/return events of the four parser entry points: returned, no panic, no timeout (20 s), a tree (Parse: always) or errors, errors positioned",
                    rule=_ps_rule + "every input.", exhaustive=dict(quick=False, thorough=True), assumptions=["ParseKey/ParseMapKey/ParseValue return nil together with an error; for them the contract is 'a tree or errors'"],
                    text="Parsing is a call/return stage whose guard is the totality contract.", note="Trusted: TLC, Json module, the input generators in the harness.")
PROPS["C02"] = dict(family="parse", level="exploration", design_ref="4.6", technique="TLA+ definition PosAt of line/column/offset after k runes in UTF-8 bytes and in UTF-16 units; TLC checks every node and error range of the real parser's trees against it (inside the input, start <= end, nested in the parent, triple = PosAt(k) for some k), plus re-parsing of key segment texts",
                    rule=_ps_rule + "inputs of at most 300 runes that are not UTF-16 encoded (their rune table is logged).", exhaustive=dict(quick=False, thorough=True),
                    assumptions=["AST nodes are found by reflection: every struct with a Range field; parent = closest enclosing such struct", "the segment-text clause is checked for inputs that parse without errors", "the reader machine (read/peek/commit/rewind/replay) itself is not traced: no hooks in d2parser"],
                    text="PosAt is the specification of positions; the parser's reported ranges are validated against it for every generated input in both modes.", note="Trusted: TLC, Json module, the reflective AST walk.")


# ---------------------------------------------------------------------------------- attrs (C16)
def corrupt_attrs(lines, pid):
    for e in lines:
        if e.get("ev") == "decl":
            e["accepted"] = 1 - e["accepted"]
            e["compiled"] = e["v"]["raw"]
            e["compiledLower"] = e["v"]["lower"]
            return "the compiler's verdict on one declaration inverted"
    return None


FAMILIES["attrs"] = dict(vdrive="attrs", trace_module="TraceD2Attrs", trace_cfg="TraceD2Attrs.cfg", corrupt=corrupt_attrs, engine="TraceD2Attrs", args={"table": _os.path.join(_os.path.dirname(_os.path.dirname(_os.path.abspath(__file__))), "specs", "attr_domains.json")}, chunk=4000, heap="3g")
PROPS["C16"] = dict(family="attrs", level="exploration", design_ref="4.7",
                    technique="domain table in TLA+ (specs/attr_domains.json read by TraceD2Attrs.tla: kind, bounds or enumeration of 40 attributes/style keywords/configuration keys); TLC decides InDomain for the lexical description of every generated value and checks accepted <=> InDomain, accepted value unchanged, rejection reported inside the declaration, on the verdicts of the real d2compiler.Compile",
                    rule=("for each of the 40 table entries and each context it applies to (object, connection, arrowhead, d2-config): the boundary values lo-1, lo, lo+1, hi-1, hi, hi+1, signed/zero-padded/overflowing/decimal/exponent/hex spellings, NaN/Inf, "
                          "every member of an enumeration in lower, upper and capitalised case plus near misses, named/hex/gradient colour forms and malformed ones, booleans in any case and look-alikes, 11 garbage strings, and seeded random values inside and outside the range "
                          "(quick: one round, about 2000 declarations; thorough: six rounds of random values). Non-trivial: every declaration."),
                    exhaustive=dict(quick=False, thorough=False),
                    assumptions=["spellings whose membership in the documented domain is debatable are not generated: 1/0/t/f for booleans, 4- and 8-digit hex colours, negative pad",
                                 "values are written bare when the unquoted syntax carries them, else double-quoted",
                                 "an object context always has an icon so that shape: image and icon.near are admissible; 'rejection at the value' is checked as: the first error's position lies inside the text of the declaration (configuration errors are reported at the key)",
                                 "whether a gradient is valid is known by construction of the generated value; named colours and hex lengths are decided in TLA+"],
                    text="The documented domains are a table; acceptance by the real compiler is compared with table membership decided by TLC.", note="Trusted: TLC, Json module, the lexical description of values in the harness (lexValue).")


# ---------------------------------------------------------------------------------- quote (C05 C06)
def corrupt_quote(lines, pid):
    for e in lines:
        if pid == "C05" and e.get("ev") == "rt" and e.get("ok") == 1 and e.get("applies") == 1 and e["back"]:
            e["back"][-1] += 1
            return "last code point of a string read back changed"
        if pid == "C06" and e.get("ev") == "ids" and e.get("ok") == 1 and len(e["objs"]) > 1:
            e["objs"][1]["fold"] = e["objs"][0]["fold"]
            return "two objects given the same case-folded absolute ID"
    return None


FAMILIES["quote"] = dict(vdrive="quote", trace_module="TraceD2Quote", trace_cfg="TraceD2Quote.cfg", corrupt=corrupt_quote, engine="TraceD2Quote", chunk=4000, heap="4g")
_q_rule = ("strings over a 38-character alphabet (letters in both cases, blank, tab, newline, every structural character of D2, quotes, backslash, digits, accented, CJK, astral): all of length <= 2 (quick) or <= 3 (thorough, 56,000), "
           "230 words (null/true/false/suspend and reserved keywords in every letter case, numbers in unusual spellings, connection and import syntax, escapes, leading/trailing/inner blanks, NUL, BOM, bidi and non-breaking characters), "
           "and 1,500 / 12,000 seeded concatenations of 1-8 such pieces; each through 4 paths: key segment, value, d2oracle.Set of a label, d2oracle.Create of a key. ")
PROPS["C05"] = dict(family="quote", args={"only": "rt"}, level="exploration", design_ref="4.7", technique="TLA+ statement of the round trip over code-point sequences (identity, stays a string, stays one key segment); TLC compares what the real writer/reader pair returned for every generated string and path",
                    rule=_q_rule + "Non-trivial: strings of more than 2 bytes.", exhaustive=dict(quick=False, thorough=False),
                    assumptions=["the empty string is exercised as a label only (an empty key is not a key, ParseValue reports an empty value)", "Create of a reserved keyword, '_' or a name that collides with the existing object is a refusal or a renaming, not a quoting matter, and is skipped",
                                 "a value read back as a number or boolean counts as preserved when its text equals the string (1.5, true)"],
                    text="The round trip is an identity statement; the quantifier is discharged by enumeration of the alphabet and word lists, not by a base model.", note="Trusted: TLC, Json module, the rune conversion in the harness.")
PROPS["C06"] = dict(family="quote", args={"only": "ids"}, level="exploration", design_ref="4.7", technique="TLA+ statement that IDs are a bijection: every object's ID / absolute ID parsed back by the real parser equals its name path, case-folded absolute IDs are pairwise distinct, every connection ID parses back to its own endpoints, arrowheads and index, and that tuple is a key of the board; evaluated by TLC on compiled programs",
                    rule="300 / 2,500 seeded programs of 2-6 top-level objects named by words and characters of the C05 lists (one in six names is another name in swapped letter case), each with a child named like its neighbour, connections between neighbours, every second pair twice and once more from the nested object. Non-trivial: the program compiles.",
                    exhaustive=dict(quick=False, thorough=False), assumptions=["names are written with the tools' own quoting (RawString/Format), so that a failure is the ID's, not the generator's"],
                    text="IDs as keys of the board.", note="Trusted: TLC, Json module.")


# ---------------------------------------------------------------------------------- vars (C13)
def corrupt_vars(lines, pid):
    for e in lines:
        if e.get("ev") == "prog" and e.get("err") == 0 and e["uses"]:
            e["uses"][0]["got"] += "?"
            return "one compiled use-site text altered"
    return None


FAMILIES["vars"] = dict(vdrive="vars", trace_module="TraceD2Vars", trace_cfg="TraceD2Vars.cfg", corrupt=corrupt_vars, engine="TraceD2Vars", args={"n": "1500"}, chunk=3000, heap="4g")
PROPS["C13"] = dict(family="vars", level="model_checking", design_ref="4.4",
                    technique="TLA+ model of scoped resolution (Resolve: innermost definition; Expected: concatenation of pieces, single quotes literal, undefined = error; Twin: textual substitution) model checked by TLC over every 3-scope program (TwinAgrees, InnermostWins, Inherited), and evaluated by TLC on generated programs compiled by the real compiler together with their textually substituted twins",
                    base=dict(quick=[dict(module="D2Vars", cfg="D2Vars.cfg")], thorough=[dict(module="D2Vars", cfg="D2Vars.cfg")]),
                    rule=("the program space is FIXED (program #i from seed i, 12,000 programs; quick takes the 1,500 VERIF_SEED selects): 1-5 scopes (the file, containers, layers incl. nested ones, scenarios) each defining a random subset of 5 names (two of them fields of a nested map) "
                          "with 14 values (words, blanks inside, numbers, decimals, dashes, unicode), 1-6 use sites (label, tooltip, connection label) written unquoted, double- or single-quoted and made of 1-3 pieces "
                          "(reference alone, literal prefix such as '0.' or 'pre ', suffix, two references around a literal); 15% of the programs contain one reference to an undefined name. Non-trivial: every program."),
                    exhaustive=dict(quick=True, thorough=True),
                    assumptions=["values and literal pieces are syntax-neutral (letters, digits, blanks, dash, dot, underscore): replacing a reference textually does not change how the line parses", "variables that refer to other variables, spread substitutions and substitutions inside arrays are not generated",
                                 "base model: 3 nested scopes, 2 names, 2 values, every definition pattern, every use scope and quoting (26,244 programs)"],
                    text="Resolve/Expected are the specification of substitution; TLC checks the twin statement on the model and the model against the compiler.", note="Trusted: TLC, Json module, the program writer in harness/cmd/vdrive/vars.go.")


# ---------------------------------------------------------------------------------- boards (C15)
def corrupt_boards(lines, pid):
    for e in lines:
        if e.get("ev") == "prog" and e.get("err") == 0:
            for b in e["boards"]:
                if b["kind"] in ("scenario", "step") and b["found"] == 1 and b["obs"]["objs"]:
                    b["obs"]["objs"].pop()
                    return "last object of an inheriting board dropped"
    return None


FAMILIES["boards"] = dict(vdrive="boards", trace_module="TraceD2Boards", trace_cfg="TraceD2Boards.cfg", corrupt=corrupt_boards, engine="TraceD2Boards", args={"alphabet": _os.path.join(_SPECS, "ir_alphabet.json"), "n": "1000"}, chunk=1500, heap="4g")
PROPS["C15"] = dict(family="boards", level="model_checking", design_ref="4.4",
                    technique="TLA+ inheritance rule (Derive: which declarations make up a root / layer / scenario / step) on top of D2IR's Apply, whose declaration semantics TLC model checks in the ir family; TLC folds Apply over the derived sequence of every board and compares with the real compiler's projection of that board",
                    base=dict(quick=[dict(module="D2IR", cfg="D2IR_quick.cfg", workers=8)], thorough=[dict(module="D2IR", cfg="D2IR_quick.cfg", workers=8)]),
                    rule=("the program space is FIXED (program #i from seed i, 8,000 programs; quick takes the 1,000 VERIF_SEED selects): a root board with 2-6 declarations from the 33 usable declarations of specs/ir_alphabet.json "
                          "(objects at depth 1-2 in three casings, labels, shapes, style attributes, attribute and object null, connections incl. self loops and parallel ones, indexed connection references) in six syntactic variants; "
                          "with probability 0.6 each a layers, scenarios and steps block of 1-3 boards placed before, between or after the declarations; boards of depth 1 carry 0-3 declarations and, with probability 0.35 each, nested blocks. "
                          "Non-trivial: the program has at least one nested board."),
                    exhaustive=dict(quick=True, thorough=True),
                    assumptions=["classes, variables and board-wide globs (what a layer may still use from its base) are not part of the alphabet", "explicit label fields (KF-C10-1), indexed deletions and globs are left out of the alphabet: their deviations are recorded by the ir family",
                                 "a program in which some board refers to a connection index it does not have must be rejected as a whole"],
                    text="Derive is the specification of inheritance; board isolation follows from deriving every board from declarations only.", note="Trusted: TLC, Json module, the program writer in harness/cmd/vdrive/boards.go, the projection.")


# ---------------------------------------------------------------------------------- imports (C14)
def corrupt_imports(lines, pid):
    for e in lines:
        if e.get("ev") == "set" and e.get("err") == 0 and e["obs"]["objs"]:
            e["obs"]["objs"].pop()
            return "last object of the importing file's board dropped"
    return None


FAMILIES["imports"] = dict(vdrive="imports", trace_module="TraceD2Imports", trace_cfg="TraceD2Imports.cfg", corrupt=corrupt_imports, engine="TraceD2Imports", args={"alphabet": _os.path.join(_SPECS, "ir_alphabet.json"), "n": "1000"}, chunk=1500, heap="4g")
PROPS["C14"] = dict(family="imports", level="model_checking", design_ref="4.4",
                    technique="TLA+ expansion of imports (ExpandFile: importing is inlining, under a key with every path prefixed; the stack of files being imported marks a cycle) on top of D2IR's Apply; TLC expands and folds every generated file set and compares with what the real compiler made of it from an in-memory file system, plus the inlined twin compiled by the real compiler",
                    base=dict(quick=[dict(module="D2IR", cfg="D2IR_quick.cfg", workers=8)], thorough=[dict(module="D2IR", cfg="D2IR_quick.cfg", workers=8)]),
                    rule=("the space of file sets is FIXED (set #i from seed i, 8,000 sets; quick takes the 1,000 VERIF_SEED selects): 1-4 files (index.d2, f2.d2, sub/f3.d2, sub/deep/f4.d2 in shuffled roles) of 0-3 declarations from the ir alphabet and 0-2 imports each, "
                          "written as  ...@f ,  key: @f ,  key: {...@f}  or  key: @f.sel  (one key of the file) at random positions, with the path spelled bare, with ./ or ../ and with or without the .d2 extension; acyclic sets import later files only (nested chains up to length 4), "
                          "20% of the sets may import any file including themselves (cycles of every length). Every set is followed by an icon chain: 2-4 files in their own directories (lib/, lib/deep/, other/), each declaring one object with an icon (relative in several spellings incl. ./ and ../, absolute, URL) and importing the next one by spread, under a key or in a map; TLC computes the icon each object has to end up with from the import paths as written (dir(p1)/.../dir(pk)/icon, cleaned) - relative icons are rebased, absolute and remote ones and the importing file's own are not. Non-trivial: every set."),
                    exhaustive=dict(quick=True, thorough=True),
                    assumptions=["relative board links and globs in imported files are not generated in this family (links: see C35); the import of a single key (key: @f.sel) is generated in its non-spread form and has no textual twin", "explicit label fields, indexed deletions and globs are left out of the alphabet (see C15)",
                                 "the order of objects and connections is not compared", "termination: 20 s per compile"],
                    text="ExpandFile is the specification of importing; the cycle rule is the compiler's own stack discipline stated in TLA+.", note="Trusted: TLC, Json module, the file writer in harness/cmd/vdrive/imports.go, testing/fstest.MapFS.")


# ---------------------------------------------------------------------------------- links (C35)
def corrupt_links(lines, pid):
    for e in lines:
        if e.get("ev") == "prog" and e.get("err") == 0:
            for x in e["links"]:
                if x["stored"]:
                    x["stored"] = x["stored"][:-1] + ["zzz"]
                    return "last segment of a stored link changed"
    return None


FAMILIES["links"] = dict(vdrive="links", trace_module="TraceD2Links", trace_cfg="TraceD2Links.cfg", corrupt=corrupt_links, engine="TraceD2Links", prebuild=_prebuild_d2, args={"d2": _D2, "n": "600"}, chunk=1500, heap="4g")
PROPS["C35"] = dict(family="links", level="model_checking", design_ref="4.3",
                    technique="TLA+ resolution of board links (Target: root = absolute, each leading _ climbs one board, rest appended; Kept: the board exists and is not the current one) and derivation of output files and relative paths (File/Rel, the BoardPaths derivation restated over a given tree); TLC compares with the links the real compiler stores and with the hrefs the real CLI writes into the boards' SVG files",
                    base=dict(quick=[dict(module="BoardPaths", cfg="BoardPaths_escaped.cfg")], thorough=[dict(module="BoardPaths", cfg="BoardPaths_escaped.cfg")]),
                    rule=("the space is FIXED (tree #i from seed i, 4,800 trees; quick takes the 600 VERIF_SEED selects): board trees to depth 2 with layers, scenarios and steps (1-2 of a kind), 0-3 linked objects per board, a quarter of them inside a container; "
                          "link forms: absolute (root...), child or grandchild, missing board, 1-3 underscores with or without a tail, the board itself (by climbing and coming back, and absolute), climb to the common ancestor of a random board and descend. "
                          "Every fourth tree is also written to files by the real d2 binary (dagre) and the href of every linked object is read back from the board's own SVG file. Non-trivial: more than one board and at least one link."),
                    exhaustive=dict(quick=True, thorough=True),
                    assumptions=["a quarter of the nested boards have their content in a file of their own (name: @file); inside such a file root names the importing board (links are rebased)", "board names are plain identifiers (file-name escaping is C34's matter)",
                                 "a board's file is recognised by a marker object: the file that shows the board's marker and no marker of a board below it (scenarios and steps show their base's markers too)"],
                    text="Target/Kept are the specification of link resolution; File/Rel of where a link points once boards are files.", note="Trusted: TLC, Json module, the SVG scan (regular expressions on <a href> and <g class>).")


# ---------------------------------------------------------------------------------- lsp (C42)
def corrupt_lsp(lines, pid):
    for e in lines:
        if e.get("ev") == "pos" and e.get("got"):
            e["got"] = e["got"][:-1] + ["zzz"]
            return "reported board path altered"
    for e in lines:
        if e.get("ev") == "refs" and e.get("ranges"):
            e["ranges"][0]["names"] = 0
            return "a reference range marked as not naming the key"
    return None


FAMILIES["lsp"] = dict(vdrive="lsp", trace_module="TraceD2Lsp", trace_cfg="TraceD2Lsp.cfg", corrupt=corrupt_lsp, engine="TraceD2Lsp", args={"alphabet": _os.path.join(_SPECS, "ir_alphabet.json"), "n": "300"}, chunk=6000, heap="4g")
PROPS["C42"] = dict(family="lsp", level="exploration", design_ref="4.4",
                    technique="TLA+ definition of the innermost board at a position (smallest block containing the offset, none inside a keyword block between boards) evaluated by TLC against d2lsp.GetBoardAtPosition for every line start and random offsets; reference ranges of d2lsp.GetRefRanges sliced out of the source, parsed back and counted against the declarations the board derives; completion calls at positions of the text and of the text cut off there must return",
                    rule=("the program space is the boards family's (board trees over the ir alphabet without indexed references; program #i from seed i, 2,400 programs; quick takes the 300 VERIF_SEED selects); per program: every line start and 10 random offsets for the board lookup, "
                          "every board x the keys a, b, a.c, a.b for the reference lookup, 12 completion calls (half on the text cut off at the position). Non-trivial: every program."),
                    exhaustive=dict(quick=False, thorough=False),
                    assumptions=["a range names the key when its text, read as a map key by the real parser, has the key's last segment among its segments or connection ends (case-folded)",
                                 "completeness is a lower bound: at least as many ranges as declarations of the board's derivation whose own path is the key", "multi-file sets are not generated for the LSP calls"],
                    text="Innermost is the specification of the board lookup; references are validated by slicing the source.", note="Trusted: TLC, Json module, the block offsets recorded by the program writer.")


# ---------------------------------------------------------------------------------- fonts (C47)
def corrupt_fonts(lines, pid):
    for e in lines:
        if e.get("ev") == "font" and e.get("decoded") == 1 and e["inSubset"] and set(e["inSubset"]) & set(e["inFull"]):
            c = sorted(set(e["inSubset"]) & set(e["inFull"]))[0]
            e["inSubset"].remove(c)
            return "one drawn character removed from the embedded subset"
    return None


FAMILIES["fonts"] = dict(vdrive="fonts", trace_module="TraceD2Fonts", trace_cfg="TraceD2Fonts.cfg", corrupt=corrupt_fonts, engine="TraceD2Fonts", args={"n": "150"}, chunk=3000, heap="3g")
PROPS["C47"] = dict(family="fonts", level="exploration", design_ref="4.11",
                    technique="every embedded WOFF font of the rendered SVG is decoded (WOFF 1: zlib per table) and its character map (cmap formats 4, 6, 12) read; the characters the SVG draws in that font are collected from the SVG (class of <text>, markdown elements); TLC checks drawn /\\ full \\subseteq subset and that a font in which text is drawn is embedded",
                    rule=("the space is FIXED (diagram #i from seed i, 1,200 diagrams; quick takes the 150 VERIF_SEED selects): 1-4 shapes with labels from 36 word groups (Latin-1, Latin Extended incl. digraphs and dotless/dotted i, Greek, Cyrillic, ligatures, currency, arrows, "
                          "mathematical signs, typographic quotes and dashes, CJK, emoji), bold / italic / mono styles, tooltips, text-transform uppercase / lowercase / capitalize, a connection with label and arrowhead labels, and one of class, sql_table, code, markdown; "
                          "7 themes; dagre. Non-trivial: every diagram."),
                    exhaustive=dict(quick=False, thorough=False),
                    assumptions=["which font a character is drawn in is read from the SVG: the text-* class of <text> elements; inside markdown: strong/b/th = bold, em/i = italic, h1-h6 = semibold, code/pre = mono, everything else regular",
                                 "sketch mode fonts and custom fonts are not exercised", "the full font's character map is read with the same cmap reader from d2fonts.FontFaces"],
                    text="A set-inclusion statement per embedded font; the quantifier is discharged by generated text.", note="Trusted: TLC, Json module, the WOFF/cmap reader and the SVG walk in harness/cmd/vdrive/fonts.go.")


# ------------------------------------------------------------------------------- manifest data
HOOK_COMMITS = ["9d004ebd4", "879b5d739"]

ENGINES = {
    "TraceD2Fonts": dict(path="specs/TraceD2Fonts.tla", kind="TLA+ set-inclusion statement per embedded font, evaluated by TLC on the decoded fonts and the drawn characters of real renders"),
    "TraceD2Lsp": dict(path="specs/TraceD2Lsp.tla", kind="TLA+ definition of the innermost board at a position and reference-range validity, evaluated by TLC on the results of the real d2lsp functions"),
    "TraceD2Links": dict(path="specs/TraceD2Links.tla, specs/BoardPaths.tla", kind="TLA+ resolution of board links and derivation of output files and relative paths; TLC compares with the real compiler's stored links and the real CLI's hrefs"),
    "TraceD2Imports": dict(path="specs/D2IR.tla, specs/TraceD2Imports.tla, specs/ir_alphabet.json", kind="TLA+ expansion of imports with the import stack (cycle rule) over the D2IR reference interpreter; TLC compares the expansion with the real compiler's result for generated file sets"),
    "TraceD2Boards": dict(path="specs/D2IR.tla, specs/TraceD2Boards.tla, specs/ir_alphabet.json", kind="TLA+ inheritance rule for layers/scenarios/steps over the D2IR reference interpreter; TLC derives and folds the declarations of every board and compares with the real compiler's boards"),
    "TraceD2Vars": dict(path="specs/D2Vars.tla, specs/TraceD2Vars.tla", kind="TLA+ model of scoped variable resolution and substitution (TLC: all 3-scope programs) + TLC comparison of the model with the real compiler on generated programs and their textually substituted twins"),
    "TraceD2Quote": dict(path="specs/TraceD2Quote.tla", kind="TLA+ statements of the quoting round trip (identity on code-point sequences) and of IDs as keys of a board, evaluated by TLC on the real writer/parser/compiler results"),
    "TraceD2Attrs": dict(path="specs/TraceD2Attrs.tla, specs/attr_domains.json", kind="TLA+ domain table of attribute values (InDomain) evaluated by TLC on the accept/reject verdicts and compiled values of the real compiler"),
    "TraceD2Parse": dict(path="specs/TraceD2Parse.tla", kind="TLA+ definition of source positions (PosAt) + totality contract, evaluated by TLC on the real parser's trees and errors"),
    "TraceD2Oracle": dict(path="specs/TraceD2Oracle.tla", kind="TLA+ action system of the d2oracle API over an identity-keyed graph (effects + frame conditions), evaluated by TLC on before/after snapshots of real edit histories"),
    "TracePipeline": dict(path="specs/TracePipeline.tla", kind="TLA+ stage machine of the tool chain whose per-stage guards are the properties; TLC evaluates them on the facts logged from the real stages for a fixed generated input space"),
    "TraceD2IR": dict(path="specs/D2IR.tla, specs/TraceD2IR.tla, specs/ir_alphabet.json", kind="TLA+ reference interpreter of the D2 core fragment (TLC, all programs within bound) + TLC comparison of every compiled program prefix with the model state"),
    "TraceImgBundle": dict(path="specs/ImgBundle.tla, specs/TraceImgBundle.tla", kind="TLA+ model of imgbundler.runWorkers (TLC, all interleavings x failure subsets) + TLC validation of real runs with imposed completion orders"),
    "TraceD2Watch": dict(path="specs/D2Watch.tla, specs/TraceD2Watch.tla", kind="TLA+ model of d2 --watch concurrency (TLC safety+liveness) + TLC trace validation of hook traces of the real watcher (D2Watch instantiated over the replayed state)"),
    "TraceFSWrite": dict(path="specs/FSOps.tla, specs/FSWrite.tla, specs/BoardPaths.tla, specs/TraceFSWrite.tla", kind="TLA+ POSIX file-system model + write protocols with Crash (TLC), board-to-file path derivation (TLC), TLC validation of strace-recorded system calls of the real d2 binary"),
    "TraceD2Anim": dict(path="specs/D2Anim.tla, specs/AnimOps.tla, specs/TraceD2Anim.tla", kind="TLA+ clock model of the animated SVG cycle (TLC, safety+liveness) + TLC trace validation of the key frames emitted by d2animate.Wrap"),
}

NOT_APPLICABLE = {
    "C27": "pure real-valued shape-fit functions with a continuous quantifier: no state/transition at the property's level, TLC has 32-bit integers and no reals; the symbolic half is SMT, a different technique (DESIGN.md section 6)",
    "C32": "pure ASCII renderer whose observable is a character matrix; a faithful model would restate draw order per cell and the label-visibility clause is a substring check TLC cannot express (DESIGN.md section 6)",
    "C43": "encode/decode fidelity of DEFLATE+base64: the model would be the identity function; the technique's own guidance names this the wrong tool (DESIGN.md section 6)",
}
