# Families (one vdrive sub-command + one Trace*.tla each) and the per-property configuration.
import copy

FAMILIES = {}
PROPS = {}


# ---------------------------------------------------------------------------------- anim (C33)
def corrupt_anim(lines, pid):
    for e in lines:
        if e.get("ev") == "anim" and e["n"] >= 2 and e["T"] >= 10:
            st = e["boards"][0]
            st[-1]["op"] = 100
            st[-2]["op"] = 100
            return "board 0 of (n=%d,T=%d) never fades out" % (e["n"], e["T"])
    return None


FAMILIES["anim"] = dict(vdrive="anim", trace_module="TraceD2Anim", trace_cfg="TraceD2Anim.cfg", chunk=60, corrupt=corrupt_anim)

PROPS["C33"] = dict(
    family="anim", level="model_checking", design_ref="4.9",
    technique="TLA+ clock model of the animation cycle checked by TLC (safety + liveness); key frames emitted by the real d2animate.Wrap validated by TLC against the same operators",
    base=dict(
        quick=[dict(module="D2Anim", cfg="D2Anim_quick.cfg"),
               dict(module="D2Anim", cfg="D2Anim_ceil100.cfg", expect="violation", note="variant EndRule=ceil100 (pre-fix code rule) must break OneAtATime at n=101")],
        thorough=[dict(module="D2Anim", cfg="D2Anim_quick.cfg"), dict(module="D2Anim", cfg="D2Anim_thorough.cfg", timeout=1800),
                  dict(module="D2Anim", cfg="D2Anim_ceil100.cfg", expect="violation")]),
    rule="(n boards, interval T ms) pairs: quick n in 1..24 plus {50,99,100,101,102,127,128,130} and 4 seed-chosen n, thorough every n in 1..130; T from a fixed set; n*T <= 1e6 ms. "
         "Non-trivial: n >= 2 and T >= 3 (a steady interval with interior sample instants exists).",
    exhaustive=dict(quick=False, thorough=True),
    assumptions=["CSS animation semantics as transcribed in AnimOps.tla (same-offset stops cascade, linear interpolation)",
                 "percentages are printed with 6 decimals; sample instants stay eps = total/1e8 + 2 us inside each steady interval",
                 "regex extraction of @keyframes blocks from the SVG in harness/cmd/vdrive/anim.go"],
    text="The animation timeline is a small discrete-time state machine; TLC checks OneAtATime/Ordered/EveryBoardShown on the ideal key frames for all (n,T) in the config, "
         "and re-evaluates the same predicates on the key frames the real Wrap emits for every (n,T) of the tier.",
    note="Trusted: TLC, the Json module, the keyframe regex/decimal parser in the driver.")


# ------------------------------------------------------------------------------- manifest data
HOOK_COMMITS = []

ENGINES = {
    "TraceD2Anim": dict(path="specs/D2Anim.tla, specs/AnimOps.tla, specs/TraceD2Anim.tla", kind="TLA+ clock model of the animated SVG cycle (TLC, safety+liveness) + TLC trace validation of the key frames emitted by d2animate.Wrap"),
}

NOT_APPLICABLE = {
    "C27": "pure real-valued shape-fit functions with a continuous quantifier: no state/transition at the property's level, TLC has 32-bit integers and no reals; the symbolic half is SMT, a different technique (DESIGN.md section 6)",
    "C32": "pure ASCII renderer whose observable is a character matrix; a faithful model would restate draw order per cell and the label-visibility clause is a substring check TLC cannot express (DESIGN.md section 6)",
    "C43": "encode/decode fidelity of DEFLATE+base64: the model would be the identity function; the technique's own guidance names this the wrong tool (DESIGN.md section 6)",
}
