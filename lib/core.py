# Core of the check runner: build the Go driver from /repo's working tree, run TLC on base
# modules, validate implementation traces with TLC, classify violations, write evidence.
# Exit codes: 0 held (maybe KNOWN-FINDING lines) / 1 VIOLATION / 2 machinery problem (never a verdict).
import json, os, re, shutil, subprocess, sys, tempfile, time, concurrent.futures as cf
import tlaval

VERIF = os.path.dirname(os.path.dirname(os.path.abspath(__file__)))
REPO = os.environ.get("VERIF_REPO", "/repo")
SPECS = os.path.join(VERIF, "specs")
BUILD = os.path.join(VERIF, ".build")
WORKROOT = os.path.join(VERIF, ".work")
if REPO != "/repo":
    # development aid (seeded-change trials on a scratch worktree): own build directory, go.mod redirected
    BUILD = os.path.join(VERIF, ".build-" + re.sub(r"[^A-Za-z0-9]+", "_", REPO))
    os.environ["VERIF_EVIDENCE_DIR"] = os.path.join(BUILD, "evidence")
TLA_CP = "/opt/veriftools/tla/tla2tools.jar:/opt/veriftools/tla/CommunityModules-deps.jar"
NCPU = os.cpu_count() or 4
EVID = os.environ.get("VERIF_EVIDENCE_DIR") or os.path.join(VERIF, "evidence")


class Machinery(Exception):
    """Something in the verification machinery failed; never a verdict (exit 2)."""


class DriverCrash(Machinery):
    """The driver process died (a fatal runtime error of the code under test cannot be recovered in-process).
    inflight: the inputs that had been started and not finished, from the driver's journal."""

    def __init__(self, msg, inflight):
        super().__init__(msg)
        self.inflight = inflight


def goenv():
    e = dict(os.environ)
    e["GOFLAGS"] = "-mod=mod"
    e["GOPROXY"] = "off"
    e.pop("GOTOOLCHAIN", None)
    e.pop("GOSUMDB", None)
    return e


def log(*a):
    print("[check]", *a, file=sys.stderr, flush=True)


def build_vdrive(race=False):
    """Builds harness/cmd/vdrive against /repo's current working tree with -tags verif."""
    os.makedirs(BUILD, exist_ok=True)
    h = os.path.join(VERIF, "harness")
    out = os.path.join(BUILD, "vdrive-race" if race else "vdrive")
    mod = []
    if REPO == "/repo":
        shutil.copyfile(os.path.join(REPO, "go.sum"), os.path.join(h, "go.sum"))
    else:
        gm = open(os.path.join(h, "go.mod")).read().replace("=> /repo", "=> " + REPO)
        open(os.path.join(BUILD, "go.mod"), "w").write(gm)
        shutil.copyfile(os.path.join(REPO, "go.sum"), os.path.join(BUILD, "go.sum"))
        mod = ["-modfile=" + os.path.join(BUILD, "go.mod")]
    cmd = ["go", "build", "-tags", "verif"] + mod + (["-race"] if race else []) + ["-o", out, "./cmd/vdrive"]
    t0 = time.time()
    p = subprocess.run(cmd, cwd=h, env=goenv(), capture_output=True, text=True)
    if p.returncode != 0:
        raise Machinery("go build failed (the tree under /repo does not compile with -tags verif):\n" + p.stdout + p.stderr)
    log("built %s in %.1fs" % (os.path.basename(out), time.time() - t0))
    return out


def build_d2(tags="verif"):
    """Builds the d2 CLI binary itself from /repo."""
    os.makedirs(BUILD, exist_ok=True)
    out = os.path.join(BUILD, "d2")
    p = subprocess.run(["go", "build", "-tags", tags, "-o", out, "."], cwd=REPO, env=goenv(), capture_output=True, text=True)
    if p.returncode != 0:
        raise Machinery("go build of d2 failed:\n" + p.stdout + p.stderr)
    return out


class Work:
    """Scratch directory under /verif/.work, removed on exit."""

    def __init__(self, tag):
        os.makedirs(WORKROOT, exist_ok=True)
        self.dir = tempfile.mkdtemp(prefix=tag + "-", dir=WORKROOT)

    def sub(self, name):
        d = os.path.join(self.dir, name)
        os.makedirs(d, exist_ok=True)
        return d

    def cleanup(self):
        shutil.rmtree(self.dir, ignore_errors=True)


def _specdir(work, name, renames=None):
    """copies the specs into a scratch dir; renames = {target name: source name} (e.g. which alphabet a module reads)"""
    d = work.sub(name)
    for f in os.listdir(SPECS):
        if f.endswith(".tla") or f.endswith(".cfg") or f.endswith(".json"):
            shutil.copyfile(os.path.join(SPECS, f), os.path.join(d, f))
    for dst, src in (renames or {}).items():
        shutil.copyfile(os.path.join(SPECS, src), os.path.join(d, dst))
    return d


RE_STATES = re.compile(r"(\d+) states generated, (\d+) distinct states found")
RE_DEPTH = re.compile(r"depth of the complete state graph search is (\d+)")
RE_VIOL = re.compile(r'^<<"VIOL", (-?\d+), (-?\d+), "([^"]*)", "([^"]*)", (.*)>>$')
RE_END = re.compile(r'^<<"TRACE-END", (\d+), (\d+)>>$')
RE_INFO = re.compile(r'^<<"INFO", "([^"]*)", (.*)>>$')


def run_tlc(d, module, cfg, workers=1, heap="4g", timeout=600, extra=None, simulate=None, env_extra=None):
    """Runs TLC in directory d. Returns dict(out, rc, generated, distinct, depth, wall)."""
    md = os.path.join(d, "md-%s-%d" % (cfg.replace(".cfg", ""), int(time.time() * 1000) % 100000))
    cmd = ["java", "-Xss512m", "-Xmx" + heap, "-XX:+UseParallelGC", "-cp", TLA_CP, "tlc2.TLC",
           "-workers", str(workers), "-metadir", md, "-config", cfg, "-noGenerateSpecTE"]
    if simulate:
        cmd += ["-simulate", simulate]
    if extra:
        cmd += extra
    cmd.append(module)
    t0 = time.time()
    env = dict(os.environ)
    if env_extra:
        env.update(env_extra)
    try:
        p = subprocess.run(cmd, cwd=d, capture_output=True, text=True, timeout=timeout, env=env)
    except subprocess.TimeoutExpired:
        subprocess.run(["pkill", "-f", md], capture_output=True)
        raise Machinery("TLC timed out after %ds on %s/%s" % (timeout, module, cfg))
    finally:
        shutil.rmtree(md, ignore_errors=True)
    out = p.stdout + p.stderr
    r = dict(out=out, rc=p.returncode, wall=time.time() - t0, generated=0, distinct=0, depth=0, module=module, cfg=cfg)
    m = RE_STATES.findall(out)
    if m:
        r["generated"], r["distinct"] = int(m[-1][0]), int(m[-1][1])
    m = RE_DEPTH.findall(out)
    if m:
        r["depth"] = int(m[-1])
    return r


def tlc_error_summary(out):
    lines = [l for l in out.splitlines() if l.startswith("Error:") or "is violated" in l or "Exception" in l]
    return "\n".join(lines[:12])


def check_base(work, models):
    """models: list of dict(module, cfg, expect='ok'|'violation', workers, timeout, note).
    'ok': TLC must complete with no error. 'violation': TLC must report an invariant/property
    violation (a design variant that is known to break the property - shows the invariant has teeth)."""
    res = []
    for m in models:
        d = _specdir(work, "base-" + m["cfg"].replace(".cfg", ""), m.get("renames"))
        r = run_tlc(d, m["module"], m["cfg"], workers=m.get("workers", NCPU), heap=m.get("heap", "12g"),
                    timeout=m.get("timeout", 900), extra=m.get("extra"))
        ok = "Model checking completed. No error has been found." in r["out"]
        violated = ("is violated" in r["out"]) or ("was violated" in r["out"]) or ("Temporal properties were violated" in r["out"])
        exp = m.get("expect", "ok")
        if exp == "ok" and not ok:
            raise Machinery("base model %s/%s did not pass:\n%s" % (m["module"], m["cfg"], tlc_error_summary(r["out"]) or r["out"][-2000:]))
        if exp == "violation" and not violated:
            raise Machinery("base model variant %s/%s was expected to violate its invariant but did not (vacuity guard):\n%s" % (m["module"], m["cfg"], r["out"][-400:]))
        if exp == "ok" and r["distinct"] < 1:
            raise Machinery("could not read state counts from TLC output for %s/%s" % (m["module"], m["cfg"]))
        log("base %s/%s: %s, %d generated / %d distinct, depth %d, %.1fs" % (m["module"], m["cfg"], exp, r["generated"], r["distinct"], r["depth"], r["wall"]))
        rec = dict(module=m["module"], cfg=m["cfg"], expect=exp, generated=r["generated"], distinct=r["distinct"],
                   depth=r["depth"], wall_s=round(r["wall"], 1), note=m.get("note", ""))
        if exp == "violation":
            # the counter-example as a sequence of action arguments, e.g. <Declare(22) line ...> -> 22
            rec["counterexample_actions"] = [int(x) for x in re.findall(r"^State \d+: <\w+\((\d+)\) line", r["out"], re.M)]
        res.append(rec)
    return res


def run_vdrive(binary, family, outdir, tier, seed, args=None, replay=None, timeout=3000, chunk=None, env_extra=None):
    cmd = [binary, family, "-out", outdir, "-tier", tier, "-seed", str(seed)]
    if chunk:
        cmd += ["-chunk", str(chunk)]
    for k, v in (args or {}).items():
        cmd += ["-arg", "%s=%s" % (k, v)]
    if replay:
        cmd += ["-replay", replay]
    t0 = time.time()
    env = goenv()
    if env_extra:
        env.update(env_extra)
    jp = os.path.join(outdir, "journal.txt")
    env["VERIF_JOURNAL"] = jp

    def inflight():
        started, done = [], set()
        if os.path.exists(jp):
            for l in open(jp):
                tag, _, key = l.rstrip("\n").partition(" ")
                if tag == "S":
                    started.append(key)
                elif tag == "D":
                    done.add(key)
        return [k for k in started if k not in done]
    try:
        p = subprocess.run(cmd, capture_output=True, text=True, timeout=timeout, env=env)
    except subprocess.TimeoutExpired:
        raise DriverCrash("vdrive %s timed out after %ds" % (family, timeout), inflight())
    if p.returncode != 0:
        raise DriverCrash("vdrive %s failed (rc=%d):\n%s" % (family, p.returncode, (p.stdout + p.stderr)[-3000:]), inflight())
    meta = json.load(open(os.path.join(outdir, "meta.json")))
    log("vdrive %s: %d traces, %d events, %d chunks, %.1fs" % (family, meta["traces"], meta["events"], meta["chunks"], time.time() - t0))
    return meta


def _validate_chunk(work, trace_module, trace_cfg, chunk_path, idx, heap, timeout, env_extra=None, workers=1, renames=None):
    d = _specdir(work, "val-%s-%04d" % (trace_module, idx), renames)
    shutil.copyfile(chunk_path, os.path.join(d, "trace.ndjson"))
    r = run_tlc(d, trace_module, trace_cfg, workers=workers, heap=heap, timeout=timeout, env_extra=env_extra)
    viols, end, infos = [], None, []
    for t in tlaval.extract_tuples(r["out"]):
        if t[0] == "VIOL" and len(t) >= 6:
            viols.append(dict(tid=t[1], i=t[2], prop=t[3], aspect=t[4], detail=json.dumps(t[5], sort_keys=True)))
        elif t[0] == "TRACE-END":
            end = (t[1], t[2])
        elif t[0] == "INFO":
            infos.append((t[1], t[2:]))
        elif t[0] == "UNPARSED":
            raise Machinery("could not parse TLC output tuple: %s" % t[1][:300])
    shutil.rmtree(d, ignore_errors=True)
    if end is None:
        raise Machinery("TLC did not finish trace validation of %s (chunk %d):\n%s" % (trace_module, idx, tlc_error_summary(r["out"]) or r["out"][-2500:]))
    return dict(viols=viols, end=end, infos=infos, states=r["distinct"], wall=r["wall"], out=r["out"])


def validate(work, trace_module, trace_cfg, outdir, heap="3g", timeout=1200, parallel=None, env_extra=None, linear=True, renames=None):
    """Validates every chunk in outdir with TLC (one process per chunk, in parallel).
    Returns dict(viols=[...], events, accepted_events, infos, wall)."""
    chunks = sorted(f for f in os.listdir(outdir) if f.startswith("chunk_") and f.endswith(".ndjson"))
    if not chunks:
        raise Machinery("driver produced no trace chunks")
    t0 = time.time()
    par = parallel or max(1, min(len(chunks), NCPU // 2))
    results = []
    with cf.ThreadPoolExecutor(max_workers=par) as ex:
        futs = [ex.submit(_validate_chunk, work, trace_module, trace_cfg, os.path.join(outdir, c), i, heap, timeout, env_extra, 1, renames) for i, c in enumerate(chunks)]
        for f in futs:
            results.append(f.result())
    viols, infos, events, states = [], [], 0, 0
    for r in results:
        diam, n = r["end"]
        if linear and diam != n + 1:
            raise Machinery("trace spec %s consumed %d of %d lines (TLC stopped early):\n%s" % (trace_module, diam - 1, n, tlc_error_summary(r["out"])))
        events += n
        states += r["states"]
        viols += r["viols"]
        infos += r["infos"]
    # de-duplicate (TLC may evaluate an action more than once)
    seen, uniq = set(), []
    for v in viols:
        k = (v["tid"], v["i"], v["prop"], v["aspect"], v["detail"])
        if k not in seen:
            seen.add(k)
            uniq.append(v)
    log("validated %d events in %d chunk(s) with %s: %d violation line(s), %.1fs" % (events, len(chunks), trace_module, len(uniq), time.time() - t0))
    return dict(viols=uniq, events=events, infos=infos, states=states, wall=time.time() - t0, chunks=len(chunks))


def load_inputs(outdir, tids=None):
    res = {}
    with open(os.path.join(outdir, "inputs.ndjson")) as f:
        for line in f:
            o = json.loads(line)
            if tids is None or o["tid"] in tids:
                res[o["tid"]] = o["input"]
    return res


def load_known():
    """KNOWN_FINDINGS.txt -> list of dict(kind, property, id, classifier, params, text)."""
    p = os.path.join(VERIF, "KNOWN_FINDINGS.txt")
    res = []
    if not os.path.exists(p):
        return res
    for line in open(p):
        line = line.strip()
        if not line or line.startswith("#"):
            continue
        kind, _, rest = line.partition(":")
        kind = kind.strip()
        if kind != "finding":
            continue
        fields = dict(re.findall(r"(\w+)=(\S+)", rest))
        what = rest.split(" what=", 1)[1].strip() if " what=" in rest else ""
        res.append(dict(kind=kind, property=fields.get("property"), id=fields.get("id"), classifier=fields.get("classifier"),
                        param=fields.get("param", ""), what=what))
    return res


def write_evidence(pid, tier, seed, level, coverage, assumptions, wall, violations):
    os.makedirs(EVID, exist_ok=True)
    ev = dict(property_id=pid, tier=tier, seed=int(seed), level=level, coverage=coverage, assumptions=assumptions,
              wall_s=round(wall, 2), violations=int(violations))
    p = os.path.join(EVID, pid + ".json")
    with open(p + ".tmp", "w") as f:
        json.dump(ev, f, indent=1, sort_keys=True)
    os.replace(p + ".tmp", p)
    return p


def write_replay(pid, n, payload):
    d = os.path.join(EVID, "replays")
    os.makedirs(d, exist_ok=True)
    p = os.path.join(d, "%s-%s.json" % (pid, n))
    with open(p, "w") as f:
        json.dump(payload, f, indent=1, sort_keys=True)
    return p
