module verifharness

go 1.25

toolchain go1.25.0

require (
	github.com/coder/websocket v1.8.12
	oss.terrastruct.com/d2 v0.0.0
	oss.terrastruct.com/util-go v0.0.0-20250213174338-243d8661088a
)

require (
	github.com/PuerkitoBio/goquery v1.10.0 // indirect
	github.com/alecthomas/chroma/v2 v2.14.0 // indirect
	github.com/andybalholm/brotli v1.2.0 // indirect
	github.com/andybalholm/cascadia v1.3.2 // indirect
	github.com/deckarep/golang-set/v2 v2.7.0 // indirect
	github.com/dlclark/regexp2 v1.11.4 // indirect
	github.com/dop251/goja v0.0.0-20240927123429-241b342198c2 // indirect
	github.com/dsoprea/go-exif/v3 v3.0.1 // indirect
	github.com/dsoprea/go-logging v0.0.0-20200710184922-b02d349568dd // indirect
	github.com/dsoprea/go-png-image-structure/v2 v2.0.0-20210512210324-29b889a6093d // indirect
	github.com/dsoprea/go-utility/v2 v2.0.0-20221003172846-a3e1774ef349 // indirect
	github.com/ericpauley/go-quantize v0.0.0-20200331213906-ae555eb2afa4 // indirect
	github.com/fsnotify/fsnotify v1.7.1-0.20240403050945-7086bea086b7 // indirect
	github.com/go-errors/errors v1.5.1 // indirect
	github.com/go-jose/go-jose/v3 v3.0.4 // indirect
	github.com/go-sourcemap/sourcemap v2.1.4+incompatible // indirect
	github.com/go-stack/stack v1.8.1 // indirect
	github.com/golang/freetype v0.0.0-20170609003504-e2365dfdc4a0 // indirect
	github.com/golang/geo v0.0.0-20230421003525-6adc56603217 // indirect
	github.com/google/pprof v0.0.0-20240927180334-d43a67379298 // indirect
	github.com/jung-kurt/gofpdf v1.16.2 // indirect
	github.com/lucasb-eyer/go-colorful v1.2.0 // indirect
	github.com/mazznoer/csscolorparser v0.1.5 // indirect
	github.com/pkg/browser v0.0.0-20240102092130-5ac0b6a4141c // indirect
	github.com/playwright-community/playwright-go v0.5200.0 // indirect
	github.com/rivo/uniseg v0.4.7 // indirect
	github.com/spf13/pflag v1.0.5 // indirect
	github.com/yuin/goldmark v1.7.4 // indirect
	go.uber.org/multierr v1.11.0 // indirect
	golang.org/x/exp v0.0.0-20240909161429-701f63a606c0 // indirect
	golang.org/x/image v0.20.0 // indirect
	golang.org/x/net v0.35.0 // indirect
	golang.org/x/sync v0.11.0 // indirect
	golang.org/x/sys v0.30.0 // indirect
	golang.org/x/term v0.29.0 // indirect
	golang.org/x/text v0.22.0 // indirect
	golang.org/x/xerrors v0.0.0-20240903120638-7835f813f4da // indirect
	gopkg.in/yaml.v2 v2.4.0 // indirect
)

replace oss.terrastruct.com/d2 => /tmp/wt-mut-C29-3065
