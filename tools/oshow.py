#!/usr/bin/env python3
# development aid: tools/oshow.py '<oracle input json>' [boards]  -> prints the program and every edit with the text after it
import json, subprocess, sys, os, tempfile, glob
inp = sys.argv[1]
d = tempfile.mkdtemp(prefix="oshow-", dir="/verif/.work")
open(d + "/in.json", "w").write(inp)
env = dict(os.environ, GOFLAGS="-mod=mod", GOPROXY="off", VERIF_FULLTEXT="1")
subprocess.run(["go", "build", "-tags", "verif", "-o", d + "/vdrive", "./cmd/vdrive"], cwd="/verif/harness", env=env, check=True)
subprocess.run([d + "/vdrive", "oracle", "-out", d + "/o", "-tier", "quick", "-seed", "1", "-replay", d + "/in.json"], check=True, capture_output=True, env=env)
for f in glob.glob(d + "/o/chunk_*.ndjson"):
    for l in open(f):
        e = json.loads(l)
        if e.get("ev") == "init":
            print("=== program\n" + e["text"])
        elif e.get("ev") == "edit":
            print("=== %s board=%s key=%r arg=%r arg2=%r flag=%s target=%s ok=%s err=%s newKey=%r" % (e["op"], e["board"], e["key"], e["arg"], e["arg2"], e["flag"], e["target"], e["ok"], e["err"][:200], e["newKey"]))
            if e.get("hasDeltas"): print("    deltas:", e["deltas"])
            if e.get("ok"): print(e.get("text", ""))
import shutil; shutil.rmtree(d)
