#!/bin/bash
# Regenerates specs/svg_vocab.json: the element and attribute names the renderer emits for the
# marker-free twin diagrams (modes render-plain, render2-plain and render3-plain) of the fixed render space. Run on the unchanged tree.
set -e
cd /verif
OUT=$(mktemp -d /tmp/vocab.XXXX)
.build/vdrive pipe -tier thorough -out $OUT -arg modes=render-plain,render2-plain,render3-plain -arg stages=layout,render -arg space=600 -arg engines=dagre > /dev/null
python3 - "$OUT" <<'PY'
import json,glob,sys
el=set(); at=set()
for f in glob.glob(sys.argv[1]+'/chunk_*.ndjson'):
    for l in open(f):
        e=json.loads(l)
        if e['ev']=='render' and e['ok']:
            el|=set(e['elems']); at|=set(e['attrs'])
json.dump({"elems":sorted(el),"attrs":sorted(at)},open('/verif/specs/svg_vocab.json','w'),indent=0)
print(len(el),'elements',len(at),'attributes')
PY
rm -rf $OUT
