#!/usr/bin/env python3
# prints the markdown tables of DESIGN.md part I from the registry, KNOWN_FINDINGS.txt and seeded/*/meta.json
import json, os, sys, glob, re
sys.path.insert(0, '/verif/lib')
import registry
props = {json.loads(l)['id']: json.loads(l) for l in open('/verif/properties.jsonl')}
kf = open('/verif/KNOWN_FINDINGS.txt').read().split('\n')
print('| id | property | family / trace module | base model checked by TLC | level | known findings | repairs |')
print('|---|---|---|---|---|---|---|')
for pid in sorted(props):
    P = registry.PROPS.get(pid)
    if not P:
        print('| %s | %s | not applicable | | | | |' % (pid, props[pid]['title'][:70])); continue
    fam = registry.FAMILIES[P['family']]
    base = ', '.join(sorted({m['module'] + '/' + m['cfg'].replace('.cfg','') for m in (P.get('base') or {}).get('thorough', [])})) or '-'
    finds = [re.search(r'id=(\S+)', l).group(1) for l in kf if l.startswith('finding: property=%s ' % pid)]
    fixes = [l.split()[2] for l in kf if l.startswith('fixed: property=%s ' % pid)]
    print('| %s | %s | %s / %s | %s | %s | %s | %s |' % (pid, props[pid]['title'][:70], P['family'], fam['trace_module'], base, P['level'], ' '.join(finds) or '-', ' '.join(fixes) or '-'))
