#!/usr/bin/env python3
# Runs the repository's pinned test suite (guard OFF: no -tags verif) and compares the passing set
# with /root/.vp/BASELINE.json stable_pass. Exit 0 iff every stable_pass test passes.
# usage: tools/baseline.py [pkg-pattern ...]   (default ./...)
import json, subprocess, sys, os
b = json.load(open('/root/.vp/BASELINE.json'))
stable = set(b['stable_pass'])
pk = sys.argv[1:] or ['./...']
env = dict(os.environ, GOFLAGS='-mod=mod', GOPROXY='off')
p = subprocess.Popen(['go', 'test', '-json', '-vet=off', '-count=1', '-timeout', '25m'] + pk, cwd=os.environ.get('VERIF_BASELINE_REPO','/repo'), env=env, stdout=subprocess.PIPE, stderr=subprocess.DEVNULL, text=True)
passed, failed, pkgs = set(), set(), set()
for line in p.stdout:
    try:
        o = json.loads(line)
    except Exception:
        continue
    if o.get('Test') and o.get('Action') in ('pass', 'fail'):
        k = o['Package'] + '::' + o['Test']
        (passed if o['Action'] == 'pass' else failed).add(k)
    if o.get('Package'):
        pkgs.add(o['Package'])
p.wait()
scope = {s for s in stable if s.split('::')[0] in pkgs}
missing = sorted(scope - passed)
print('packages run: %d; stable tests in scope: %d; passed of those: %d; missing/failing: %d; failing tests not in baseline: %d' % (
    len(pkgs), len(scope), len(scope & passed), len(missing), len(failed - stable)))
for m in missing[:40]:
    print('  NOT PASSING:', m)
sys.exit(1 if missing else 0)
