#!/bin/bash
# usage: tools/trymut.sh <patch.diff> <check id> [tier]  -- applies the patch to /repo, runs the check, reverts.
set -u
P=$1; ID=$2; TIER=${3:-quick}
cd /repo || exit 2
if ! git diff --quiet; then echo "/repo has uncommitted changes; refusing"; exit 2; fi
git apply "$P" || { echo "patch does not apply"; exit 2; }
(cd /verif && ./check "$ID" "$TIER" 2>&1 | grep -E "VIOLATION|KNOWN-FINDING|MACHINERY|held on|MODEL-DRIFT|violation:" | cut -c1-400; echo "rc=${PIPESTATUS[0]}")
git -C /repo checkout -- . 
