#!/usr/bin/env python3
# development aid: tools/ddmin.py <file.d2> <regex on the CLI's output> [timeout-seconds]
# line-wise, then character-wise reduction of a d2 input that makes `d2 file out.svg` print the pattern (or time out with "TIMEOUT")
import re, subprocess, sys, tempfile, os
src = open(sys.argv[1]).read(); pat = re.compile(sys.argv[2]); to = int(sys.argv[3]) if len(sys.argv) > 3 else 20
d = tempfile.mkdtemp(prefix="ddmin-", dir="/verif/.work")
def bad(t):
    open(d + "/t.d2", "w").write(t)
    try:
        r = subprocess.run([os.environ.get("DDBIN", "/tmp/d2bin"), d + "/t.d2", d + "/t.svg"], capture_output=True, text=True, timeout=to)
        out = r.stdout + r.stderr
    except subprocess.TimeoutExpired:
        out = "TIMEOUT"
    return bool(pat.search(out))
assert bad(src), "input does not show the pattern"
def reduce(units, join):
    i = 0
    while i < len(units):
        cand = units[:i] + units[i + 1:]
        if bad(join(cand)): units = cand
        else: i += 1
    return units
lines = reduce(src.split("\n"), "\n".join)
t = "\n".join(lines)
chars = reduce(list(t), "".join) if len(t) < 400 else list(t)
print("".join(chars))
import shutil; shutil.rmtree(d)
