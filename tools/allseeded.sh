#!/bin/bash
# usage: tools/allseeded.sh [jobs]   runs every seeded change against its property's quick check (on scratch worktrees),
# and the thorough check when quick does not catch it; one line per change in /verif/.work/allseeded.log
jobs=${1:-3}
cd /verif
one() {
  d=$1; id=$(basename $d); pid=${id%-*}
  if ! git -C /repo apply --check $d/patch.diff 2>/dev/null; then echo "$id DOES-NOT-APPLY"; return; fi
  q=$(tools/trymut2.sh $d/patch.diff $pid quick 2>&1 | tail -1)
  if [ "$q" = "rc=1" ]; then echo "$id caught-by-quick"; return; fi
  t=$(tools/trymut2.sh $d/patch.diff $pid thorough 2>&1 | tail -1)
  if [ "$t" = "rc=1" ]; then echo "$id caught-by-thorough (quick: $q)"; else echo "$id MISSED (quick: $q thorough: $t)"; fi
}
export -f one
ls -d /verif/seeded/*-${SEEDED_ROUND:-[a-z]} | xargs -P $jobs -I{} bash -c "one {}" | tee /verif/.work/allseeded.log
