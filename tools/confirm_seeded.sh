#!/bin/bash
# usage: tools/confirm_seeded.sh <seeded dir> [pkg ...]
# confirms a seeded change on a scratch worktree of /repo: builds, the demo fails with the patch and passes
# without it, and the listed packages' baseline tests still pass with the patch. The worktree is removed.
set -u
D=$1; shift
PK=${@:-./d2oracle/ ./d2compiler/ ./d2format/ ./d2ir/ ./d2parser/ ./d2graph/ ./d2lsp/ ./d2exporter/ ./d2ast/}
export GOFLAGS=-mod=mod GOPROXY=off
WT=/tmp/wt-confirm-$$
git -C /repo worktree add -q --detach $WT HEAD || exit 2
trap 'git -C /repo worktree remove --force '$WT' 2>/dev/null' EXIT
cd $WT
pkgdir=$(python3 -c "import json;print(json.load(open('$D/meta.json')).get('demo_package_dir',''))")
demo=$(ls $D/*_test.go 2>/dev/null | head -1)
if [ -n "$demo" ] && [ -n "$pkgdir" ]; then
  cp $demo $WT/$pkgdir/zz_seeded_demo_test.go
  go test -vet=off -count=1 -run 'Seeded' ./$pkgdir/ > /tmp/confirm_un.$$.log 2>&1; echo "demo on unchanged tree: rc=$? (want 0)"
fi
git apply $D/patch.diff || { echo "patch does not apply"; exit 2; }
go build ./... || { echo "BUILD FAILS"; exit 1; }
if [ -n "$demo" ] && [ -n "$pkgdir" ]; then
  go test -vet=off -count=1 -run 'Seeded' ./$pkgdir/ > /tmp/confirm_p.$$.log 2>&1; echo "demo with patch: rc=$? (want 1)"; grep -m3 -E "^\s+\S+_test.go:[0-9]+:" /tmp/confirm_p.$$.log | cut -c1-300
  rm -f $WT/$pkgdir/zz_seeded_demo_test.go
fi
VERIF_BASELINE_REPO=$WT python3 /verif/tools/baseline.py $PK 2>&1 | tail -4
rm -f /tmp/confirm_un.$$.log /tmp/confirm_p.$$.log
