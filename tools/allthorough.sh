#!/bin/bash
# usage: tools/allthorough.sh <seed> [jobs]   runs every claimed property's quick check with VERIF_SEED=<seed>
# and prints one line per property: id exit seconds; logs under /verif/.work/allthorough-<seed>/
seed=${1:-1}; jobs=${2:-4}
cd /verif
out=.work/allthorough-$seed; mkdir -p $out
ids=$(python3 -c "import json;print(' '.join(c['property_id'] for c in json.load(open('MANIFEST.json'))['checks']))")
run1() { id=$1; s=$(date +%s); VERIF_SEED=$2 VERIF_TIER=thorough ./check $id thorough > $3/$id.log 2>&1; rc=$?; echo "$id exit=$rc $(( $(date +%s) - s ))s viol=$(grep -c '^VIOLATION' $3/$id.log)"; }
export -f run1
printf '%s\n' $ids | xargs -P $jobs -I{} bash -c "run1 {} $seed $out"
