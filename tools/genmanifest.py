#!/usr/bin/env python3
# Regenerates /verif/MANIFEST.json from lib/registry.py (single source of truth).
import json, os, sys
sys.path.insert(0, os.path.join(os.path.dirname(os.path.abspath(__file__)), "..", "lib"))
import registry

V = os.path.join(os.path.dirname(os.path.abspath(__file__)), "..")
props = [json.loads(l) for l in open(os.path.join(V, "properties.jsonl"))]
ids = [p["id"] for p in props]
checks = []
for pid in ids:
    P = registry.PROPS.get(pid)
    if not P or P.get("disabled"):
        continue
    fam = registry.FAMILIES[P["family"]]
    checks.append(dict(
        property_id=pid,
        quick_cmd="./check %s quick" % pid,
        thorough_cmd="./check %s thorough" % pid,
        evidence_file="/verif/evidence/%s.json" % pid,
        replay_cmd_template="./check %s --replay {path}" % pid,
        engine=fam.get("engine", fam["trace_module"]),
        level_claimed=dict(category=P["level"], text=P["text"], design_ref="DESIGN.md section " + P.get("design_ref", "")),
        level_note=P["note"],
        technique=P["technique"]))
na = []
for pid in ids:
    if pid in registry.PROPS and not registry.PROPS[pid].get("disabled"):
        continue
    reason = registry.NOT_APPLICABLE.get(pid)
    if not reason:
        reason = "not claimed yet: the check for this property has not been built or is not yet sound on the unchanged tree (see DESIGN.md status table)"
    na.append(dict(property_id=pid, reason=reason))
engines = []
for name, e in sorted(registry.ENGINES.items()):
    engines.append(dict(name=name, path=e["path"], serves_properties=sorted(p for p in ids if p in registry.PROPS and not registry.PROPS[p].get("disabled") and name in registry.PROPS[p].get("engines", [registry.FAMILIES[registry.PROPS[p]["family"]].get("engine", "")])), kind_free_text=e["kind"]))
m = dict(
    version=1,
    setup_cmd="./check --setup",
    hooks=dict(guard="verif", enable="go build -tags verif (the harness in /verif/harness builds /repo's packages with this tag)",
               baseline_off_cmd="cd /repo && go test -json -vet=off -count=1 -timeout 25m ./...",
               source_commits=registry.HOOK_COMMITS, add_only=True),
    engines=engines,
    checks=checks,
    notes="Model-based verification with explicit TLA+ specifications (specs/*.tla) checked by TLC; implementation traces recorded by harness/cmd/vdrive from /repo's working tree are validated by TLC against Trace*.tla. Exit 0 held / 1 VIOLATION / 2 machinery problem. Known findings: KNOWN_FINDINGS.txt.",
    not_applicable=na)
json.dump(m, open(os.path.join(V, "MANIFEST.json"), "w"), indent=1)
print("checks:", len(checks), "not_applicable:", len(na))
