#!/bin/bash
# usage: tools/trymut2.sh <patch.diff> <check id> [tier]
# like trymut.sh but on a scratch worktree of /repo (so /repo stays free): /tmp/wt-mut-<id>, removed afterwards.
set -u
P=$1; ID=$2; TIER=${3:-quick}
WT=/tmp/wt-mut-$ID-$$
git -C /repo worktree add -q --detach $WT HEAD || exit 2
trap 'git -C /repo worktree remove --force '$WT' 2>/dev/null; rm -rf /verif/.build-_tmp_wt_mut_'$ID'_'$$' ' EXIT
git -C $WT apply "$P" || { echo "patch does not apply"; exit 2; }
(cd /verif && VERIF_REPO=$WT ./check "$ID" "$TIER" 2>&1 | grep -E "VIOLATION|KNOWN-FINDING|MACHINERY|held on|violation:" | grep -v KNOWN-FINDING | cut -c1-300; echo "rc=${PIPESTATUS[0]}")
