#!/bin/bash
# usage: tools/allquick.sh <seed> [jobs]   runs every claimed property's quick check with VERIF_SEED=<seed>
# and prints one line per property: id exit seconds; logs under /verif/.work/allquick-<seed>/
seed=${1:-1}; jobs=${2:-4}
cd /verif
out=.work/allquick-$seed; mkdir -p $out
ids=$(python3 -c "import json;print(' '.join(c['property_id'] for c in json.load(open('MANIFEST.json'))['checks']))")
run1() { id=$1; s=$(date +%s); VERIF_SEED=$2 VERIF_TIER=quick ./check $id quick > $3/$id.log 2>&1; rc=$?; echo "$id exit=$rc $(( $(date +%s) - s ))s viol=$(grep -c '^VIOLATION' $3/$id.log)"; }
export -f run1
printf '%s\n' $ids | xargs -P $jobs -I{} bash -c "run1 {} $seed $out"
