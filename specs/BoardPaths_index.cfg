SPECIFICATION Spec
CONSTANTS Names = {"a", "index", "layers", "a.b", "a/b", "..", "../x"} Rule = "escaped" MaxBoards = 3 MaxDepth = 2
INVARIANTS OneFilePerBoard
CHECK_DEADLOCK FALSE
