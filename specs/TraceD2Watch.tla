---------------------------- MODULE TraceD2Watch ----------------------------
(* Validates traces of the real watch server (family "watch": verif hooks of d2cli/watch.go plus what
   each websocket client of the harness really received) against D2Watch.

   The whole D2Watch state is kept in one record s; D2Watch is instantiated over its fields, so
     - every step that the code performs atomically under a mutex (Admit, AcceptFail, AcceptOK, Register,
       Unregister, Done, SetRes, Notify, CloseBegin, CloseCancel, CloseWait) is checked to BE the
       corresponding D2Watch action (W!Action evaluated on <<s, s'>>), and
     - D2Watch's state invariants (WgCounts, ClosedMeansAllFinished, TypeOK) are evaluated at every step.
   Steps that cannot be logged atomically (channel receives, the file read, the file change, the
   client's getRes) are announced after the fact; for those the monitor checks the interval facts the
   properties need (a compile never reads content older than what was committed when it was taken; a
   client never gets a result older than the one stored when it asked; ...).
   Findings are printed as <<"VIOL", tid, line, property, aspect, detail>>; property "DRIFT" marks a
   step the model does not allow although no listed property is affected (reported, never a verdict). *)
EXTENDS Integers, Sequences, FiniteSets, Json, TLC
VARIABLES l, tid, s, x
Trace == ndJsonDeserialize("trace.ndjson")
Clients == 1..12

W == INSTANCE D2Watch WITH
       Clients <- Clients, MaxVer <- 9999, NotifyFirst <- FALSE, WithShutdown <- TRUE,
       fileVer <- s.fileVer, evPending <- s.evPending, timerArmed <- s.timerArmed, wlExited <- s.wlExited,
       compileCh <- s.compileCh, cl <- s.cl, reading <- s.reading, lastRead <- s.lastRead, res <- s.res,
       closing <- s.closing, cancelled <- s.cancelled, closed <- s.closed, closer <- s.closer, wg <- s.wg,
       registered <- s.registered, pc <- s.pc, wake <- s.wake, got <- s.got, recv <- s.recv, gone <- s.gone

Chk(c, prop, aspect, detail) == IF c THEN TRUE ELSE PrintT(<<"VIOL", tid, (IF "i" \in DOMAIN Trace[l] THEN Trace[l].i ELSE 0), prop, aspect, detail>>)
Last(q) == q[Len(q)]
IsPrefixSeq(a, b) == Len(a) <= Len(b) /\ \A k \in 1..Len(a) : a[k] = b[k]

S0 == [fileVer |-> 1, evPending |-> FALSE, timerArmed |-> FALSE, wlExited |-> FALSE,
       compileCh |-> TRUE, cl |-> "idle", reading |-> 0, lastRead |-> 0, res |-> 0,
       closing |-> FALSE, cancelled |-> FALSE, closed |-> FALSE, closer |-> "idle", wg |-> 0,
       registered |-> {}, pc |-> [c \in Clients |-> "new"], wake |-> [c \in Clients |-> FALSE],
       got |-> [c \in Clients |-> 0], recv |-> [c \in Clients |-> <<>>], gone |-> [c \in Clients |-> FALSE]]
\* monitor-only state: interval bounds and harness-side observations
X0 == [startedVer |-> 1, committedVer |-> 1, floorAtTake |-> 1, resAtBegin |-> [c \in Clients |-> 0],
       woken |-> {}, seen |-> [c \in Clients |-> <<>>], tried |-> [c \in Clients |-> <<>>], shutting |-> FALSE, sawClosed |-> FALSE,
       \* channel contents, exact in spite of late receive announcements: sends that succeeded minus receives announced
       reqTok |-> 1, wakeTok |-> [c \in Clients |-> 0]]

Init == l = 1 /\ tid = 0 /\ s = S0 /\ x = X0

\* a handler of client c acts: never after close() has returned (C45)
Handler(c) == Chk(~s.closed, "C45", "handler-active-after-close-returned", c)

Step(e) ==
  CASE e.ev = "reset" -> tid' = e.tid /\ s' = S0 /\ x' = X0
  \* ------------------------------------------------------------------ harness side
    [] e.ev = "dial" -> UNCHANGED <<tid, s, x>>
    [] e.ev \in {"dial-failed", "conn-closed"} -> UNCHANGED <<tid, s, x>>
    [] e.ev = "hangup" -> s' = [s EXCEPT !.gone[e.c] = TRUE] /\ UNCHANGED <<tid, x>>
    \* the fsnotify event of a change may be announced before or after change-end: pending from begin on
    [] e.ev = "change-begin" -> x' = [x EXCEPT !.startedVer = e.v] /\ s' = [s EXCEPT !.evPending = TRUE] /\ UNCHANGED tid
    [] e.ev = "change-end" -> /\ x' = [x EXCEPT !.committedVer = e.v]
                              /\ s' = [s EXCEPT !.fileVer = e.v, !.evPending = TRUE]
                              /\ UNCHANGED tid
    [] e.ev = "recv" ->
         /\ Chk(Len(x.seen[e.c]) = 0 \/ e.v >= Last(x.seen[e.c]), "C44", "client-received-older-result-after-newer", <<e.c, x.seen[e.c], e.v>>)
         /\ x' = [x EXCEPT !.seen[e.c] = Append(@, e.v)] /\ UNCHANGED <<tid, s>>
    [] e.ev = "quiesce" ->
         /\ Chk(e.settled = 1, "C44", "latest-result-not-delivered-to-every-client-within-bound", <<e.v, [k \in 1..Len(e.live) |-> x.seen[e.live[k]]]>>)
         /\ Chk(s.res = e.v, "C44", "last-compile-did-not-use-latest-content", <<s.res, e.v>>)
         /\ UNCHANGED <<tid, s, x>>
    [] e.ev = "shutdown" -> x' = [x EXCEPT !.shutting = TRUE] /\ UNCHANGED <<tid, s>>
    [] e.ev = "run-returned" ->
         /\ Chk(e.returned = 1, "C45", "shutdown-did-not-return", e)
         /\ Chk(e.panicked = 0, "C45", "watch-server-crashed", e)
         /\ Chk(e.handlersAlive = 0, "C45", "client-handler-alive-after-shutdown-returned", e.handlersAlive)
         /\ Chk(e.connsClosed = 1, "C45", "client-connection-left-open-after-shutdown", e)
         /\ Chk(e.returned = 1 => x.sawClosed, "DRIFT", "run-returned-without-closed-event", e)
         \* a write that returned an error (the context was cancelled while it was in flight) may still have reached the
         \* client: what a client saw is a prefix of what the server tried to write, not only of what it knows it wrote
         /\ Chk(\A c \in Clients : IsPrefixSeq(x.seen[c], x.tried[c]), "C44", "client-received-something-the-server-did-not-write",
                [c \in {d \in Clients : x.seen[d] # <<>>} |-> <<x.seen[c], x.tried[c]>>])
         /\ UNCHANGED <<tid, s, x>>
  \* ------------------------------------------------------------------ watchLoop
    [] e.ev = "fsevent" -> s' = [s EXCEPT !.evPending = FALSE, !.timerArmed = TRUE] /\ UNCHANGED <<tid, x>>
    [] e.ev = "timer" -> s' = [s EXCEPT !.timerArmed = FALSE] /\ UNCHANGED <<tid, x>>
    [] e.ev = "poll" -> UNCHANGED <<tid, s, x>>
    [] e.ev = "request" -> /\ x' = [x EXCEPT !.reqTok = @ + e.sent]
                           /\ s' = [s EXCEPT !.compileCh = (x.reqTok + e.sent > 0)] /\ UNCHANGED tid
  \* ------------------------------------------------------------------ compileLoop
    [] e.ev = "take" -> /\ s' = [s EXCEPT !.compileCh = (x.reqTok - 1 > 0), !.cl = "taken"]
                        /\ x' = [x EXCEPT !.floorAtTake = x.committedVer, !.reqTok = @ - 1] /\ UNCHANGED tid
    [] e.ev = "loop-exit" -> s' = [s EXCEPT !.cl = "exited"] /\ UNCHANGED <<tid, x>>
    [] e.ev = "read" ->
         /\ Chk(x.floorAtTake <= e.v /\ e.v <= x.startedVer, "C44", "compile-read-content-older-than-committed-at-take", <<x.floorAtTake, e.v, x.startedVer>>)
         /\ s' = [s EXCEPT !.reading = e.v, !.lastRead = e.v, !.cl = "read"] /\ UNCHANGED <<tid, x>>
    [] e.ev = "setres" ->
         /\ Chk(x.shutting \/ e.v = s.reading, "C44", "stored-result-is-not-the-compile-just-made", <<e.v, s.reading>>)
         /\ Chk(x.shutting \/ e.v >= s.res, "C44", "results-stored-out-of-compile-order", <<s.res, e.v>>)
         /\ s' = [s EXCEPT !.res = IF x.shutting /\ e.v = 0 THEN s.res ELSE e.v, !.cl = "half"]
         /\ Chk(x.shutting \/ W!SetRes, "DRIFT", "setres-is-not-the-model-step", s.cl)
         /\ UNCHANGED <<tid, x>>
    [] e.ev = "wake" -> /\ s' = [s EXCEPT !.wake[e.c] = TRUE]
                        /\ x' = [x EXCEPT !.woken = @ \cup {e.c}, !.wakeTok[e.c] = @ + e.sent] /\ UNCHANGED tid
    [] e.ev = "notified" ->
         /\ Chk(x.woken = s.registered, "C44", "broadcast-did-not-notify-every-registered-client", <<x.woken, s.registered>>)
         /\ Chk(s.cl = "half", "DRIFT", "notify-before-result-stored", s.cl)
         /\ s' = [s EXCEPT !.cl = "idle"] /\ x' = [x EXCEPT !.woken = {}] /\ UNCHANGED tid
  \* ------------------------------------------------------------------ handleWatch / writeLoop
    [] e.ev = "admit" ->
         /\ Chk(~s.closing, "C45", "client-admitted-after-shutdown-began", e.c)
         /\ s' = [s EXCEPT !.pc[e.c] = "admitted", !.wg = @ + 1]
         /\ Chk(s.closing \/ W!Admit(e.c), "DRIFT", "admit-is-not-the-model-step", s.pc[e.c])
         /\ UNCHANGED <<tid, x>>
    [] e.ev = "reject" -> /\ s' = [s EXCEPT !.pc[e.c] = "rejected"]
                          /\ Chk(W!Admit(e.c), "DRIFT", "reject-is-not-the-model-step", s.closing) /\ UNCHANGED <<tid, x>>
    [] e.ev = "acceptfail" -> /\ s' = [s EXCEPT !.pc[e.c] = "failed", !.wg = @ - 1]
                              /\ Chk(W!AcceptFail(e.c), "DRIFT", "acceptfail-is-not-the-model-step", s.pc[e.c]) /\ UNCHANGED <<tid, x>>
    [] e.ev = "client" -> /\ Handler(e.c) /\ s' = [s EXCEPT !.pc[e.c] = "accepted"]
                          /\ Chk(W!AcceptOK(e.c), "DRIFT", "accept-is-not-the-model-step", s.pc[e.c]) /\ UNCHANGED <<tid, x>>
    [] e.ev = "register" -> /\ Handler(e.c) /\ s' = [s EXCEPT !.registered = @ \cup {e.c}, !.pc[e.c] = "loop"]
                            /\ Chk(W!Register(e.c), "DRIFT", "register-is-not-the-model-step", s.pc[e.c]) /\ UNCHANGED <<tid, x>>
    [] e.ev = "getres-begin" -> /\ Handler(e.c) /\ x' = [x EXCEPT !.resAtBegin[e.c] = s.res] /\ UNCHANGED <<tid, s>>
    [] e.ev = "getres-end" ->
         /\ Handler(e.c)
         /\ Chk(x.resAtBegin[e.c] <= e.v /\ e.v <= s.res, "C44", "client-read-a-result-that-was-not-current", <<x.resAtBegin[e.c], e.v, s.res>>)
         /\ s' = [s EXCEPT !.got[e.c] = e.v, !.pc[e.c] = IF e.v = 0 THEN "waiting" ELSE "writing"] /\ UNCHANGED <<tid, x>>
    [] e.ev = "write" ->
         /\ Handler(e.c)
         /\ Chk(e.v = s.got[e.c], "DRIFT", "wrote-a-result-other-than-the-one-read", <<e.v, s.got[e.c]>>)
         /\ IF e.ok = 1
            THEN /\ Chk(Len(s.recv[e.c]) = 0 \/ e.v >= Last(s.recv[e.c]), "C44", "older-result-written-after-newer", <<e.c, s.recv[e.c], e.v>>)
                 /\ s' = [s EXCEPT !.recv[e.c] = Append(@, e.v), !.pc[e.c] = "waiting"]
            ELSE s' = [s EXCEPT !.pc[e.c] = "exiting"]
         /\ x' = [x EXCEPT !.tried[e.c] = Append(@, e.v)] /\ UNCHANGED tid
    [] e.ev = "woke" -> /\ Handler(e.c) /\ s' = [s EXCEPT !.wake[e.c] = (x.wakeTok[e.c] - 1 > 0), !.pc[e.c] = "loop"]
                        /\ x' = [x EXCEPT !.wakeTok[e.c] = @ - 1] /\ UNCHANGED tid
    [] e.ev = "cancelled" -> /\ Handler(e.c) /\ s' = [s EXCEPT !.pc[e.c] = "exiting"] /\ UNCHANGED <<tid, x>>
    [] e.ev = "unregister" -> /\ Handler(e.c) /\ s' = [s EXCEPT !.registered = @ \ {e.c}, !.pc[e.c] = "unreg"]
                              /\ Chk(W!Unregister(e.c), "DRIFT", "unregister-is-not-the-model-step", s.pc[e.c]) /\ UNCHANGED <<tid, x>>
    [] e.ev = "done" -> /\ Chk(~s.closed, "C45", "handler-finished-after-close-returned", e.c)
                        /\ s' = [s EXCEPT !.wg = @ - 1, !.pc[e.c] = "done"]
                        /\ Chk(W!Done(e.c), "DRIFT", "done-is-not-the-model-step", s.pc[e.c]) /\ UNCHANGED <<tid, x>>
  \* ------------------------------------------------------------------ close()
    [] e.ev = "closing" -> /\ s' = [s EXCEPT !.closing = TRUE, !.closer = "begun"]
                           /\ Chk(W!CloseBegin, "DRIFT", "closing-is-not-the-model-step", s.closer) /\ UNCHANGED <<tid, x>>
    [] e.ev = "close-cancel" -> /\ s' = [s EXCEPT !.cancelled = TRUE, !.closer = "waiting"]
                                /\ Chk(W!CloseCancel, "DRIFT", "close-cancel-is-not-the-model-step", s.closer) /\ UNCHANGED <<tid, x>>
    [] e.ev = "closed" ->
         /\ Chk(s.wg = 0 /\ \A c \in Clients : s.pc[c] \in W!Finished, "C45", "close-returned-before-every-handler-finished",
                <<s.wg, {c \in Clients : s.pc[c] \notin W!Finished}>>)
         /\ s' = [s EXCEPT !.closed = TRUE, !.closer = "closed"] /\ x' = [x EXCEPT !.sawClosed = TRUE]
         /\ Chk(W!CloseWait, "DRIFT", "closed-is-not-the-model-step", <<s.closer, s.wg>>) /\ UNCHANGED tid
    [] e.ev = "close-noop" -> UNCHANGED <<tid, s, x>>
    [] OTHER -> Chk(FALSE, "MACHINERY", "unknown-event", e.ev) /\ UNCHANGED <<tid, s, x>>

\* D2Watch's own state invariants, evaluated on the replayed state after every step
Live(c) == ~s.gone[c]
Inv == /\ Chk(x.shutting \/ s.cancelled \/ s.cl # "idle" \/ \A c \in s.registered :
                (Live(c) /\ s.pc[c] = "waiting" /\ x.wakeTok[c] = 0) => (s.res = 0 \/ (Len(s.recv[c]) > 0 /\ Last(s.recv[c]) = s.res)),
              "C44", "broadcast-completed-but-a-waiting-client-was-not-sent-the-result", <<s.res, [c \in s.registered |-> <<s.pc[c], s.recv[c]>>]>>)
       /\ Chk(x.shutting \/ s.cancelled \/ W!CompiledWhenQuiet, "C44", "nothing-pending-but-stored-result-is-not-the-latest-content", <<s.res, s.fileVer>>)
       /\ Chk(x.reqTok \in 0..2 /\ \A c \in Clients : x.wakeTok[c] \in 0..2, "DRIFT", "channel-token-count-out-of-range", <<x.reqTok, x.wakeTok>>)
       /\ Chk(W!WgCounts, "DRIFT", "wg-does-not-count-the-active-handlers", <<s.wg, s.pc>>)
       /\ Chk(W!ClosedMeansAllFinished, "C45", "closed-while-a-handler-is-active", s.pc)

Next == /\ l <= Len(Trace) /\ l' = l + 1 /\ Step(Trace[l]) /\ (l > 1 => Inv)
Spec == Init /\ [][Next]_<<l, tid, s, x>>
Done == PrintT(<<"TRACE-END", TLCGet("stats").diameter, Len(Trace)>>)
=============================================================================
