SPECIFICATION TSpec
CONSTANTS MaxLen = 99 IndexRule = "stable" LabelRule = "code" AttrProp = "C12"
POSTCONDITION Done
CHECK_DEADLOCK FALSE
