----------------------------- MODULE TraceD2Links -----------------------------
(* Board links (family "links": C35).
   A board is its path from the root: <<kind1, name1, kind2, name2, ...>>.  A link written in board cur is a
   sequence of key segments.  Resolve gives the board it names: a leading "root" makes it absolute; each
   leading "_" climbs one board (as long as there is one to climb); the rest is appended.  The link is kept,
   as the absolute path, iff that board exists and is not cur itself; otherwise it is dropped.
   When the boards are written to files (File, the derivation of BoardPaths.tla restated over a given
   tree), a kept link becomes the path of the target's file relative to the directory of cur's file. *)
EXTENDS Integers, Sequences, FiniteSets, Json, TLC
VARIABLES l, tid
Trace == ndJsonDeserialize("trace.ndjson")
Chk(c, prop, aspect, detail) == IF c THEN TRUE ELSE PrintT(<<"VIOL", tid, (IF "i" \in DOMAIN Trace[l] THEN Trace[l].i ELSE 0), prop, aspect, detail>>)

Front(s) == SubSeq(s, 1, Len(s) - 1)
Last(s) == s[Len(s)]
Tail2(s) == SubSeq(s, 2, Len(s))

RECURSIVE Climb(_, _)
Climb(scope, toks) == IF toks # <<>> /\ toks[1] = "_" /\ Len(scope) >= 2 THEN Climb(SubSeq(scope, 1, Len(scope) - 2), Tail2(toks)) ELSE <<scope, toks>>
\* base: the board that the file the link is written in has become (<<>> for the main file; the importing board
\* for an imported file): "root" names the root of the file, i.e. that board
Target(cur, base, toks) ==
  IF toks # <<>> /\ toks[1] = "root" THEN base \o Tail2(toks)
  ELSE LET c == Climb(cur, toks) IN c[1] \o c[2]
Kept(T, cur, base, toks) == Target(cur, base, toks) \in T /\ Target(cur, base, toks) # cur

\* ---- files (BoardPaths.tla, rule "escaped", over an explicit tree T of flat paths)
Kids(T, p) == {q \in T : Len(q) = Len(p) + 2 /\ SubSeq(q, 1, Len(p)) = p}
KidKinds(T, p) == {q[Len(q) - 1] : q \in Kids(T, p)}
RECURSIVE Stem(_, _)
Stem(T, p) ==
  IF p = <<>> THEN <<"out">>
  ELSE LET par == SubSeq(p, 1, Len(p) - 2) k == p[Len(p) - 1]
           sub == IF KidKinds(T, par) \ {k} # {} THEN Append(Stem(T, par), k) ELSE Stem(T, par)
       IN Append(sub, Last(p))
File(T, p) == IF Kids(T, p) # {} THEN Append(Stem(T, p), "index") ELSE Stem(T, p)

RECURSIVE Common(_, _, _)
Common(a, b, k) == IF k <= Len(a) /\ k <= Len(b) /\ a[k] = b[k] THEN Common(a, b, k + 1) ELSE k - 1
Rel(dir, file) == LET c == Common(dir, file, 1) IN [i \in 1..(Len(dir) - c) |-> ".."] \o SubSeq(file, c + 1, Len(file))

Prog(e) ==
  LET T == {e.boards[i] : i \in 1..Len(e.boards)} IN
  /\ Chk(e.panic = 0, "C35", "compile-crashed", e.msg)
  /\ Chk(e.err = 0, "MACHINERY", "generated-board-tree-does-not-compile", <<e.msg, e.text>>)
  /\ (e.panic = 0 /\ e.err = 0) =>
       \A k \in 1..Len(e.links) : LET x == e.links[k] cur == e.boards[x.board] IN
         /\ Chk(Kept(T, cur, x.base, x.toks) => x.stored = <<"root">> \o Target(cur, x.base, x.toks), "C35",
                IF x.stored = <<>> THEN "link-to-an-existing-board-dropped" ELSE "stored-link-is-not-the-absolute-path-of-the-linked-board", <<cur, x.toks, x.stored, Target(cur, x.base, x.toks)>>)
         /\ Chk(~Kept(T, cur, x.base, x.toks) => x.stored = <<>>, "C35",
                IF Target(cur, x.base, x.toks) = cur THEN "link-to-the-board-itself-kept" ELSE "link-to-a-missing-board-kept", <<cur, x.toks, x.stored>>)
         /\ (e.cli = 1 /\ Len(e.boards) > 1) =>
              /\ Chk(x.file = File(T, cur), "C35", "board-written-to-another-file-than-derived", <<cur, x.file, File(T, cur)>>)
              /\ Kept(T, cur, x.base, x.toks) =>
                   Chk(x.href = Rel(Front(File(T, cur)), File(T, Target(cur, x.base, x.toks))), "C35", "link-not-rewritten-to-the-relative-path-of-the-linked-boards-file",
                       <<cur, x.toks, x.href, Rel(Front(File(T, cur)), File(T, Target(cur, x.base, x.toks)))>>)
              /\ ~Kept(T, cur, x.base, x.toks) => Chk(x.href = <<>>, "C35", IF Target(cur, x.base, x.toks) = cur THEN "link-to-the-board-itself-present-in-the-output" ELSE "dropped-link-present-in-the-output", <<cur, x.toks, x.href>>)

Init == l = 1 /\ tid = 0
Next ==
  /\ l <= Len(Trace) /\ l' = l + 1
  /\ LET e == Trace[l] IN
       CASE e.ev = "reset" -> tid' = e.tid
         [] e.ev = "prog"  -> Prog(e) /\ UNCHANGED tid
         [] OTHER -> Chk(FALSE, "MACHINERY", "unknown-event", e.ev) /\ UNCHANGED tid
Spec == Init /\ [][Next]_<<l, tid>>
Done == PrintT(<<"TRACE-END", TLCGet("stats").diameter, Len(Trace)>>)
=============================================================================
