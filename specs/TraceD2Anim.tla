---------------------------- MODULE TraceD2Anim ----------------------------
(* Validates the key frames printed by the real d2animate.Wrap (family "anim", property C33).
   One "anim" event per (n, T): boards[i] = the stops of board i-1 as exact integers
   (q = percent * 1e6; lo/hi = floor/ceil of the stop's time in microseconds; op = opacity*100).
   The same AnimOps operators as the design module D2Anim judge them. *)
EXTENDS AnimOps, Json, TLC
VARIABLES l, tid
Trace == ndJsonDeserialize("trace.ndjson")

\* IF (not \/): inside an action TLC would explore both disjuncts and print for true conditions too
Chk(c, prop, aspect, detail) == IF c THEN TRUE ELSE PrintT(<<"VIOL", tid, (IF "i" \in DOMAIN Trace[l] THEN Trace[l].i ELSE 0), prop, aspect, detail>>)

\* print resolution of the percentages (1e-6 percent of the cycle) plus floor/ceil slack, in us
Eps(e) == e.totalUs \div 100000000 + 2

AnimOK(e) ==
  LET n == e.n
      T == e.T
      E == [i \in 1..Len(e.boards) |-> Eff(e.boards[i])]
      \* sample instants of board j's steady interval [jT, (j+1)T - 1] ms, in us
      Lo(j) == j * T * 1000 + Eps(e)
      Hi(j) == ((j + 1) * T - 1) * 1000 - Eps(e)
      Samples(j) == IF Lo(j) <= Hi(j) THEN {Lo(j), (Lo(j) + Hi(j)) \div 2, Hi(j)} ELSE {}
  IN
  /\ Chk(Len(e.boards) = n /\ e.ids = [i \in 1..n |-> i - 1], "C33", "one-keyframe-set-per-board", <<n, Len(e.boards)>>)
  /\ Chk(Len(e.cycles) = n /\ \A i \in 1..Len(e.cycles) : e.cycles[i] = n * T, "C33", "cycle-length", e.cycles)
  /\ \A i \in 1..Len(e.boards) :
       /\ Chk(InRange(e.boards[i]), "C33", "percent-in-0-100", i - 1)
       /\ Chk(NonDecreasing(e.boards[i]), "C33", "percent-increasing", i - 1)
  /\ Len(e.boards) = n =>
       \A j \in 0..(n - 1) : \A t \in Samples(j) :
         /\ Chk(Full(E[j + 1], t), "C33", "board-visible-in-its-interval", <<j, t>>)
         /\ Chk(\A i \in 0..(n - 1) : i # j => ~Full(E[i + 1], t), "C33", "exactly-one-fully-visible", <<j, t>>)

Init == l = 1 /\ tid = 0
Next ==
  /\ l <= Len(Trace)
  /\ l' = l + 1
  /\ LET e == Trace[l] IN
       CASE e.ev = "reset" -> tid' = e.tid
         [] e.ev = "anim"  -> AnimOK(e) /\ UNCHANGED tid
         [] OTHER          -> Chk(FALSE, "MACHINERY", "unknown-event", e.ev) /\ UNCHANGED tid
Spec == Init /\ [][Next]_<<l, tid>>
Done == PrintT(<<"TRACE-END", TLCGet("stats").diameter, Len(Trace)>>)
=============================================================================
