SPECIFICATION TSpec
CONSTANTS MaxLen = 99 IndexRule = "stable" LabelRule = "code"
POSTCONDITION Done
CHECK_DEADLOCK FALSE
