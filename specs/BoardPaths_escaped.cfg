SPECIFICATION Spec
CONSTANTS Names = {"a", "layers", "a.b", "a/b", "..", "../x", "x/index"} Rule = "escaped" MaxBoards = 3 MaxDepth = 2
INVARIANTS OneFilePerBoard Contained NoLateDelete
CHECK_DEADLOCK FALSE
