---------------------------- MODULE TraceD2Quote ----------------------------
(* Quoting round trip and identifier well-formedness (family "quote": C05, C06).
   Strings are sequences of code points.  An "rt" event is one trip of a string s through the code that
   writes D2 syntax for it and the code that reads it back:
       via = "key"        Format(RawString(s, inKey)) -> ParseKey
       via = "value"      Format(RawString(s, value)) -> ParseValue
       via = "set-label"  d2oracle.Set(x, s) -> Format -> Compile -> label of x
       via = "create-key" d2oracle.Create(Format(RawString(s, inKey))) -> name of the created object
   The round trip is the identity on strings:  back = s, the value read back is a string (never a null,
   boolean, number-with-another-spelling or suspension marker), a key stays one segment.
   An "ids" event is a compiled board: IDs are a bijection between objects and name paths (C06). *)
EXTENDS Integers, Sequences, FiniteSets, Json, TLC
VARIABLES l, tid
Trace == ndJsonDeserialize("trace.ndjson")
Chk(c, prop, aspect, detail) == IF c THEN TRUE ELSE PrintT(<<"VIOL", tid, (IF "i" \in DOMAIN Trace[l] THEN Trace[l].i ELSE 0), prop, aspect, detail>>)

\* letter case: the only transformation the property tolerates nowhere
RoundTrip(e) ==
  /\ Chk(e.panic = 0, "C05", "writing-or-reading-back-crashed", <<e.via, e.s, e.msg>>)
  /\ (e.panic = 0 /\ e.applies = 1) =>
       /\ Chk(e.ok = 1, "C05", "generated-syntax-does-not-parse", <<e.via, e.s, e.text, e.msg>>)
       /\ e.ok = 1 =>
            /\ Chk(e.kind = "string" \/ (e.kind \in {"number", "boolean"} /\ e.back = e.s), "C05", "string-turned-into-another-kind-of-value", <<e.via, e.s, e.kind, e.text>>)
            /\ Chk(e.kind \notin {"null", "suspension"}, "C05", "string-turned-into-null-or-suspension", <<e.via, e.s, e.kind, e.text>>)
            /\ Chk(e.back = e.s, "C05", "string-read-back-differs", <<e.via, e.s, e.back, e.text>>)
            /\ (e.via = "key") => Chk(e.segments = 1, "C05", "key-segment-read-back-as-several-segments", <<e.s, e.segments, e.text>>)

Objs(e) == {e.objs[i] : i \in 1..Len(e.objs)}
IDs(e) ==
  /\ Chk(e.panic = 0, "C06", "compile-crashed", e.msg)
  /\ e.ok = 1 =>
       /\ \A i \in 1..Len(e.objs) : LET o == e.objs[i] IN
            /\ Chk(o.absParsed = o.names, "C06", "absolute-id-does-not-parse-back-to-the-name-path", <<o.abs, o.absParsed, o.names>>)
            /\ Chk(o.idParsed = <<o.name>>, "C06", "id-does-not-parse-back-to-the-name", <<o.abs, o.idParsed, o.name>>)
       /\ Chk(\A i, j \in 1..Len(e.objs) : i # j => e.objs[i].fold # e.objs[j].fold, "C06", "two-objects-share-an-absolute-id-ignoring-case",
              {e.objs[i].abs : i \in {k \in 1..Len(e.objs) : \E j \in 1..Len(e.objs) : j # k /\ e.objs[j].fold = e.objs[k].fold}})
       /\ Chk(\A i, j \in 1..Len(e.edges) : i # j => e.edges[i].abs # e.edges[j].abs, "C06", "two-connections-share-an-id",
              {e.edges[i].abs : i \in {k \in 1..Len(e.edges) : \E j \in 1..Len(e.edges) : j # k /\ e.edges[j].abs = e.edges[k].abs}})
       /\ \A i \in 1..Len(e.edges) : LET c == e.edges[i] IN
            /\ Chk(c.parses = 1, "C06", "connection-id-is-not-valid-key-syntax", c.abs)
            /\ c.parses = 1 =>
                 /\ Chk(c.parsedIndex = c.index, "C06", "connection-id-carries-another-index", <<c.abs, c.index, c.parsedIndex>>)
                 /\ Chk(c.parsedSrc = c.src /\ c.parsedDst = c.dst /\ c.psa = c.sa /\ c.pda = c.da, "C06", "connection-id-names-other-endpoints", <<c.abs, c.parsedSrc, c.src, c.parsedDst, c.dst>>)
            \* the ID identifies exactly one connection of the board: (endpoints, arrowheads, index) is a key
            /\ Chk(Cardinality({j \in 1..Len(e.edges) : <<e.edges[j].src, e.edges[j].dst, e.edges[j].sa, e.edges[j].da, e.edges[j].index>> = <<c.src, c.dst, c.sa, c.da, c.index>>}) = 1,
                   "C06", "endpoints-arrowheads-and-index-shared-by-several-connections", c.abs)

Init == l = 1 /\ tid = 0
Next ==
  /\ l <= Len(Trace) /\ l' = l + 1
  /\ LET e == Trace[l] IN
       CASE e.ev = "reset" -> tid' = e.tid
         [] e.ev = "rt"  -> RoundTrip(e) /\ UNCHANGED tid
         [] e.ev = "ids" -> IDs(e) /\ UNCHANGED tid
         [] OTHER -> Chk(FALSE, "MACHINERY", "unknown-event", e.ev) /\ UNCHANGED tid
Spec == Init /\ [][Next]_<<l, tid>>
Done == PrintT(<<"TRACE-END", TLCGet("stats").diameter, Len(Trace)>>)
=============================================================================
