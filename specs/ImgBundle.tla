------------------------------ MODULE ImgBundle ------------------------------
(* lib/imgbundler.runWorkers: a spawner goroutine starts one worker per unique eligible image as a
   semaphore of K slots allows; a worker fetches its image, on failure appends the href to errhrefs
   (under a mutex), otherwise rendezvouses with the main loop on an unbuffered channel, where the
   main loop applies bytes.Replace; a closer goroutine closes the channel when every worker is done,
   upon which the main loop returns.  fails (the images that cannot be loaded) is chosen in Init.
   The 5-minute context is outside the model. *)
EXTENDS Integers, Sequences, FiniteSets, TLC
CONSTANTS Images, K
VARIABLES fails, w, sema, replaced, errs, wgCount, chanClosed, mainDone, order
vars == <<fails, w, sema, replaced, errs, wgCount, chanClosed, mainDone, order>>

Init == /\ fails \in SUBSET Images
        /\ w = [i \in Images |-> "idle"] /\ sema = 0 /\ replaced = {} /\ errs = <<>>
        /\ wgCount = Cardinality(Images) /\ chanClosed = FALSE /\ mainDone = FALSE /\ order = <<>>

\* the spawner blocks on the semaphore; it starts workers in list order, any order here (over-approximation)
Spawn(i) == /\ w[i] = "idle" /\ sema < K /\ sema' = sema + 1 /\ w' = [w EXCEPT ![i] = "started"]
            /\ UNCHANGED <<fails, replaced, errs, wgCount, chanClosed, mainDone, order>>
Fetch(i) == /\ w[i] = "started" /\ w' = [w EXCEPT ![i] = IF i \in fails THEN "failed" ELSE "fetched"]
            /\ UNCHANGED <<fails, sema, replaced, errs, wgCount, chanClosed, mainDone, order>>
AppendErr(i) == /\ w[i] = "failed" /\ errs' = Append(errs, i) /\ w' = [w EXCEPT ![i] = "finishing"]
                /\ UNCHANGED <<fails, sema, replaced, wgCount, chanClosed, mainDone, order>>
\* worker send + main receive + bytes.Replace: one step, the channel is unbuffered
Rendezvous(i) == /\ w[i] = "fetched" /\ ~mainDone /\ replaced' = replaced \cup {i} /\ order' = Append(order, i)
                 /\ w' = [w EXCEPT ![i] = "finishing"]
                 /\ UNCHANGED <<fails, sema, errs, wgCount, chanClosed, mainDone>>
Finish(i) == /\ w[i] = "finishing" /\ wgCount' = wgCount - 1 /\ sema' = sema - 1 /\ w' = [w EXCEPT ![i] = "done"]
             /\ UNCHANGED <<fails, replaced, errs, chanClosed, mainDone, order>>
Close == /\ wgCount = 0 /\ ~chanClosed /\ chanClosed' = TRUE
         /\ UNCHANGED <<fails, w, sema, replaced, errs, wgCount, mainDone, order>>
Return == /\ chanClosed /\ ~mainDone /\ mainDone' = TRUE
          /\ UNCHANGED <<fails, w, sema, replaced, errs, wgCount, chanClosed, order>>
Next == Close \/ Return \/ \E i \in Images : Spawn(i) \/ Fetch(i) \/ AppendErr(i) \/ Rendezvous(i) \/ Finish(i)
Spec == Init /\ [][Next]_vars /\ WF_vars(Next)

Range(q) == {q[k] : k \in 1..Len(q)}
TypeOK == sema \in 0..K /\ wgCount \in 0..Cardinality(Images)
\* C46: whatever the interleaving, the result is a function of fails only
Outcome == mainDone => /\ replaced = Images \ fails
                       /\ Range(errs) = fails /\ Len(errs) = Cardinality(fails)
NoEarlyReturn == mainDone => \A i \in Images : w[i] = "done"
Terminates == <>mainDone
=============================================================================
