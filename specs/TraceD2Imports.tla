---------------------------- MODULE TraceD2Imports ----------------------------
(* Imports (family "imports": C14), on top of the declaration semantics of D2IR.
   A file is a sequence of items: a declaration of the D2IR alphabet, a spread import  ...@f , or an
   import under a key  x: @f  /  x: {...@f} .  Importing is inlining: Expand replaces every import by the
   imported file's items (under a key: with every path prefixed by that key), depth first.  An import
   chain that leads back to a file already being imported is an error; Expand carries the stack of files
   being imported, exactly like the compiler, and marks the cycle.
   A "set" event carries the file set and what the real compiler made of its first file. *)
EXTENDS D2IR
VARIABLES l, tid
Trace == ndJsonDeserialize("trace.ndjson")
Chk(c, prop, aspect, detail) == IF c THEN TRUE ELSE PrintT(<<"VIOL", tid, (IF "i" \in DOMAIN Trace[l] THEN Trace[l].i ELSE 0), prop, aspect, detail>>)

InSeq(q, x) == \E k \in 1..Len(q) : q[k] = x
NoDecl == [k |-> "none"]
Prefixed(d, pfx) ==
  IF pfx = <<>> THEN d
  ELSE CASE d.k \in {"obj", "attr", "anull", "null"} -> [d EXCEPT !.p = pfx \o @]
         [] d.k \in {"edge", "eref", "enull"} -> [d EXCEPT !.s = pfx \o @, !.d = pfx \o @]
         [] OTHER -> d
\* what a declaration of file f contributes to the import of f's key sel: its paths below sel, re-rooted
Restrict(d, sel) ==
  CASE d.k \in {"obj", "attr", "anull", "null"} ->
         IF Len(d.p) >= 1 /\ Fold(d.p[1]) = Fold(sel) THEN [d EXCEPT !.p = SubSeq(@, 2, Len(@))] ELSE NoDecl
    [] d.k \in {"edge", "eref", "enull"} ->
         LET sIn == Len(d.s) >= 2 /\ Fold(d.s[1]) = Fold(sel)
             dIn == Len(d.d) >= 2 /\ Fold(d.d[1]) = Fold(sel)
         IN IF sIn /\ dIn THEN [d EXCEPT !.s = SubSeq(@, 2, Len(@)), !.d = SubSeq(@, 2, Len(@))]
            \* a connection that leaves the key is not imported, but the end it created below the key is
            ELSE IF d.k = "edge" /\ sIn THEN [k |-> "obj", p |-> SubSeq(d.s, 2, Len(d.s)), v |-> ""]
            ELSE IF d.k = "edge" /\ dIn THEN [k |-> "obj", p |-> SubSeq(d.d, 2, Len(d.d)), v |-> ""]
            ELSE NoDecl
    [] OTHER -> NoDecl
RECURSIVE RestrictAll(_, _, _, _)
RestrictAll(q, sel, pfx, k) ==
  IF k > Len(q) THEN <<>>
  ELSE LET r == Restrict(q[k], sel) IN (IF r.k = "none" THEN <<>> ELSE <<Prefixed(r, pfx)>>) \o RestrictAll(q, sel, pfx, k + 1)

\* result: [items |-> sequence of declarations, cyclic |-> BOOLEAN, nokey |-> an imported key the file does not declare]
RECURSIVE ExpandFile(_, _, _, _), ExpandItems(_, _, _, _, _, _)
ExpandFile(F, f, pfx, stack) ==
  IF InSeq(stack, f) THEN [items |-> <<>>, cyclic |-> TRUE, nokey |-> FALSE]
  ELSE ExpandItems(F, f, pfx, Append(stack, f), 1, [items |-> <<>>, cyclic |-> FALSE, nokey |-> FALSE])
ExpandItems(F, f, pfx, stack, k, acc) ==
  IF k > Len(F[f].items) \/ acc.cyclic THEN acc
  ELSE LET it == F[f].items[k] IN
       IF it.k = "decl" THEN ExpandItems(F, f, pfx, stack, k + 1, [acc EXCEPT !.items = Append(@, Prefixed(Decls[it.d], pfx))])
       ELSE IF it.k = "key" THEN
            \* key: @f.sel - the imported file is expanded on its own, then only what lies below sel is taken, under key
            LET sub == ExpandFile(F, it.f, <<>>, stack)
                got == RestrictAll(sub.items, it.sel, Append(pfx, it.key), 1)
            IN ExpandItems(F, f, pfx, stack, k + 1, [items |-> acc.items \o got, cyclic |-> sub.cyclic, nokey |-> acc.nokey \/ sub.nokey \/ got = <<>>])
       ELSE LET sub == ExpandFile(F, it.f, IF it.k = "under" THEN Append(pfx, it.key) ELSE pfx, stack)
                \* an import under a key creates the key even when the file is empty
                mk == IF it.k = "under" THEN <<[k |-> "obj", p |-> Append(pfx, it.key), v |-> ""]>> ELSE <<>>
            IN ExpandItems(F, f, pfx, stack, k + 1, [items |-> acc.items \o mk \o sub.items, cyclic |-> sub.cyclic, nokey |-> acc.nokey \/ sub.nokey])

RECURSIVE FoldX(_, _, _)
FoldX(s, q, k) == IF k > Len(q) THEN s ELSE FoldX(ApplyR(s, q[k], "stable"), q, k + 1)

Pairs(q) == {<<q[k][1], q[k][2]>> : k \in 1..Len(q)}
EdgeKey(e) == <<e.src, e.dst, e.sa, e.da>>
ObjSet(p) == {<<p.objs[i].path, p.objs[i].label, p.objs[i].shape, p.objs[i].attrs>> : i \in 1..Len(p.objs)}
EdgeSet(p) == {<<EdgeKey(p.edges[j]), p.edges[j].idx, p.edges[j].label, p.edges[j].attrs>> : j \in 1..Len(p.edges)}
Norm(o) == [objs |-> [i \in 1..Len(o.objs) |-> [o.objs[i] EXCEPT !.attrs = Pairs(o.objs[i].attrs)]], edges |-> [j \in 1..Len(o.edges) |-> [o.edges[j] EXCEPT !.attrs = Pairs(o.edges[j].attrs)]]]

Set(e) ==
  LET x == ExpandFile(e.files, 1, <<>>, <<>>)
      c == FoldX(Empty, x.items, 1)
  IN
  /\ Chk(e.panic = 0 /\ e.hang = 0, "C14", IF e.hang = 1 THEN "compile-did-not-terminate" ELSE "compile-crashed", <<e.msg, e.text>>)
  /\ (e.panic = 0 /\ e.hang = 0) =>
       \* when another error ends compilation first, the cyclic import may not be reached: then any error will do
       /\ x.cyclic => Chk(e.err = 1 /\ (e.errIsCycle = 1 \/ e.hasEref = 1 \/ e.hasKeyImport = 1), "C14", "import-cycle-not-reported", <<e.err, e.msg, e.text>>)
       \* an import of a key the file does not declare is an error of its own; the generator avoids it, the model does not judge it
       /\ (~x.cyclic /\ ~x.nokey) =>
            /\ Chk(e.errIsCycle = 0, "C14", "cycle-reported-for-an-acyclic-file-set", <<e.msg, e.text>>)
            /\ Chk(c.err \/ e.err = 0, "C14", "valid-file-set-rejected", <<e.msg, e.text, e.nullImported, e.importedTwice, e.erefImported>>)
            /\ Chk(~c.err \/ e.err = 1, "C14", "reference-to-a-missing-connection-accepted", <<e.text, e.nullImported, e.importedTwice, e.erefImported>>)
            /\ (~c.err /\ e.err = 0) =>
                 /\ Chk(ObjSet(Norm(e.obs)) = ObjSet(Proj(c)) /\ EdgeSet(Norm(e.obs)) = EdgeSet(Proj(c)) /\ Len(e.obs.objs) = Len(c.objs) /\ Len(e.obs.edges) = Len(c.edges),
                        "C14", "import-is-not-inlining",
                        <<ObjSet(Norm(e.obs)) \ ObjSet(Proj(c)), ObjSet(Proj(c)) \ ObjSet(Norm(e.obs)), EdgeSet(Norm(e.obs)) \ EdgeSet(Proj(c)), EdgeSet(Proj(c)) \ EdgeSet(Norm(e.obs)), e.text, e.nullImported, e.importedTwice, e.erefImported>>)
                 /\ Chk(e.noTwin = 1 \/ (e.twinErr = 0 /\ e.twinSame = 1), "C14", "file-set-and-its-inlined-twin-compile-differently", <<e.twinErr, e.text, e.twinText, e.nullImported, e.importedTwice, e.erefImported>>)

\* ---- icons of imported files (the "rebasing of relative ... icons" clause of C14).  An icon written in a file that is
\* reached through the import paths p1, ..., pk (each as written in the importing file, split at "/") is a URL or an absolute
\* path and stays what it is, or a relative path and is read relative to the imported file's directory:
\* dir(p1)/.../dir(pk)/icon, cleaned of "." and of "x/.." pairs.
RECURSIVE CleanFrom(_, _, _)
CleanFrom(toks, n, acc) ==
  IF n > Len(toks) THEN acc
  ELSE LET t == toks[n] IN
       CleanFrom(toks, n + 1, IF t = "." \/ t = "" THEN acc
                              ELSE IF t = ".." /\ Len(acc) > 0 /\ acc[Len(acc)] # ".." THEN SubSeq(acc, 1, Len(acc) - 1)
                              ELSE Append(acc, t))
Clean(toks) == CleanFrom(toks, 1, <<>>)
RECURSIVE Dirs(_, _)
Dirs(steps, n) == IF n > Len(steps) THEN <<>> ELSE SubSeq(steps[n], 1, Len(steps[n]) - 1) \o Dirs(steps, n + 1)
Icons(e) ==
  /\ Chk(e.err = 0, "C14", "file-set-with-icons-rejected", e.msg)
  /\ e.err = 0 => \A k \in 1..Len(e.objs) : LET o == e.objs[k] IN
       IF o.kind \in {"url", "abs"} \/ o.steps = <<>>        \* (the importing file's own icons are nobody's business)
       THEN Chk(o.got = o.val, "C14", IF o.steps = <<>> THEN "icon-of-the-importing-file-changed-by-an-import" ELSE "absolute-or-remote-icon-of-an-imported-file-changed", <<o.id, o.val, o.got, o.steps>>)
       ELSE Chk(o.gotToks = Clean(Dirs(o.steps, 1) \o o.toks), "C14", "relative-icon-of-an-imported-file-not-rebased-to-its-directory", <<o.id, o.val, o.got, o.steps, Clean(Dirs(o.steps, 1) \o o.toks)>>)

TInit == l = 1 /\ tid = 0 /\ st = Empty /\ prog = <<>>
TNext ==
  /\ l <= Len(Trace) /\ l' = l + 1 /\ UNCHANGED <<st, prog>>
  /\ LET e == Trace[l] IN
       CASE e.ev = "reset" -> tid' = e.tid
         [] e.ev = "set"  -> Set(e) /\ UNCHANGED tid
         [] e.ev = "icons" -> Icons(e) /\ UNCHANGED tid
         [] OTHER -> Chk(FALSE, "MACHINERY", "unknown-event", e.ev) /\ UNCHANGED tid
TSpec == TInit /\ [][TNext]_<<l, tid, st, prog>>
Done == PrintT(<<"TRACE-END", TLCGet("stats").diameter, Len(Trace)>>)
=============================================================================
