SPECIFICATION Spec
CONSTANTS Clients = {c1} MaxVer = 2 NotifyFirst = TRUE WithShutdown = FALSE
INVARIANTS DeliveredWhenIdle
CHECK_DEADLOCK FALSE
