SPECIFICATION Spec
CONSTANTS MaxLen = 2 IndexRule = "position" LabelRule = "code"
PROPERTIES LastWriterWins
VIEW View
CHECK_DEADLOCK FALSE
