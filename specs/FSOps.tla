------------------------------- MODULE FSOps -------------------------------
(* A small POSIX file-system model shared by FSWrite (the write protocols, model-checked) and
   TraceFSWrite (system calls of the real d2 binary recorded with strace).
   fs : path -> [len, gen, mode]   for regular files that exist
     gen = "old"  content untouched since the command started
     gen = "new"  created or truncated by the command; its content is the first len bytes
                  the command wrote to it
   A file "is New" when gen = "new" and len = NewLen (the final run confirms byte equality). *)
EXTENDS Integers, Sequences, FiniteSets

Absent == [len |-> -1, gen |-> "absent", mode |-> 0]
Get(fs, p) == IF p \in DOMAIN fs THEN fs[p] ELSE Absent
Put(fs, p, c) == [q \in (DOMAIN fs) \cup {p} |-> IF q = p THEN c ELSE fs[q]]
Del(fs, p) == [q \in (DOMAIN fs) \ {p} |-> fs[q]]

\* open(2) for writing
SysOpen(fs, p, creat, excl, trunc, mode) ==
  IF p \in DOMAIN fs
  THEN IF trunc THEN Put(fs, p, [len |-> 0, gen |-> "new", mode |-> fs[p].mode]) ELSE fs
  ELSE IF creat THEN Put(fs, p, [len |-> 0, gen |-> "new", mode |-> mode]) ELSE fs

\* write(2) appends n bytes (all writers here are sequential appenders); writing makes it "new"
SysWrite(fs, p, n) ==
  IF p \in DOMAIN fs THEN Put(fs, p, [len |-> fs[p].len + n, gen |-> "new", mode |-> fs[p].mode]) ELSE fs

SysRename(fs, a, b) == IF a \in DOMAIN fs THEN Del(Put(fs, b, fs[a]), a) ELSE fs
SysUnlink(fs, p)    == Del(fs, p)
SysChmod(fs, p, m)  == IF p \in DOMAIN fs THEN Put(fs, p, [fs[p] EXCEPT !.mode = m]) ELSE fs
SysTruncate(fs, p, n) == IF p \in DOMAIN fs THEN Put(fs, p, [len |-> n, gen |-> "new", mode |-> fs[p].mode]) ELSE fs

IsOld(c)         == c.gen = "old"
IsNew(c, newLen) == c.gen = "new" /\ c.len = newLen

\* C48: what a crash at this instant would leave in `target`
AtomicAt(fs, target, existed, newLen) ==
  LET c == Get(fs, target)
  IN IF c.gen = "absent" THEN ~existed ELSE IsOld(c) \/ IsNew(c, newLen)

IsPrefixSeq(s, t) == Len(s) <= Len(t) /\ \A i \in 1..Len(s) : s[i] = t[i]
=============================================================================
