SPECIFICATION Spec
CONSTANTS Clients = {c1} MaxVer = 2 NotifyFirst = TRUE WithShutdown = FALSE
PROPERTIES LatestDelivered
CHECK_DEADLOCK FALSE
