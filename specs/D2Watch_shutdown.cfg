SPECIFICATION Spec
CONSTANTS Clients = {c1, c2} MaxVer = 1 NotifyFirst = FALSE WithShutdown = TRUE
PROPERTIES ShutdownCompletes
CHECK_DEADLOCK FALSE
