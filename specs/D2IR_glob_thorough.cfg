SPECIFICATION Spec
CONSTANTS MaxLen = 5 IndexRule = "stable" LabelRule = "lastwriter"
INVARIANTS TreeWF EndpointsWF
PROPERTIES GlobNow GlobLater LastWriterWins
VIEW View
CHECK_DEADLOCK FALSE
