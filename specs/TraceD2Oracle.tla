--------------------------- MODULE TraceD2Oracle ---------------------------
(* Edit histories through the public d2oracle API (family "oracle": C36 - C41).
   The state is the identity-keyed graph of the addressed board: every generated object carries a unique
   tooltip (its identity "lab"), every connection a unique label; IDs are derived data that edits may
   change.  One action per API call; for each the module states the effect on the identity-keyed graph and
   the frame condition (what must not change), evaluated on the snapshots logged before and after the
   real call.  Names the implementation invents on a collision are read from the trace and only
   constrained (unchanged unless the old name was taken).
     Create(key) / Set(key, tag, value)                      C37
     Delete(object | connection | attribute)                 C38
     Rename(key, name) / Move(key, newKey, includeDescendants)   C39
     the *IDDeltas queries, asked before the edit            C40
     boards other than the addressed one and its heirs       C41
     result compiles to the returned graph, formatter-stable C36 *)
EXTENDS Integers, Sequences, FiniteSets, Json, TLC
VARIABLES l, tid
Trace == ndJsonDeserialize("trace.ndjson")
Chk(c, prop, aspect, detail) == IF c THEN TRUE ELSE PrintT(<<"VIOL", tid, (IF "i" \in DOMAIN Trace[l] THEN Trace[l].i ELSE 0), prop, aspect, detail>>)
SetOf(q) == {q[k] : k \in 1..Len(q)}

Labs(s) == {s.objs[i].lab : i \in 1..Len(s.objs)}
ELabs(s) == {s.edges[i].lab : i \in 1..Len(s.edges)}
Obj(s, lab) == s.objs[CHOOSE i \in 1..Len(s.objs) : s.objs[i].lab = lab]
Edge(s, lab) == s.edges[CHOOSE i \in 1..Len(s.edges) : s.edges[i].lab = lab]
IDs(s) == {s.objs[i].id : i \in 1..Len(s.objs)}
UniqueLabs(s) == Cardinality(Labs(s)) = Len(s.objs) /\ Cardinality(ELabs(s)) = Len(s.edges)

Content(o) == <<o.label, o.shape, SetOf(o.attrs)>>
SameObj(b, a, lab) == lab \in Labs(a) /\ Obj(b, lab) = Obj(a, lab)
SameContent(b, a, lab) == lab \in Labs(a) /\ Content(Obj(b, lab)) = Content(Obj(a, lab))
EContent(e) == <<e.src, e.dst, e.sa, e.da, SetOf(e.attrs)>>
SameEdge(b, a, lab) == lab \in ELabs(a) /\ Edge(b, lab) = Edge(a, lab)
SameEContent(b, a, lab) == lab \in ELabs(a) /\ EContent(Edge(b, lab)) = EContent(Edge(a, lab))
AllObjsSame(b, a) == Labs(a) = Labs(b) /\ \A x \in Labs(b) : SameObj(b, a, x)
AllEdgesSame(b, a) == ELabs(a) = ELabs(b) /\ \A x \in ELabs(b) : SameEdge(b, a, x)
RECURSIVE IsAnc(_, _, _, _)
IsAnc(s, anc, lab, fuel) == fuel > 0 /\ Obj(s, lab).parent # "" /\ (Obj(s, lab).parent = anc \/ IsAnc(s, anc, Obj(s, lab).parent, fuel - 1))
Attr(o, k) == IF \E p \in SetOf(o.attrs) : p[1] = k THEN (CHOOSE p \in SetOf(o.attrs) : p[1] = k)[2] ELSE "~"
Without(o, k) == {p \in SetOf(o.attrs) : p[1] # k}

\* ------------------------------------------------------------------ C37
Create(e, b, a) ==
  /\ Chk(\E i \in 1..Len(a.objs) : a.objs[i].id = e.newKey, "C37", "created-object-not-found-under-the-returned-id", e.newKey)
  /\ Chk(e.newKey \notin IDs(b), "C37", "returned-id-existed-before", e.newKey)
  /\ (\E i \in 1..Len(a.objs) : a.objs[i].id = e.newKey) =>
       LET t == (CHOOSE i \in 1..Len(a.objs) : a.objs[i].id = e.newKey) tl == a.objs[t].lab IN
       Chk(\A n \in Labs(a) \ Labs(b) : n = tl \/ IsAnc(a, n, tl, 8), "C37", "create-added-objects-other-than-the-key-and-its-containers", Labs(a) \ Labs(b))
  /\ Chk(\A x \in Labs(b) : SameObj(b, a, x), "C37", "create-changed-an-existing-object", {x \in Labs(b) : ~SameObj(b, a, x)})
  /\ Chk(AllEdgesSame(b, a), "C37", "create-changed-a-connection", <<ELabs(b), ELabs(a)>>)
CreateEdge(e, b, a) ==
  /\ Chk(Cardinality(ELabs(a) \ ELabs(b)) = 1 /\ ELabs(b) \subseteq ELabs(a), "C37", "create-did-not-add-exactly-one-connection", <<ELabs(b), ELabs(a)>>)
  /\ Cardinality(ELabs(a) \ ELabs(b)) = 1 =>
       LET n == Edge(a, CHOOSE x \in ELabs(a) \ ELabs(b) : TRUE) IN
       /\ Chk(n.src = e.arg /\ n.dst = e.arg2, "C37", "created-connection-joins-other-objects", <<n.src, n.dst, e.arg, e.arg2>>)
       /\ Chk(n.id = e.newKey, "C37", "created-connection-has-not-the-returned-id", <<n.id, e.newKey, e.key>>)
  /\ Chk(AllObjsSame(b, a), "C37", "create-changed-an-object", {x \in Labs(b) : ~SameObj(b, a, x)})
  /\ Chk(\A x \in ELabs(b) : SameEdge(b, a, x), "C37", "create-changed-an-existing-connection", <<{x \in ELabs(b) : ~SameEdge(b, a, x)}, e.newKey, e.key>>)
SetObj(e, b, a) ==
  /\ Chk(Labs(a) = Labs(b) /\ \A x \in Labs(b) \ {e.target} : SameObj(b, a, x), "C37", "set-changed-another-object", {x \in Labs(b) \ {e.target} : ~SameObj(b, a, x)})
  /\ Chk(AllEdgesSame(b, a), "C37", "set-changed-a-connection", e.key)
  /\ e.target \in Labs(a) =>
       LET x == Obj(b, e.target) y == Obj(a, e.target) IN
       /\ Chk(y.id = x.id /\ y.parent = x.parent, "C37", "set-moved-the-object", <<x.id, y.id>>)
       /\ e.tag = "label" =>
            /\ Chk(y.label = e.arg, "C37", "label-is-not-the-given-value", <<e.arg, y.label>>)
            /\ Chk(y.shape = x.shape /\ SetOf(y.attrs) = SetOf(x.attrs), "C37", "set-label-changed-other-attributes", <<x, y>>)
       /\ e.tag = "shape" =>
            /\ Chk(y.shape = e.arg, "C37", "shape-is-not-the-given-value", <<e.arg, y.shape>>)
            /\ Chk(y.label = x.label /\ SetOf(y.attrs) = SetOf(x.attrs), "C37", "set-shape-changed-other-attributes", <<x, y>>)
       /\ e.tag \notin {"label", "shape"} =>
            /\ Chk(Attr(y, e.tag) = e.arg, "C37", "style-is-not-the-given-value", <<e.tag, e.arg, Attr(y, e.tag)>>)
            /\ Chk(y.label = x.label /\ y.shape = x.shape /\ Without(y, e.tag) = Without(x, e.tag), "C37", "set-style-changed-other-attributes", <<e.tag, x, y>>)
SetEdge(e, b, a) ==
  /\ Chk(AllObjsSame(b, a), "C37", "set-on-a-connection-changed-an-object", e.key)
  /\ Chk(ELabs(a) = ELabs(b) /\ \A x \in ELabs(b) \ {e.target} : SameEdge(b, a, x), "C37", "set-changed-another-connection", e.key)
  /\ e.target \in ELabs(a) =>
       LET x == Edge(b, e.target) y == Edge(a, e.target) IN
       /\ Chk(Attr(y, e.tag) = e.arg, "C37", "connection-style-is-not-the-given-value", <<e.arg, Attr(y, e.tag)>>)
       /\ Chk(<<y.src, y.dst, y.sa, y.da, y.idx>> = <<x.src, x.dst, x.sa, x.da, x.idx>> /\ Without(y, e.tag) = Without(x, e.tag), "C37", "set-changed-other-facts-of-the-connection", <<x, y>>)

\* ------------------------------------------------------------------ C38
DeleteObj(e, b, a) ==
  LET t == e.target tp == Obj(b, t).parent IN
  /\ Chk(t \notin Labs(a), "C38", "deleted-object-still-there", t)
  /\ Chk(Labs(a) = Labs(b) \ {t}, "C38", "delete-removed-or-added-other-objects", <<Labs(b) \ Labs(a), Labs(a) \ Labs(b)>>)
  /\ \A x \in (Labs(b) \ {t}) \cap Labs(a) : LET p == Obj(b, x) q == Obj(a, x) IN
       /\ Chk(Content(p) = Content(q) \/ (p.label = p.name /\ q.label = q.name /\ p.shape = q.shape /\ SetOf(p.attrs) = SetOf(q.attrs)), "C38", "delete-changed-the-content-of-another-object", <<p, q>>)
       /\ Chk(q.parent = IF p.parent = t THEN tp ELSE p.parent, "C38", "children-not-moved-to-the-deleted-objects-parent", <<x, p.parent, q.parent, tp>>)
       /\ Chk(q.name = p.name \/ (p.parent = t /\ \E y \in Labs(b) \ {x} : Obj(b, y).parent = tp /\ Obj(b, y).name = p.name /\ y # t), "C38", "kept-object-renamed-although-its-name-was-free", <<x, p.name, q.name>>)
  /\ Chk(ELabs(a) = {x \in ELabs(b) : Edge(b, x).src # t /\ Edge(b, x).dst # t}, "C38", "delete-did-not-remove-exactly-the-attached-connections", <<ELabs(b), ELabs(a)>>)
  /\ Chk(\A x \in ELabs(a) \cap ELabs(b) : SameEContent(b, a, x), "C38", "delete-changed-a-surviving-connection", {x \in ELabs(a) \cap ELabs(b) : ~SameEContent(b, a, x)})
DeleteEdge(e, b, a) ==
  LET t == e.target d == Edge(b, t) IN
  /\ Chk(ELabs(a) = ELabs(b) \ {t}, "C38", "delete-did-not-remove-exactly-that-connection", <<ELabs(b), ELabs(a)>>)
  /\ \A x \in (ELabs(b) \ {t}) \cap ELabs(a) : LET p == Edge(b, x) q == Edge(a, x) IN
       /\ Chk(EContent(p) = EContent(q), "C38", "delete-changed-another-connection", <<p, q>>)
       /\ Chk(q.idx = IF <<p.src, p.dst, p.sa, p.da>> = <<d.src, d.dst, d.sa, d.da>> /\ p.idx > d.idx THEN p.idx - 1 ELSE p.idx, "C38", "later-parallel-connections-not-renumbered", <<x, p.idx, q.idx>>)
  /\ Chk(AllObjsSame(b, a), "C38", "deleting-a-connection-changed-an-object", {x \in Labs(b) : ~SameObj(b, a, x)})
DeleteAttr(e, b, a) ==
  /\ Chk(Labs(a) = Labs(b) /\ \A x \in Labs(b) \ {e.target} : SameObj(b, a, x), "C38", "deleting-an-attribute-changed-another-object", e.key)
  /\ Chk(AllEdgesSame(b, a), "C38", "deleting-an-attribute-changed-a-connection", e.key)
  /\ e.target \in Labs(a) =>
       LET x == Obj(b, e.target) y == Obj(a, e.target) IN
       /\ Chk(y.id = x.id /\ y.parent = x.parent, "C38", "deleting-an-attribute-moved-the-object", <<x.id, y.id>>)
       \* proj keys: style.opacity, style.stroke, width, link
       /\ Chk(Attr(y, e.tag) = "~", "C38", "attribute-not-reset", <<e.key, Attr(y, e.tag)>>)
       /\ Chk(y.label = x.label /\ y.shape = x.shape /\ Without(y, e.tag) = Without(x, e.tag), "C38", "deleting-an-attribute-changed-other-attributes", <<x, y>>)

DeleteEdgeAttr(e, b, a) ==
  /\ Chk(AllObjsSame(b, a), "C38", "deleting-a-connection-attribute-changed-an-object", e.key)
  /\ Chk(ELabs(a) = ELabs(b) /\ \A x \in ELabs(b) \ {e.target} : SameEdge(b, a, x), "C38", "deleting-a-connection-attribute-changed-another-connection", e.key)
  /\ e.target \in ELabs(a) =>
       LET x == Edge(b, e.target) y == Edge(a, e.target) IN
       /\ Chk(Attr(y, e.tag) = "~", "C38", "connection-attribute-not-reset", <<e.key, Attr(y, e.tag)>>)
       /\ Chk(<<y.src, y.dst, y.sa, y.da, y.idx>> = <<x.src, x.dst, x.sa, x.da, x.idx>> /\ Without(y, e.tag) = Without(x, e.tag), "C38", "deleting-a-connection-attribute-changed-other-facts-of-the-connection", <<x, y>>)

\* ------------------------------------------------------------------ C39
Rename(e, b, a) ==
  /\ Chk(Labs(a) = Labs(b), "C39", "rename-lost-or-added-objects", <<Labs(b) \ Labs(a), Labs(a) \ Labs(b)>>)
  /\ \A x \in Labs(b) \cap Labs(a) : LET p == Obj(b, x) q == Obj(a, x) IN
       /\ Chk(Content(p) = Content(q) \/ (x = e.target /\ p.label = p.name /\ q.label = q.name /\ p.shape = q.shape /\ SetOf(p.attrs) = SetOf(q.attrs)), "C39", "rename-changed-labels-or-attributes", <<p, q>>)
       /\ Chk(q.parent = p.parent, "C39", "rename-re-parented-an-object", <<x, p.parent, q.parent>>)
       /\ Chk(x = e.target \/ q.name = p.name, "C39", "rename-changed-another-objects-name", <<x, p.name, q.name>>)
  /\ e.target \in Labs(a) =>
       Chk(Obj(a, e.target).name = e.arg \/ \E y \in Labs(b) \ {e.target} : Obj(b, y).parent = Obj(b, e.target).parent /\ Obj(b, y).name = e.arg, "C39", "renamed-object-has-not-the-requested-name", <<e.arg, Obj(a, e.target).name>>)
  /\ Chk(ELabs(a) = ELabs(b) /\ \A x \in ELabs(b) : SameEContent(b, a, x), "C39", "rename-changed-a-connection", {x \in ELabs(b) : ~SameEContent(b, a, x)})
Move(e, b, a) ==
  LET t == e.target tp == Obj(b, t).parent IN
  /\ Chk(Labs(b) \subseteq Labs(a), "C39", "move-lost-objects", Labs(b) \ Labs(a))
  /\ \A x \in Labs(b) \cap Labs(a) : LET p == Obj(b, x) q == Obj(a, x) IN
       /\ Chk(Content(p) = Content(q) \/ (p.label = p.name /\ q.label = q.name /\ p.shape = q.shape /\ SetOf(p.attrs) = SetOf(q.attrs)), "C39", "move-changed-labels-or-attributes", <<p, q>>)
       /\ x # t => Chk(q.parent = IF e.flag = 0 /\ p.parent = t THEN tp ELSE p.parent, "C39", "move-re-parented-an-object-it-should-not", <<x, p.parent, q.parent, e.flag>>)
       /\ Chk(q.id = p.id \/ x = t \/ IsAnc(b, t, x, 8), "C39", "move-changed-the-id-of-an-unrelated-object", <<x, p.id, q.id>>)
  /\ t \in Labs(a) => Chk(Obj(a, t).parent = e.arg2 \/ (e.arg2 = "" /\ Obj(a, t).parent \notin Labs(b)), "C39", "moved-object-is-not-in-the-requested-container", <<e.arg, Obj(a, t).parent, e.arg2>>)
  /\ Chk(ELabs(a) = ELabs(b) /\ \A x \in ELabs(b) : SameEContent(b, a, x), "C39", "move-detached-or-changed-a-connection", {x \in ELabs(b) : ~SameEContent(b, a, x)})
Reconnect(e, b, a) ==
  /\ Chk(AllObjsSame(b, a), "C39", "reconnect-changed-an-object", {x \in Labs(b) : ~SameObj(b, a, x)})
  /\ Chk(ELabs(a) = ELabs(b) /\ \A x \in ELabs(b) \ {e.target} : SameEContent(b, a, x), "C39", "reconnect-changed-another-connection", e.key)
  /\ e.target \in ELabs(a) =>
       LET p == Edge(b, e.target) q == Edge(a, e.target) IN
       Chk(q.src = (IF e.arg # "" THEN e.arg ELSE p.src) /\ q.dst = (IF e.arg2 # "" THEN e.arg2 ELSE p.dst) /\ SetOf(q.attrs) = SetOf(p.attrs) /\ <<q.sa, q.da>> = <<p.sa, p.da>>,
           "C39", "reconnected-connection-has-not-the-requested-ends", <<p, q, e.arg, e.arg2>>)

\* ------------------------------------------------------------------ C40
Deltas(e, b, a) ==
  LET D == SetOf(e.deltas)
      Delta(id) == IF \E p \in D : p[1] = id THEN (CHOOSE p \in D : p[1] = id)[2] ELSE id
      Keys == {p[1] : p \in D}
  IN
  /\ \A x \in Labs(b) \cap Labs(a) : Chk(Obj(a, x).id = Delta(Obj(b, x).id), "C40", "object-id-after-the-edit-differs-from-the-predicted-one", <<e.op, Obj(b, x).id, Obj(a, x).id, Delta(Obj(b, x).id), e.arg2>>)
  /\ \A x \in ELabs(b) \cap ELabs(a) : Chk(Edge(a, x).id = Delta(Edge(b, x).id), "C40", "connection-id-after-the-edit-differs-from-the-predicted-one", <<e.op, Edge(b, x).id, Edge(a, x).id, Delta(Edge(b, x).id), e.arg2>>)
  /\ \A x \in Labs(b) \ Labs(a) : Chk(Obj(b, x).id \notin Keys, "C40", "id-change-predicted-for-a-removed-object", Obj(b, x).id)
  /\ \A x \in ELabs(b) \ ELabs(a) : Chk(Edge(b, x).id \notin Keys, "C40", "id-change-predicted-for-a-removed-connection", Edge(b, x).id)

\* ------------------------------------------------------------------ C41, C36
Boards(e) ==
  \A k \in 1..Len(e.boardsBefore) : LET bb == e.boardsBefore[k] IN
    bb[3] = "other" =>
      Chk(\E j \in 1..Len(e.boardsAfter) : e.boardsAfter[j][1] = bb[1] /\ e.boardsAfter[j][2] = bb[2], "C41", "edit-changed-a-board-that-neither-is-nor-inherits-from-the-addressed-one", <<e.op, e.board, bb[1], e.ok, e.targetInBase>>)
Edit(e) ==
  LET b == e.before a == e.after IN
  /\ Chk(~("panic" \in DOMAIN e), "C36", "edit-crashed", <<e.op, e.key, e.err>>)
  /\ Boards(e)
  /\ e.ok = 1 =>
       /\ Chk(e.compiles = 1, "C36", "edited-text-does-not-compile", <<e.op, e.key>>)
       /\ Chk(e.compiles = 1 => e.sameAsReturned = 1, "C36", "edited-text-compiles-to-something-else-than-the-returned-graph", <<e.op, e.key>>)
       /\ Chk(e.fmtFixed = 1, "C36", "formatter-changes-the-edited-text", <<e.op, e.key>>)
       /\ Chk(UniqueLabs(b) /\ UniqueLabs(a), "MACHINERY", "identity-labels-not-unique", e.op)
       /\ (UniqueLabs(b) /\ UniqueLabs(a)) =>
            /\ CASE e.op = "create" -> Create(e, b, a)
                 [] e.op = "create-edge" -> CreateEdge(e, b, a)
                 [] e.op \in {"set-label", "set-style", "set-shape", "set-attr"} -> SetObj(e, b, a)
                 [] e.op = "set-edge" -> SetEdge(e, b, a)
                 [] e.op = "delete" -> DeleteObj(e, b, a)
                 [] e.op = "delete-edge" -> DeleteEdge(e, b, a)
                 [] e.op = "delete-attr" -> DeleteAttr(e, b, a)
                 [] e.op = "delete-edge-attr" -> DeleteEdgeAttr(e, b, a)
                 [] e.op = "rename" -> Rename(e, b, a)
                 [] e.op = "move" -> Move(e, b, a)
                 [] e.op = "reconnect" -> Reconnect(e, b, a)
                 [] OTHER -> Chk(FALSE, "MACHINERY", "unknown-op", e.op)
            /\ e.hasDeltas = 1 => Deltas(e, b, a)

\* ---- import update (C36).  A path names a file (the import of exactly that path is rewritten to the new path, or removed)
\* or, written with a trailing slash, a directory (every import below it keeps its path relative to the directory).
\* Paths are token lists split at "/"; "lib2/b" is not below "lib/".
IsPrefixT(a, b) == Len(a) <= Len(b) /\ \A k \in 1..Len(a) : a[k] = b[k]
ImpHit(e, p) == IF e.kind = "dir" THEN IsPrefixT(e.old, p) /\ Len(p) > Len(e.old) ELSE p = e.old
ImpNew(e, p) == IF e.kind = "dir" THEN e.new \o SubSeq(p, Len(e.old) + 1, Len(p)) ELSE e.new
RECURSIVE ImpExpected(_, _)
ImpExpected(e, n) == IF n > Len(e.before) THEN <<>>
                     ELSE LET p == e.before[n] IN
                          (IF ~ImpHit(e, p) THEN <<p>> ELSE IF e.kind = "remove" THEN <<>> ELSE <<ImpNew(e, p)>>) \o ImpExpected(e, n + 1)
ImpUpdate(e) ==
  /\ Chk(e.compilesBefore = 1, "MACHINERY", "generated-importing-program-does-not-compile", e.text)
  /\ Chk(e.ok = 1, "C36", "import-update-failed-or-crashed", e.err)
  /\ e.ok = 1 =>
       /\ Chk(e.after = ImpExpected(e, 1), "C36", "import-update-did-not-rewrite-exactly-the-imports-of-the-renamed-path", <<e.kind, e.old, e.new, e.before, e.after, ImpExpected(e, 1)>>)
       /\ Chk(e.compilesBefore = 1 => e.compilesAfter = 1, "C36", "source-after-an-import-update-does-not-compile", <<e.kind, e.old, e.new, e.compileErr, e.result>>)
       /\ Chk(e.fmtFixed = 1, "C36", "source-after-an-import-update-is-changed-by-the-formatter", e.result)

Init == l = 1 /\ tid = 0
Next ==
  /\ l <= Len(Trace) /\ l' = l + 1
  /\ LET e == Trace[l] IN
       CASE e.ev = "reset" -> tid' = e.tid
         [] e.ev = "init"  -> Chk(e.ok = 1, "MACHINERY", "generated-program-does-not-compile", e.text) /\ UNCHANGED tid
         [] e.ev = "edit"  -> Edit(e) /\ UNCHANGED tid
         [] e.ev = "impupdate" -> ImpUpdate(e) /\ UNCHANGED tid
         [] OTHER -> Chk(FALSE, "MACHINERY", "unknown-event", e.ev) /\ UNCHANGED tid
Spec == Init /\ [][Next]_<<l, tid>>
Done == PrintT(<<"TRACE-END", TLCGet("stats").diameter, Len(Trace)>>)
=============================================================================
