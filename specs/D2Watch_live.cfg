SPECIFICATION Spec
CONSTANTS Clients = {c1, c2} MaxVer = 2 NotifyFirst = FALSE WithShutdown = FALSE
PROPERTIES LatestCompiled LatestDelivered
CHECK_DEADLOCK FALSE
