SPECIFICATION Spec
CONSTANTS Ns = {1,2,3,5,8,13,21,34,55,89,99,100,101,102,103} Ts = {1,2,3,16,100} U = 2 EndRule = "exact"
INVARIANTS TypeOK OneAtATime Ordered
