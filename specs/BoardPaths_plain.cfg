SPECIFICATION Spec
CONSTANTS Names = {"a", "b", "layers", "a.b", "steps"} Rule = "code" MaxBoards = 4 MaxDepth = 2
INVARIANTS OneFilePerBoard Contained NoLateDelete
CHECK_DEADLOCK FALSE
