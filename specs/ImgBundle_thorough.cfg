SPECIFICATION Spec
CONSTANTS Images = {1, 2, 3, 4} K = 2
INVARIANTS TypeOK Outcome NoEarlyReturn
PROPERTY Terminates
CHECK_DEADLOCK FALSE
