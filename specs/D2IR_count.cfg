SPECIFICATION Spec
CONSTANTS MaxLen = 5 IndexRule = "count" LabelRule = "code"
PROPERTIES IndexedRefHitsOne
VIEW View
CHECK_DEADLOCK FALSE
