SPECIFICATION Spec
CONSTANTS Ns = {1,2,3,4,5,6,7,8,9,10,11,12} Ts = {1,2,3,4,5,6,7,8,9,10,11,12} U = 4 EndRule = "exact"
INVARIANTS TypeOK OneAtATime Ordered
PROPERTY EveryBoardShown
