------------------------------- MODULE D2Watch -------------------------------
(* `d2 --watch` (d2cli/watch.go): goroutines x mutexes x capacity-1 channels x a wait group.
   One action per critical section / channel operation of the code:

     environment   Change, Hangup(c), Cancel (signal), CloseBegin/CloseCancel/CloseWait (close())
     watchLoop     FsEvent (fsnotify event -> arm the 16 ms burst timer), TimerFire (-> requestCompile),
                   WatchLoopExit
     compileLoop   Take (<-compileCh), ReadInput (compile() reads the file), SetRes (broadcast, under resMu),
                   Notify (broadcast, under wsclientsMu: non-blocking send to every registered client), LoopExit
     handleWatch   Admit/Reject (under wsclientsMu: closing? else wg.Add(1)), AcceptOK/AcceptFail,
                   Register (under wsclientsMu), writeLoop: GetRes (under resMu), Write/WriteFail,
                   Wait (<-resultsCh) / WaitCancelled (<-ctx.Done()), Unregister (under wsclientsMu), Done (wg.Done)

   Versions: the file content is version fileVer (1 at start); a result "is" the version it was
   compiled from; 0 = no result yet.
   Variant NotifyFirst = TRUE swaps the two halves of broadcast (notify, then store): the
   mutation C44 must exclude. *)
EXTENDS Integers, Sequences, FiniteSets, TLC
CONSTANTS Clients, MaxVer, NotifyFirst, WithShutdown

VARIABLES fileVer, evPending, timerArmed, wlExited,      \* file + watchLoop
          compileCh, cl, reading, lastRead, res,          \* compileLoop
          closing, cancelled, closed, closer, wg,         \* shutdown
          registered, pc, wake, got, recv, gone           \* clients
vars == <<fileVer, evPending, timerArmed, wlExited, compileCh, cl, reading, lastRead, res,
          closing, cancelled, closed, closer, wg, registered, pc, wake, got, recv, gone>>
wlVars == <<fileVer, evPending, timerArmed, wlExited>>
clVars == <<compileCh, cl, reading, lastRead, res>>
sdVars == <<closing, cancelled, closed, closer, wg>>
ccVars == <<registered, pc, wake, got, recv, gone>>

Last(s) == s[Len(s)]
Active == {"admitted", "accepted", "loop", "writing", "waiting", "exiting", "unreg"}   \* holds a wg slot
Finished == {"new", "rejected", "failed", "done"}

Init ==
  /\ fileVer = 1 /\ evPending = FALSE /\ timerArmed = FALSE /\ wlExited = FALSE
  /\ compileCh = TRUE            \* watchLoop requests the first compile before anything else
  /\ cl = "idle" /\ reading = 0 /\ lastRead = 0 /\ res = 0
  /\ closing = FALSE /\ cancelled = FALSE /\ closed = FALSE /\ closer = "idle" /\ wg = 0
  /\ registered = {} /\ pc = [c \in Clients |-> "new"] /\ wake = [c \in Clients |-> FALSE]
  /\ got = [c \in Clients |-> 0] /\ recv = [c \in Clients |-> <<>>] /\ gone = [c \in Clients |-> FALSE]

\* ---------------------------------------------------------------- environment, watchLoop
Change == /\ fileVer < MaxVer /\ fileVer' = fileVer + 1 /\ evPending' = TRUE
          /\ UNCHANGED <<timerArmed, wlExited, clVars, sdVars, ccVars>>
FsEvent == /\ evPending /\ ~wlExited /\ evPending' = FALSE /\ timerArmed' = TRUE
           /\ UNCHANGED <<fileVer, wlExited, clVars, sdVars, ccVars>>
\* requestCompile: non-blocking send, a no-op when a request is already pending
TimerFire == /\ timerArmed /\ ~wlExited /\ timerArmed' = FALSE /\ compileCh' = TRUE
             /\ UNCHANGED <<fileVer, evPending, wlExited, cl, reading, lastRead, res, sdVars, ccVars>>
WatchLoopExit == /\ cancelled /\ ~wlExited /\ wlExited' = TRUE
                 /\ UNCHANGED <<fileVer, evPending, timerArmed, clVars, sdVars, ccVars>>

\* ---------------------------------------------------------------- compileLoop
Take == /\ cl = "idle" /\ compileCh /\ compileCh' = FALSE /\ cl' = "taken"
        /\ UNCHANGED <<reading, lastRead, res, wlVars, sdVars, ccVars>>
LoopExit == /\ cl = "idle" /\ cancelled /\ cl' = "exited"
            /\ UNCHANGED <<compileCh, reading, lastRead, res, wlVars, sdVars, ccVars>>
ReadInput == /\ cl = "taken" /\ reading' = fileVer /\ lastRead' = fileVer /\ cl' = "read"
             /\ UNCHANGED <<compileCh, res, wlVars, sdVars, ccVars>>
StoreRes == res' = reading
WakeAll  == wake' = [c \in Clients |-> wake[c] \/ c \in registered]
SetRes == /\ cl = IF NotifyFirst THEN "half" ELSE "read"
          /\ StoreRes /\ cl' = IF NotifyFirst THEN "idle" ELSE "half"
          /\ UNCHANGED <<compileCh, reading, lastRead, wlVars, sdVars, ccVars>>
Notify == /\ cl = IF NotifyFirst THEN "read" ELSE "half"
          /\ WakeAll /\ cl' = IF NotifyFirst THEN "half" ELSE "idle"
          /\ UNCHANGED <<compileCh, reading, lastRead, res, wlVars, sdVars, registered, pc, got, recv, gone>>

\* ---------------------------------------------------------------- client handlers
Admit(c) == /\ pc[c] = "new"
            /\ IF closing THEN pc' = [pc EXCEPT ![c] = "rejected"] /\ wg' = wg
                          ELSE pc' = [pc EXCEPT ![c] = "admitted"] /\ wg' = wg + 1
            /\ UNCHANGED <<closing, cancelled, closed, closer, wlVars, clVars, registered, wake, got, recv, gone>>
AcceptOK(c) == /\ pc[c] = "admitted" /\ pc' = [pc EXCEPT ![c] = "accepted"]
               /\ UNCHANGED <<wlVars, clVars, sdVars, registered, wake, got, recv, gone>>
AcceptFail(c) == /\ pc[c] = "admitted" /\ pc' = [pc EXCEPT ![c] = "failed"] /\ wg' = wg - 1
                 /\ UNCHANGED <<closing, cancelled, closed, closer, wlVars, clVars, registered, wake, got, recv, gone>>
Register(c) == /\ pc[c] = "accepted" /\ registered' = registered \cup {c} /\ pc' = [pc EXCEPT ![c] = "loop"]
               /\ UNCHANGED <<wlVars, clVars, sdVars, wake, got, recv, gone>>
GetRes(c) == /\ pc[c] = "loop" /\ got' = [got EXCEPT ![c] = res]
             /\ pc' = [pc EXCEPT ![c] = IF res = 0 THEN "waiting" ELSE "writing"]
             /\ UNCHANGED <<wlVars, clVars, sdVars, registered, wake, recv, gone>>
Write(c) == /\ pc[c] = "writing" /\ recv' = [recv EXCEPT ![c] = Append(@, got[c])]
            /\ pc' = [pc EXCEPT ![c] = "waiting"]
            /\ UNCHANGED <<wlVars, clVars, sdVars, registered, wake, got, gone>>
WriteFail(c) == /\ pc[c] = "writing" /\ (gone[c] \/ cancelled) /\ pc' = [pc EXCEPT ![c] = "exiting"]
                /\ UNCHANGED <<wlVars, clVars, sdVars, registered, wake, got, recv, gone>>
Wait(c) == /\ pc[c] = "waiting" /\ wake[c] /\ wake' = [wake EXCEPT ![c] = FALSE]
           /\ pc' = [pc EXCEPT ![c] = "loop"]
           /\ UNCHANGED <<wlVars, clVars, sdVars, registered, got, recv, gone>>
WaitCancelled(c) == /\ pc[c] = "waiting" /\ (gone[c] \/ cancelled) /\ pc' = [pc EXCEPT ![c] = "exiting"]
                    /\ UNCHANGED <<wlVars, clVars, sdVars, registered, wake, got, recv, gone>>
Unregister(c) == /\ pc[c] = "exiting" /\ registered' = registered \ {c} /\ pc' = [pc EXCEPT ![c] = "unreg"]
                 /\ UNCHANGED <<wlVars, clVars, sdVars, wake, got, recv, gone>>
Done(c) == /\ pc[c] = "unreg" /\ wg' = wg - 1 /\ pc' = [pc EXCEPT ![c] = "done"]
           /\ UNCHANGED <<closing, cancelled, closed, closer, wlVars, clVars, registered, wake, got, recv, gone>>
Hangup(c) == /\ pc[c] \in Active /\ ~gone[c] /\ gone' = [gone EXCEPT ![c] = TRUE]
             /\ UNCHANGED <<wlVars, clVars, sdVars, registered, pc, wake, got, recv>>

\* ---------------------------------------------------------------- shutdown
Cancel == /\ WithShutdown /\ ~cancelled /\ cancelled' = TRUE
          /\ UNCHANGED <<closing, closed, closer, wg, wlVars, clVars, ccVars>>
CloseBegin == /\ WithShutdown /\ closer = "idle" /\ closing' = TRUE /\ closer' = "begun"
              /\ UNCHANGED <<cancelled, closed, wg, wlVars, clVars, ccVars>>
CloseCancel == /\ closer = "begun" /\ cancelled' = TRUE /\ closer' = "waiting"
               /\ UNCHANGED <<closing, closed, wg, wlVars, clVars, ccVars>>
CloseWait == /\ closer = "waiting" /\ wg = 0 /\ closed' = TRUE /\ closer' = "closed"
             /\ UNCHANGED <<closing, cancelled, wg, wlVars, clVars, ccVars>>

ClientStep(c) == Admit(c) \/ AcceptOK(c) \/ AcceptFail(c) \/ Register(c) \/ GetRes(c) \/ Write(c) \/ WriteFail(c)
                 \/ Wait(c) \/ WaitCancelled(c) \/ Unregister(c) \/ Done(c)
LoopStep == FsEvent \/ TimerFire \/ Take \/ ReadInput \/ SetRes \/ Notify
Next == Change \/ LoopStep \/ WatchLoopExit \/ LoopExit \/ Cancel \/ CloseBegin \/ CloseCancel \/ CloseWait
        \/ \E c \in Clients : ClientStep(c) \/ Hangup(c)

Fairness == /\ WF_vars(CloseCancel) /\ WF_vars(CloseWait)
            /\ WF_vars(FsEvent) /\ WF_vars(TimerFire) /\ WF_vars(Take) /\ WF_vars(ReadInput) /\ WF_vars(SetRes) /\ WF_vars(Notify)
            /\ \A c \in Clients : WF_vars(AcceptOK(c) \/ Register(c) \/ GetRes(c) \/ Write(c) \/ Wait(c) \/ WaitCancelled(c) \/ WriteFail(c) \/ Unregister(c) \/ Done(c))
Spec == Init /\ [][Next]_vars /\ Fairness

\* ---------------------------------------------------------------- properties
TypeOK == /\ fileVer \in 1..MaxVer /\ res \in 0..MaxVer /\ reading \in 0..MaxVer /\ wg \in 0..Cardinality(Clients)
          /\ cl \in {"idle", "taken", "read", "half", "exited"}
          /\ \A c \in Clients : pc[c] \in Active \cup Finished

\* ---- C44
\* each client receives results in compile order, never an older one after a newer one
Monotone == [][\A c \in Clients : recv'[c] # recv[c] => (Len(recv[c]) = 0 \/ Last(recv'[c]) >= Last(recv[c]))]_vars
CompileOrder == [][res' >= res]_vars
\* compile requests are coalesced but never lost: unseen content always has a compile on its way
NeverLost == (fileVer > lastRead /\ ~wlExited /\ cl # "exited") => (evPending \/ timerArmed \/ compileCh \/ cl = "taken")
\* once the input stops changing the last compile uses the latest content ...
LatestCompiled == (fileVer = MaxVer) ~> (res = MaxVer \/ cancelled)
\* ... and every connected client eventually receives it
LatestDelivered == \A c \in Clients :
   (fileVer = MaxVer /\ c \in registered) ~> (gone[c] \/ cancelled \/ (Len(recv[c]) > 0 /\ Last(recv[c]) = MaxVer))

\* safety form of LatestDelivered: once a broadcast has completed, a registered client that is blocked
\* waiting with no wake-up pending has been sent the current result
DeliveredWhenIdle == cl = "idle" => \A c \in registered :
   (pc[c] = "waiting" /\ ~wake[c]) => (res = 0 \/ (Len(recv[c]) > 0 /\ Last(recv[c]) = res))
\* safety form of LatestCompiled: with nothing pending anywhere the stored result is the latest content
CompiledWhenQuiet == (~evPending /\ ~timerArmed /\ ~compileCh /\ cl = "idle" /\ ~wlExited) => res = fileVer

\* ---- C45
WgCounts == wg = Cardinality({c \in Clients : pc[c] \in Active})
ClosedMeansAllFinished == closed => (wg = 0 /\ \A c \in Clients : pc[c] \in Finished)
NoAdmitAfterClosing == [][closing => \A c \in Clients : (pc'[c] = "admitted" => pc[c] = "admitted")]_vars
NoWgChangeAfterClosed == [][closed => wg' = wg]_vars
\* shutdown terminates: once close() has begun it returns
ShutdownCompletes == (closer = "begun") ~> closed

\* hide the delivery history except its last element (Monotone is an action property, sound under the view)
View == <<fileVer, evPending, timerArmed, wlExited, compileCh, cl, reading, lastRead, res, closing, cancelled, closed, closer, wg,
          registered, pc, wake, got, gone, [c \in Clients |-> IF recv[c] = <<>> THEN 0 ELSE Last(recv[c])]>>
=============================================================================
