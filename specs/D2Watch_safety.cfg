SPECIFICATION Spec
CONSTANTS Clients = {c1, c2} MaxVer = 3 NotifyFirst = FALSE WithShutdown = TRUE
INVARIANTS TypeOK NeverLost DeliveredWhenIdle CompiledWhenQuiet WgCounts ClosedMeansAllFinished
PROPERTIES Monotone CompileOrder NoAdmitAfterClosing NoWgChangeAfterClosed
VIEW View
CHECK_DEADLOCK FALSE
