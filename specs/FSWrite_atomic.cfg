SPECIFICATION Spec
CONSTANTS Protocol = "atomic" ChunkSet = {1,2,3,4} LenSet = {0,1,5,8} KeepMode = TRUE
INVARIANTS Atomicity Completed ModeKept
PROPERTY Terminates
CHECK_DEADLOCK FALSE
