SPECIFICATION ModelSpec
CONSTANTS
  Names = {"x", "y"}
  Values = {"1", "2"}
INVARIANTS TwinAgrees InnermostWins Inherited
CHECK_DEADLOCK FALSE
