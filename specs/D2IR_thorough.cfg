SPECIFICATION Spec
CONSTANTS MaxLen = 4 IndexRule = "position" LabelRule = "lastwriter"
INVARIANTS TreeWF EndpointsWF DistinctIDs
PROPERTIES LastWriterWins FreshAfterNull IndexedRefHitsOne IndexedNullRemovesOne
VIEW View
CHECK_DEADLOCK FALSE
