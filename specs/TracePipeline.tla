--------------------------- MODULE TracePipeline ---------------------------
(* The tool chain as a fixed sequence of stage transitions over one diagram
     gen -> compile [-> recompile] [-> fmt] [-> layout(engine) -> serde -> export* -> render*]
   (family "pipe").  Each stage event carries the facts its properties talk about; the guards below
   ARE the properties, evaluated by TLC on what the real code produced.  Geometry is in rounded
   pixels (TLC integers).  A stage that panics or hangs is logged as "panic"/"timeout".
     C03 C04 fmt | C07 C08 compile | C17 C18 C19 C20 C21 layout | C26 serde *)
EXTENDS Integers, Sequences, FiniteSets, Json, TLC
VARIABLES l, tid, stage
Trace == ndJsonDeserialize("trace.ndjson")
Chk(c, prop, aspect, detail) == IF c THEN TRUE ELSE PrintT(<<"VIOL", tid, (IF "i" \in DOMAIN Trace[l] THEN Trace[l].i ELSE 0), prop, aspect, detail>>)
Max(a, b) == IF a > b THEN a ELSE b
Min(a, b) == IF a < b THEN a ELSE b
Tol == 2

\* ------------------------------------------------------------------ compile
Compile(e) ==
  /\ Chk(e.ok = 1 \/ e.errPositioned = 1, "C07", "compile-error-without-source-position", e.msg)
  /\ Chk(e.ms <= 3000 + e.bytes, "C07", "compile-time-not-proportional-to-input", <<e.ms, e.bytes>>)
Recompile(e) ==
  Chk(\A k \in 1..Len(e.digests) : e.digests[k] = e.first, "C08", "same-input-compiled-to-different-diagrams", Cardinality({e.digests[k] : k \in 1..Len(e.digests)}))
Fmt(e) ==
  /\ Chk(e.parseOK = 1 => e.fmtParseOK = 1, "C03", "formatted-text-does-not-parse", e)
  /\ Chk((e.parseOK = 1 /\ e.fmtParseOK = 1) => e.idempotent = 1, "C03", "formatting-twice-changes-the-text", e)
  /\ Chk(e.compiles = 1 => e.fmtCompiles = 1, "C04", "formatted-text-does-not-compile", e)
  /\ Chk((e.compiles = 1 /\ e.fmtCompiles = 1) => e.sameMeaning = 1, "C04", "formatted-text-compiles-to-a-different-diagram", e)

\* ------------------------------------------------------------------ layout
Obj(g, i) == g.objs[i]
\* margins of the visual extent: outside label, outside icon, 3D / multiple offsets (C20's definition)
LabelW(g, o) == o.lw + g.pad
LabelH(g, o) == o.lh + g.pad
HasOutLabel(o) == o.label = 1 /\ o.lside # ""
MTop(g, o)    == Max(Max(IF HasOutLabel(o) /\ o.lside = "top" THEN LabelH(g, o) ELSE 0, IF o.icon = 1 /\ o.iside = "top" THEN g.iconSize + g.pad ELSE 0),
                     IF HasOutLabel(o) /\ o.lside \in {"left", "right"} /\ LabelH(g, o) > o.h THEN LabelH(g, o) - o.h ELSE 0)
                 + (IF o.threeD = 1 THEN g.threeD ELSE IF o.multiple = 1 THEN g.multiple ELSE 0)
MBottom(g, o) == Max(Max(IF HasOutLabel(o) /\ o.lside = "bottom" THEN LabelH(g, o) ELSE 0, IF o.icon = 1 /\ o.iside = "bottom" THEN g.iconSize + g.pad ELSE 0),
                     IF HasOutLabel(o) /\ o.lside \in {"left", "right"} /\ LabelH(g, o) > o.h THEN LabelH(g, o) - o.h ELSE 0)
MLeft(g, o)   == Max(Max(IF HasOutLabel(o) /\ o.lside = "left" THEN LabelW(g, o) ELSE 0, IF o.icon = 1 /\ o.iside = "left" THEN g.iconSize + g.pad ELSE 0),
                     IF HasOutLabel(o) /\ o.lside \in {"top", "bottom"} /\ LabelW(g, o) > o.w THEN LabelW(g, o) - o.w ELSE 0)
MRight(g, o)  == Max(Max(IF HasOutLabel(o) /\ o.lside = "right" THEN LabelW(g, o) ELSE 0, IF o.icon = 1 /\ o.iside = "right" THEN g.iconSize + g.pad ELSE 0),
                     IF HasOutLabel(o) /\ o.lside \in {"top", "bottom"} /\ LabelW(g, o) > o.w THEN LabelW(g, o) - o.w ELSE 0)
                 + (IF o.threeD = 1 THEN g.threeD ELSE IF o.multiple = 1 THEN g.multiple ELSE 0)
InBox(p, x1, y1, x2, y2, t) == p[1] >= x1 - t /\ p[1] <= x2 + t /\ p[2] >= y1 - t /\ p[2] <= y2 + t
InExtent(g, o, p) == InBox(p, o.x - MLeft(g, o), o.y - MTop(g, o), o.x2 + MRight(g, o), o.y2 + MBottom(g, o), Tol)
StrictlyInside(o, p) == p[1] > o.x + Tol /\ p[1] < o.x2 - Tol /\ p[2] > o.y + Tol /\ p[2] < o.y2 - Tol
RectLike(o) == o.shape \in {"rectangle", "square", "", "class", "sql_table", "code", "text", "image", "sequence_diagram"} /\ o.threeD = 0
\* a connection end attaches to the border of the extent: inside the (tolerant) extent, and for box-shaped shapes not in the box's interior
EndOK(g, o, p) == InExtent(g, o, p) /\ (RectLike(o) => ~StrictlyInside(o, p))

Layout(e) ==
  LET g == e.geom n == Len(g.objs) IN
  /\ Chk(e.ok = 1, "C17", "layout-failed", <<e.engine, e.msg>>)
  /\ Chk(e.ok = 1 => e.renderOK = 1, "C17", "laid-out-diagram-cannot-be-rendered", <<e.engine, e.renderMsg>>)
  /\ e.ok = 1 =>
       /\ Chk(\A i \in 1..n : g.objs[i].finite = 1 /\ g.objs[i].w >= 0 /\ g.objs[i].h >= 0, "C17", "shape-without-finite-position-or-non-negative-size",
              {g.objs[i].id : i \in {j \in 1..n : g.objs[j].finite = 0 \/ g.objs[j].w < 0 \/ g.objs[j].h < 0}})
       /\ Chk(\A k \in 1..Len(g.edges) : g.edges[k].finite = 1 /\ Len(g.edges[k].route) >= 2, "C17", "connection-without-a-finite-route-of-two-points",
              {k \in 1..Len(g.edges) : g.edges[k].finite = 0 \/ Len(g.edges[k].route) < 2})
       \* ---- C18
       /\ Chk(e.struct = e.before, "C18", "layout-changed-objects-parents-connections-or-order", <<e.engine>>)
       \* ---- C19 (shapes drawn along lifelines are excluded)
       /\ \A i \in 1..n : LET o == g.objs[i] IN
            (o.parent # 0 /\ o.inSeq = 0 /\ g.objs[o.parent].isSeq = 0 /\ o.finite = 1) =>
              LET p == g.objs[o.parent] IN
              Chk(o.x >= p.x - 1 /\ o.y >= p.y - 1 /\ o.x2 <= p.x2 + 1 /\ o.y2 <= p.y2 + 1, "C19", "shape-not-inside-its-container", <<e.engine, o.id, <<o.x, o.y, o.x2, o.y2>>, <<p.x, p.y, p.x2, p.y2>>, [shape |-> o.shape, lside |-> o.lside, iside |-> o.iside, pgrid |-> p.grid, near |-> o.near]>>)
       /\ \A i \in 1..n : \A j \in (i + 1)..n : LET a == g.objs[i] b == g.objs[j] IN
            (a.parent = b.parent /\ a.inSeq = 0 /\ b.inSeq = 0 /\ a.finite = 1 /\ b.finite = 1) =>
              Chk(b.x >= a.x2 - 1 \/ a.x >= b.x2 - 1 \/ b.y >= a.y2 - 1 \/ a.y >= b.y2 - 1, "C19", "sibling-shapes-overlap",
                  <<e.engine, a.id, b.id, a.near, b.near, <<a.x, a.y, a.x2, a.y2>>, <<b.x, b.y, b.x2, b.y2>>>>)
       \* ---- C20 (sequence-diagram messages are excluded)
       /\ \A k \in 1..Len(g.edges) : LET ed == g.edges[k] IN
            (ed.inSeq = 0 /\ ed.finite = 1 /\ Len(ed.route) >= 2) =>
              /\ Chk(EndOK(g, g.objs[ed.src], ed.route[1]), "C20", "connection-does-not-start-on-its-source", <<e.engine, g.objs[ed.src].id, g.objs[ed.src].shape, ed.route[1], <<g.objs[ed.src].x, g.objs[ed.src].y, g.objs[ed.src].x2, g.objs[ed.src].y2>>, [self |-> IF ed.src = ed.dst THEN 1 ELSE 0, kids |-> g.objs[ed.src].kids, lside |-> g.objs[ed.src].lside, iside |-> g.objs[ed.src].iside]>>)
              /\ Chk(EndOK(g, g.objs[ed.dst], ed.route[Len(ed.route)]), "C20", "connection-does-not-end-on-its-destination", <<e.engine, g.objs[ed.dst].id, g.objs[ed.dst].shape, ed.route[Len(ed.route)], <<g.objs[ed.dst].x, g.objs[ed.dst].y, g.objs[ed.dst].x2, g.objs[ed.dst].y2>>, [self |-> IF ed.src = ed.dst THEN 1 ELSE 0, kids |-> g.objs[ed.dst].kids, lside |-> g.objs[ed.dst].lside, iside |-> g.objs[ed.dst].iside]>>)
       \* ---- C21 leaves outside grids and sequence diagrams
       /\ \A i \in 1..n : LET o == g.objs[i] IN
            (o.kids = 0 /\ o.inSeq = 0 /\ o.isSeq = 0 /\ (o.parent = 0 \/ g.objs[o.parent].grid = 0) /\ o.finite = 1) =>
              /\ (o.ew > 0 /\ o.eh > 0 /\ o.shape \notin {"sql_table", "class", "code", "text"}) =>
                   Chk(IF o.shape \in {"square", "circle"} THEN o.w = Max(o.ew, o.eh) /\ o.h = Max(o.ew, o.eh) ELSE o.w = o.ew /\ o.h = o.eh,
                       "C21", "explicit-size-not-honoured", <<e.engine, o.id, o.shape, <<o.ew, o.eh>>, <<o.w, o.h>>, [icon |-> o.icon, label |-> o.label, lpos |-> o.lpos]>>)
              /\ (o.ew = 0 /\ o.eh = 0 /\ o.label = 1 /\ o.lside = "" /\ o.lpos \in {"", "INSIDE_MIDDLE_CENTER"} /\ o.innerW > 0) =>
                   Chk(o.lw <= o.innerW + 1 /\ o.lh <= o.innerH + 1, "C21", "label-does-not-fit-the-text-area-of-an-auto-sized-shape", <<e.engine, o.id, o.shape, <<o.lw, o.lh>>, <<o.innerW, o.innerH>>>>)

Serde(e) ==
  /\ Chk(e.rtBefore = 1, "C26", "graph-changed-by-serialize-deserialize-before-layout", e.msg)
  /\ Chk(e.rtAfter = 1, "C26", "graph-changed-by-serialize-deserialize-after-layout", e.msg)
  /\ Chk(e.sameResult = 1, "C26", "layout-through-the-wire-format-differs-from-in-process", e.msg)

Crash(e) ==
  LET prop == CASE e.stage = "compile" -> "C07" [] e.stage = "fmt" -> "C03" [] e.stage = "layout" -> "C17" [] e.stage = "render" -> "C17" [] e.stage = "serde" -> "C26" [] OTHER -> "C17"
  IN Chk(FALSE, prop, IF e.ev = "panic" THEN "stage-crashed" ELSE "stage-did-not-terminate", <<e.stage, IF "msg" \in DOMAIN e THEN e.msg ELSE "">>)

Init == l = 1 /\ tid = 0 /\ stage = "none"
Next ==
  /\ l <= Len(Trace) /\ l' = l + 1
  /\ LET e == Trace[l] IN
       CASE e.ev = "reset"     -> tid' = e.tid /\ stage' = "none"
         [] e.ev = "gen"       -> stage' = "gen" /\ UNCHANGED tid
         [] e.ev = "compile"   -> Compile(e) /\ stage' = "compile" /\ UNCHANGED tid
         [] e.ev = "recompile" -> Recompile(e) /\ UNCHANGED <<tid, stage>>
         [] e.ev = "fmt"       -> Fmt(e) /\ UNCHANGED <<tid, stage>>
         [] e.ev = "layout"    -> Layout(e) /\ stage' = "layout" /\ UNCHANGED tid
         [] e.ev = "serde"     -> Serde(e) /\ UNCHANGED <<tid, stage>>
         [] e.ev \in {"panic", "timeout"} -> Crash(e) /\ UNCHANGED <<tid, stage>>
         [] OTHER -> Chk(FALSE, "MACHINERY", "unknown-event", e.ev) /\ UNCHANGED <<tid, stage>>
Spec == Init /\ [][Next]_<<l, tid, stage>>
Done == PrintT(<<"TRACE-END", TLCGet("stats").diameter, Len(Trace)>>)
=============================================================================
