--------------------------- MODULE TracePipeline ---------------------------
(* The tool chain as a fixed sequence of stage transitions over one diagram
     gen -> compile [-> recompile] [-> fmt] [-> layout(engine) -> serde -> export* -> render*]
   (family "pipe").  Each stage event carries the facts its properties talk about; the guards below
   ARE the properties, evaluated by TLC on what the real code produced.  Geometry is in rounded
   pixels (TLC integers).  A stage that panics or hangs is logged as "panic"/"timeout".
     C03 C04 fmt | C07 C08 C09 compile | C17 C18 C19 C20 C21 C22 C23 C24 layout | C26 serde *)
EXTENDS Integers, Sequences, FiniteSets, Json, TLC
VARIABLES l, tid, stage
Trace == ndJsonDeserialize("trace.ndjson")
Chk(c, prop, aspect, detail) == IF c THEN TRUE ELSE PrintT(<<"VIOL", tid, (IF "i" \in DOMAIN Trace[l] THEN Trace[l].i ELSE 0), prop, aspect, detail>>)
Max(a, b) == IF a > b THEN a ELSE b
Min(a, b) == IF a < b THEN a ELSE b
Tol == 2

\* ------------------------------------------------------------------ compile
Compile(e) ==
  /\ Chk(e.ok = 1 \/ e.errPositioned = 1, "C07", "compile-error-without-source-position", e.msg)
  /\ Chk(e.ms <= 3000 + e.bytes, "C07", "compile-time-not-proportional-to-input", <<e.ms, e.bytes, e.rglobs>>)
\* ------------------------------------------------------------------ well-formed boards (C09)
\* The object hierarchy of a board as the graph's own structures give it: the object list, parent pointers, child lists
\* and child maps.  It is a tree rooted in the board's root, every object is listed once and filed once by its parent
\* under its folded ID, and both ends of a connection are listed objects.
Ids(b) == [i \in 1..Len(b.objs) |-> b.objs[i].id]
Count(seq, x) == Cardinality({k \in 1..Len(seq) : seq[k] = x})
WFBoard(b) ==
  LET n == Len(b.objs) IN
  /\ Chk(\A i, j \in 1..n : i # j => b.objs[i].id # b.objs[j].id, "C09", "object-listed-twice", <<b.path, Ids(b)>>)
  /\ \A i \in 1..n : LET o == b.objs[i] IN
       /\ Chk(o.reachesRoot = 1 /\ o.sameGraph = 1, "C09", "object-not-reachable-from-the-root-of-its-board", <<b.path, o.id>>)
       /\ Chk(o.parentIsRoot = 1 \/ \E j \in 1..n : b.objs[j].id = o.parent, "C09", "parent-is-not-an-object-of-the-board", <<b.path, o.id, o.parent>>)
       /\ Chk(o.filed = 1, "C09", "object-not-filed-under-its-id-by-its-parent", <<b.path, o.id>>)
       /\ Chk(IF o.parentIsRoot = 1 THEN Count(b.rootKids, o.id) = 1
              ELSE \A j \in 1..n : b.objs[j].id = o.parent => Count(b.objs[j].kids, o.id) = 1, "C09", "parent-does-not-list-the-object-exactly-once", <<b.path, o.id>>)
       /\ Chk(\A k \in 1..Len(o.kids) : \E j \in 1..n : b.objs[j].id = o.kids[k] /\ b.objs[j].parent = o.id /\ b.objs[j].parentIsRoot = 0, "C09", "child-of-an-object-is-not-an-object-of-the-board", <<b.path, o.id, o.kids>>)
       /\ Chk(o.mapKids = Len(o.kids), "C09", "child-map-and-child-list-differ-in-size", <<b.path, o.id, o.mapKids, Len(o.kids)>>)
  /\ Chk(\A k \in 1..Len(b.rootKids) : \E j \in 1..n : b.objs[j].id = b.rootKids[k] /\ b.objs[j].parentIsRoot = 1, "C09", "child-of-the-root-is-not-an-object-of-the-board", <<b.path, b.rootKids>>)
  /\ Chk(b.rootMapKids = Len(b.rootKids), "C09", "child-map-and-child-list-differ-in-size", <<b.path, "root", b.rootMapKids, Len(b.rootKids)>>)
  /\ \A k \in 1..Len(b.edges) : Chk(b.edges[k].srcListed = 1 /\ b.edges[k].dstListed = 1, "C09", "connection-end-is-not-an-object-of-the-board", <<b.path, b.edges[k].src, b.edges[k].dst>>)
WF(e) == \A k \in 1..Len(e.boards) : WFBoard(e.boards[k])

Recompile(e) ==
  Chk(\A k \in 1..Len(e.digests) : e.digests[k] = e.first, "C08", "same-input-compiled-to-different-diagrams", Cardinality({e.digests[k] : k \in 1..Len(e.digests)}))
Fmt(e) ==
  /\ Chk(e.parseOK = 1 => e.fmtParseOK = 1, "C03", "formatted-text-does-not-parse", e)
  /\ Chk((e.parseOK = 1 /\ e.fmtParseOK = 1) => e.idempotent = 1, "C03", "formatting-twice-changes-the-text", e)
  /\ Chk(e.compiles = 1 => e.fmtCompiles = 1, "C04", "formatted-text-does-not-compile", e)
  /\ Chk((e.compiles = 1 /\ e.fmtCompiles = 1) => e.sameMeaning = 1, "C04", "formatted-text-compiles-to-a-different-diagram", e)

\* ------------------------------------------------------------------ layout
Obj(g, i) == g.objs[i]
\* margins of the visual extent: outside label, outside icon, 3D / multiple offsets (C20's definition)
LabelW(g, o) == o.lw + g.pad
LabelH(g, o) == o.lh + g.pad
HasOutLabel(o) == o.label = 1 /\ o.lside # ""
\* an outside label larger than the shape overflows according to its alignment (d2graph GetMargin)
CeilHalf(d) == (d + 1) \div 2
OverW(g, o) == IF HasOutLabel(o) /\ o.lside \in {"top", "bottom"} /\ LabelW(g, o) > o.w THEN LabelW(g, o) - o.w ELSE 0
OverH(g, o) == IF HasOutLabel(o) /\ o.lside \in {"left", "right"} /\ LabelH(g, o) > o.h THEN LabelH(g, o) - o.h ELSE 0
Mod3D(g, o) == IF o.threeD = 1 THEN g.threeD ELSE IF o.multiple = 1 THEN g.multiple ELSE 0
MTop(g, o)    == Max(Max(IF HasOutLabel(o) /\ o.lside = "top" THEN LabelH(g, o) ELSE 0, IF o.icon = 1 /\ o.iside = "top" THEN g.iconSize + g.pad ELSE 0),
                     IF o.lalign = "center" THEN CeilHalf(OverH(g, o)) ELSE IF o.lalign = "end" THEN OverH(g, o) ELSE 0) + Mod3D(g, o)
MBottom(g, o) == Max(Max(IF HasOutLabel(o) /\ o.lside = "bottom" THEN LabelH(g, o) ELSE 0, IF o.icon = 1 /\ o.iside = "bottom" THEN g.iconSize + g.pad ELSE 0),
                     IF o.lalign = "center" THEN CeilHalf(OverH(g, o)) ELSE IF o.lalign = "start" THEN OverH(g, o) ELSE 0)
MLeft(g, o)   == Max(Max(IF HasOutLabel(o) /\ o.lside = "left" THEN LabelW(g, o) ELSE 0, IF o.icon = 1 /\ o.iside = "left" THEN g.iconSize + g.pad ELSE 0),
                     IF o.lalign = "center" THEN CeilHalf(OverW(g, o)) ELSE IF o.lalign = "end" THEN OverW(g, o) ELSE 0)
MRight(g, o)  == Max(Max(IF HasOutLabel(o) /\ o.lside = "right" THEN LabelW(g, o) ELSE 0, IF o.icon = 1 /\ o.iside = "right" THEN g.iconSize + g.pad ELSE 0),
                     IF o.lalign = "center" THEN CeilHalf(OverW(g, o)) ELSE IF o.lalign = "start" THEN OverW(g, o) ELSE 0) + Mod3D(g, o)
InBox(p, x1, y1, x2, y2, t) == p[1] >= x1 - t /\ p[1] <= x2 + t /\ p[2] >= y1 - t /\ p[2] <= y2 + t
InExtent(g, o, p) == InBox(p, o.x - MLeft(g, o), o.y - MTop(g, o), o.x2 + MRight(g, o), o.y2 + MBottom(g, o), Tol)
StrictlyInside(o, p) == p[1] > o.x + Tol /\ p[1] < o.x2 - Tol /\ p[2] > o.y + Tol /\ p[2] < o.y2 - Tol
RectLike(o) == o.shape \in {"rectangle", "square", "", "class", "sql_table", "code", "text", "image", "sequence_diagram"} /\ o.threeD = 0
\* a connection end attaches to the border of the extent: inside the (tolerant) extent, and for box-shaped shapes not in the box's interior
EndOK(g, o, p) == InExtent(g, o, p) /\ (RectLike(o) => ~StrictlyInside(o, p))


\* ------------------------------------------------------------------ special layouts (C22 grid, C23 sequence, C24 near)
Abs(a) == IF a < 0 THEN 0 - a ELSE a
Near1(a, b) == Abs(a - b) <= 1
SeqOfSet(S, n) == [k \in 1..Cardinality(S) |-> CHOOSE i \in S : Cardinality({j \in S : j < i}) = k - 1]   \* S subset of 1..n, ascending

\* ---- C22
Cells(g, c) == SeqOfSet({i \in 1..Len(g.objs) : g.objs[i].parent = c}, Len(g.objs))     \* declaration order = list order
VGap(o) == IF o.vg >= 0 THEN o.vg ELSE IF o.gg >= 0 THEN o.gg ELSE 40
HGap(o) == IF o.hg >= 0 THEN o.hg ELSE IF o.gg >= 0 THEN o.gg ELSE 40
RowDirected(o) == IF o.gridRows > 0 /\ o.gridCols > 0 THEN o.rowsFirst = 1 ELSE o.gridCols <= 0
\* coordinates along the fill direction (u) and across it (v): rows fill along x, columns along y
\* cells are separated extent to extent: a cell's outside label belongs to the cell
U1X(g, o, rd) == IF rd THEN o.x - MLeft(g, o) ELSE o.y - MTop(g, o)
U2X(g, o, rd) == IF rd THEN o.x2 + MRight(g, o) ELSE o.y2 + MBottom(g, o)
V1X(g, o, rd) == IF rd THEN o.y - MTop(g, o) ELSE o.x - MLeft(g, o)
V2X(g, o, rd) == IF rd THEN o.y2 + MBottom(g, o) ELSE o.x2 + MRight(g, o)
GridOK(e, g, c) ==
  LET grid == g.objs[c] cells == Cells(g, c) n == Len(cells) rd == RowDirected(grid)
      ug == IF rd THEN HGap(grid) ELSE VGap(grid)      \* gap between neighbours of a line
      vgp == IF rd THEN VGap(grid) ELSE HGap(grid)     \* gap between lines
      O(k) == g.objs[cells[k]]
      U1(o, r) == U1X(g, o, r) U2(o, r) == U2X(g, o, r) V1(o, r) == V1X(g, o, r) V2(o, r) == V2X(g, o, r)
      SameLine(a, b) == Near1(V1(a, rd), V1(b, rd))
      LineEnd(k) == CHOOSE m \in {V2(O(j), rd) : j \in {jj \in 1..n : SameLine(O(jj), O(k))}} : \A j \in {jj \in 1..n : SameLine(O(jj), O(k))} : V2(O(j), rd) <= m
  IN
  /\ \A k \in 1..(n - 1) : LET a == O(k) b == O(k + 1) IN
       Chk(\/ (SameLine(a, b) /\ Near1(U1(b, rd) - U2(a, rd), ug))                                  \* next cell of the same row/column, one gap further
           \/ (V1(b, rd) > V1(a, rd) /\ Near1(U1(b, rd), U1(O(1), rd)) /\ Near1(V1(b, rd) - LineEnd(k), vgp)),  \* first cell of the next row/column
           "C22", "cells-not-in-declaration-order-with-the-configured-gaps", <<e.engine, grid.id, IF rd THEN "rows" ELSE "columns", k, <<a.x, a.y, a.x2, a.y2>>, <<b.x, b.y, b.x2, b.y2>>, <<ug, vgp>>>>)
  /\ \A k \in 1..n : Chk(O(k).x >= grid.x - 1 /\ O(k).y >= grid.y - 1 /\ O(k).x2 <= grid.x2 + 1 /\ O(k).y2 <= grid.y2 + 1, "C22", "cell-outside-the-grid-container", <<e.engine, O(k).id>>)
  /\ \A j \in 1..n : \A k \in (j + 1)..n : LET a == O(j) b == O(k) IN
       Chk(b.x >= a.x2 - 1 \/ a.x >= b.x2 - 1 \/ b.y >= a.y2 - 1 \/ a.y >= b.y2 - 1, "C22", "cells-overlap", <<e.engine, a.id, b.id>>)
  /\ (grid.gridRows > 0 /\ grid.gridCols > 0) =>
       \A j \in 1..n : \A k \in 1..n : LET a == O(j) b == O(k) IN
         /\ Chk(Near1(a.y, b.y) => Near1(a.h, b.h), "C22", "cells-of-a-row-differ-in-height", <<e.engine, a.id, b.id, a.h, b.h>>)
         /\ Chk(Near1(a.x, b.x) => Near1(a.w, b.w), "C22", "cells-of-a-column-differ-in-width", <<e.engine, a.id, b.id, a.w, b.w>>)

\* ---- C23
Actors(g, q) == SeqOfSet({i \in 1..Len(g.objs) : g.objs[i].seq = q /\ g.objs[i].isActor = 1 /\ g.objs[i].parent = q}, Len(g.objs))
Msgs(g, q) == SeqOfSet({k \in 1..Len(g.edges) : g.edges[k].src > 0 /\ g.edges[k].dst > 0 /\ g.objs[g.edges[k].src].seq = q /\ g.objs[g.edges[k].dst].seq = q
                                             /\ g.objs[g.edges[k].src].actor > 0 /\ g.objs[g.edges[k].dst].actor > 0 /\ Len(g.edges[k].route) >= 2}, Len(g.edges))
SeqOK(e, g, q) ==
  LET actors == Actors(g, q) msgs == Msgs(g, q)
      A(k) == g.objs[actors[k]] M(k) == g.edges[msgs[k]]
      First(k) == M(k).route[1] LastP(k) == M(k).route[Len(M(k).route)]
  IN
  /\ \A k \in 1..(Len(actors) - 1) :
       /\ Chk(A(k + 1).x >= A(k).x2, "C23", "actors-not-left-to-right-in-declaration-order", <<e.engine, A(k).id, A(k + 1).id, A(k).x, A(k + 1).x>>)
       /\ Chk(Near1(A(k).y2, A(k + 1).y2), "C23", "actors-not-on-a-common-baseline", <<e.engine, A(k).id, A(k + 1).id, A(k).y2, A(k + 1).y2>>)
  /\ \A k \in 1..(Len(msgs) - 1) :
       Chk(First(k + 1)[2] >= First(k)[2], "C23", "messages-not-top-to-bottom-in-declaration-order", <<e.engine, k, First(k)[2], First(k + 1)[2]>>)
  /\ \A k \in 1..Len(msgs) : LET sa == g.objs[g.objs[M(k).src].actor] da == g.objs[g.objs[M(k).dst].actor] IN
       /\ Chk(sa.id # da.id => (First(k)[2] = LastP(k)[2]), "C23", "message-between-different-actors-is-not-horizontal", <<e.engine, k, First(k), LastP(k)>>)
       /\ Chk(First(k)[1] >= sa.x - 1 /\ First(k)[1] <= sa.x2 + 1, "C23", "message-does-not-start-on-its-actors-lifeline", <<e.engine, k, sa.id, First(k), <<sa.x, sa.x2>>>>)
       /\ Chk(LastP(k)[1] >= da.x - 1 /\ LastP(k)[1] <= da.x2 + 1, "C23", "message-does-not-end-on-its-actors-lifeline", <<e.engine, k, da.id, LastP(k), <<da.x, da.x2>>>>)

\* ---- C24
MainObjs(g) == {i \in 1..Len(g.objs) : g.objs[g.objs[i].top].near = "" /\ g.objs[i].finite = 1}
NearOK(e, g) ==
  LET main == MainObjs(g) IN
  main # {} =>
    \* the main diagram's bounding box covers the shapes with their outside labels and icons
    LET X1(i) == g.objs[i].x - MLeft(g, g.objs[i])  Y1(i) == g.objs[i].y - MTop(g, g.objs[i])
        X2(i) == g.objs[i].x2 + MRight(g, g.objs[i]) Y2(i) == g.objs[i].y2 + MBottom(g, g.objs[i])
        \* ... and the routes of the connections among them
        medges == {k \in 1..Len(g.edges) : g.edges[k].src > 0 /\ g.edges[k].dst > 0 /\ g.edges[k].src \in main /\ g.edges[k].dst \in main /\ g.edges[k].finite = 1}
        PX == UNION {{g.edges[k].route[j][1] : j \in 1..Len(g.edges[k].route)} : k \in medges}
        PY == UNION {{g.edges[k].route[j][2] : j \in 1..Len(g.edges[k].route)} : k \in medges}
        XS1 == {X1(i) : i \in main} \cup PX  XS2 == {X2(i) : i \in main} \cup PX
        YS1 == {Y1(i) : i \in main} \cup PY  YS2 == {Y2(i) : i \in main} \cup PY
        mx1 == CHOOSE v \in XS1 : \A w \in XS1 : v <= w
        my1 == CHOOSE v \in YS1 : \A w \in YS1 : v <= w
        mx2 == CHOOSE v \in XS2 : \A w \in XS2 : v >= w
        my2 == CHOOSE v \in YS2 : \A w \in YS2 : v >= w
    IN \A i \in 1..Len(g.objs) : LET o == g.objs[i] IN
         (o.near # "" /\ o.parent = 0 /\ o.finite = 1) =>
           /\ Chk(o.near \in {"top-left", "top-center", "top-right"} => o.y2 <= my1 + 1, "C24", "near-top-shape-not-above-the-diagram", <<e.engine, o.id, o.near, <<o.x, o.y, o.x2, o.y2>>, <<mx1, my1, mx2, my2>>>>)
           /\ Chk(o.near \in {"bottom-left", "bottom-center", "bottom-right"} => o.y >= my2 - 1, "C24", "near-bottom-shape-not-below-the-diagram", <<e.engine, o.id, o.near, <<o.x, o.y, o.x2, o.y2>>, <<mx1, my1, mx2, my2>>>>)
           /\ Chk(o.near \in {"top-left", "center-left", "bottom-left"} => o.x2 <= mx1 + 1, "C24", "near-left-shape-not-left-of-the-diagram", <<e.engine, o.id, o.near, <<o.x, o.y, o.x2, o.y2>>, <<mx1, my1, mx2, my2>>>>)
           /\ Chk(o.near \in {"top-right", "center-right", "bottom-right"} => o.x >= mx2 - 1, "C24", "near-right-shape-not-right-of-the-diagram", <<e.engine, o.id, o.near, <<o.x, o.y, o.x2, o.y2>>, <<mx1, my1, mx2, my2>>>>)
           \* centring is judged against the main diagram when this is the only shape of its phase (several near shapes of a phase are centred on the box that the earlier ones already extended)
           /\ Chk((o.near \in {"top-center", "bottom-center"} /\ Cardinality({j \in 1..Len(g.objs) : g.objs[j].parent = 0 /\ g.objs[j].near \in {"top-center", "bottom-center"}}) = 1) => Abs((o.x + o.x2) - (mx1 + mx2)) <= 2 * g.pad + 2, "C24", "near-center-shape-not-centred-horizontally", <<e.engine, o.id, o.near, <<o.x, o.x2>>, <<mx1, mx2>>>>)
           /\ Chk((o.near \in {"center-left", "center-right"} /\ Cardinality({j \in 1..Len(g.objs) : g.objs[j].parent = 0 /\ g.objs[j].near \in {"center-left", "center-right"}}) = 1) => Abs((o.y + o.y2) - (my1 + my2)) <= 2 * g.pad + 2, "C24", "near-center-shape-not-centred-vertically", <<e.engine, o.id, o.near, <<o.y, o.y2>>, <<my1, my2>>>>)

Special(e) ==
  LET g == e.geom IN
  e.ok = 1 =>
    /\ \A c \in 1..Len(g.objs) : (g.objs[c].grid = 1 /\ g.objs[c].finite = 1) => GridOK(e, g, c)
    /\ \A q \in 1..Len(g.objs) : (g.objs[q].isSeq = 1 /\ g.objs[q].finite = 1) => SeqOK(e, g, q)
    /\ NearOK(e, g)

Layout(e) ==
  LET g == e.geom n == Len(g.objs) IN
  /\ Chk(e.ok = 1, "C17", "layout-failed", <<e.engine, e.msg>>)
  /\ Chk(e.ok = 1 => e.renderOK = 1, "C17", "laid-out-diagram-cannot-be-rendered", <<e.engine, e.renderMsg>>)
  /\ e.ok = 1 =>
       /\ Chk(\A i \in 1..n : g.objs[i].finite = 1 /\ g.objs[i].w >= 0 /\ g.objs[i].h >= 0, "C17", "shape-without-finite-position-or-non-negative-size",
              {g.objs[i].id : i \in {j \in 1..n : g.objs[j].finite = 0 \/ g.objs[j].w < 0 \/ g.objs[j].h < 0}})
       /\ Chk(\A k \in 1..Len(g.edges) : g.edges[k].finite = 1 /\ Len(g.edges[k].route) >= 2, "C17", "connection-without-a-finite-route-of-two-points",
              {k \in 1..Len(g.edges) : g.edges[k].finite = 0 \/ Len(g.edges[k].route) < 2})
       \* ---- C18
       /\ Chk(e.struct = e.before, "C18", "layout-changed-objects-parents-connections-or-order", <<e.engine>>)
       \* ---- C19 (shapes drawn along lifelines are excluded)
       /\ \A i \in 1..n : LET o == g.objs[i] IN
            (o.parent # 0 /\ o.inSeq = 0 /\ g.objs[o.parent].isSeq = 0 /\ o.finite = 1) =>
              LET p == g.objs[o.parent] IN
              Chk(o.x >= p.x - 1 /\ o.y >= p.y - 1 /\ o.x2 <= p.x2 + 1 /\ o.y2 <= p.y2 + 1, "C19", "shape-not-inside-its-container", <<e.engine, o.id, <<o.x, o.y, o.x2, o.y2>>, <<p.x, p.y, p.x2, p.y2>>, [shape |-> o.shape, lside |-> o.lside, iside |-> o.iside, pgrid |-> p.grid, near |-> o.near]>>)
       /\ \A i \in 1..n : \A j \in (i + 1)..n : LET a == g.objs[i] b == g.objs[j] IN
            (a.parent = b.parent /\ a.inSeq = 0 /\ b.inSeq = 0 /\ a.finite = 1 /\ b.finite = 1) =>
              Chk(b.x >= a.x2 - 1 \/ a.x >= b.x2 - 1 \/ b.y >= a.y2 - 1 \/ a.y >= b.y2 - 1, "C19", "sibling-shapes-overlap",
                  <<e.engine, a.id, b.id, a.near, b.near, <<a.x, a.y, a.x2, a.y2>>, <<b.x, b.y, b.x2, b.y2>>>>)
       \* ---- C20 (sequence-diagram messages are excluded)
       /\ \A k \in 1..Len(g.edges) : LET ed == g.edges[k] IN
            (ed.inSeq = 0 /\ ed.finite = 1 /\ Len(ed.route) >= 2) =>
              /\ Chk(EndOK(g, g.objs[ed.src], ed.route[1]), "C20", "connection-does-not-start-on-its-source", <<e.engine, g.objs[ed.src].id, g.objs[ed.src].shape, ed.route[1], <<g.objs[ed.src].x, g.objs[ed.src].y, g.objs[ed.src].x2, g.objs[ed.src].y2>>, [self |-> IF ed.src = ed.dst THEN 1 ELSE 0, kids |-> g.objs[ed.src].kids, lside |-> g.objs[ed.src].lside, iside |-> g.objs[ed.src].iside]>>)
              /\ Chk(EndOK(g, g.objs[ed.dst], ed.route[Len(ed.route)]), "C20", "connection-does-not-end-on-its-destination", <<e.engine, g.objs[ed.dst].id, g.objs[ed.dst].shape, ed.route[Len(ed.route)], <<g.objs[ed.dst].x, g.objs[ed.dst].y, g.objs[ed.dst].x2, g.objs[ed.dst].y2>>, [self |-> IF ed.src = ed.dst THEN 1 ELSE 0, kids |-> g.objs[ed.dst].kids, lside |-> g.objs[ed.dst].lside, iside |-> g.objs[ed.dst].iside]>>)
       \* ---- C21 leaves outside grids and sequence diagrams
       /\ \A i \in 1..n : LET o == g.objs[i] IN
            (o.kids = 0 /\ o.inSeq = 0 /\ o.isSeq = 0 /\ (o.parent = 0 \/ g.objs[o.parent].grid = 0) /\ o.finite = 1) =>
              /\ (o.ew > 0 /\ o.eh > 0 /\ o.shape \notin {"sql_table", "class", "code", "text"}) =>
                   Chk(IF o.shape \in {"square", "circle"} THEN o.w = Max(o.ew, o.eh) /\ o.h = Max(o.ew, o.eh) ELSE o.w = o.ew /\ o.h = o.eh,
                       "C21", "explicit-size-not-honoured", <<e.engine, o.id, o.shape, <<o.ew, o.eh>>, <<o.w, o.h>>, [icon |-> o.icon, label |-> o.label, lpos |-> o.lpos]>>)
              /\ (o.ew = 0 /\ o.eh = 0 /\ o.label = 1 /\ o.lside = "" /\ o.lpos \in {"", "INSIDE_MIDDLE_CENTER"} /\ o.innerW > 0) =>
                   Chk(o.lw <= o.innerW + 1 /\ o.lh <= o.innerH + 1, "C21", "label-does-not-fit-the-text-area-of-an-auto-sized-shape", <<e.engine, o.id, o.shape, <<o.lw, o.lh>>, <<o.innerW, o.innerH>>>>)


\* ------------------------------------------------------------------ export and render (C28 C29 C30 C31 C25)
Vocab == JsonDeserialize("svg_vocab.json")
SetOf(q) == {q[k] : k \in 1..Len(q)}
Export(e) ==
  /\ Chk(e.ok = 1, "C28", "export-failed", e.theme)
  /\ e.ok = 1 =>
       /\ Chk(Len(e.shapeIDs) = Len(e.objIDs) /\ SetOf(e.shapeIDs) = SetOf(e.objIDs) /\ Cardinality(SetOf(e.shapeIDs)) = Len(e.shapeIDs),
              "C28", "shapes-are-not-one-to-one-with-objects", <<e.theme, SetOf(e.shapeIDs) \ SetOf(e.objIDs), SetOf(e.objIDs) \ SetOf(e.shapeIDs), Len(e.shapeIDs), Len(e.objIDs)>>)
       /\ Chk(Len(e.conns) = Len(e.edges) /\ SetOf(e.conns) = SetOf(e.edges), "C28", "connections-are-not-one-to-one-with-source-and-destination", <<e.theme, SetOf(e.conns) \ SetOf(e.edges), SetOf(e.edges) \ SetOf(e.conns)>>)
       /\ \A k \in 1..Len(e.styles) : Chk(e.styles[k].same = 1, "C28", "user-style-changed-by-export", <<e.theme, e.styles[k].id, e.styles[k].key, e.styles[k].user, e.styles[k].exported>>)
Render(e) ==
  /\ Chk(e.ok = 1, "C30", "render-failed", e.msg)
  /\ e.ok = 1 =>
       \* ---- C29
       /\ \A k \in 1..Len(e.extents) : LET x == e.extents[k] IN
            \* 1 px: the extents are floor/ceil of real coordinates, the box truncates them
            Chk(x[2] >= e.bbox[1] - 1 /\ x[3] >= e.bbox[2] - 1 /\ x[4] <= e.bbox[3] + 1 /\ x[5] <= e.bbox[4] + 1, "C29", "drawn-extent-outside-the-reported-bounding-box", <<x, e.bbox>>)
       /\ Chk(e.viewBox[1] <= e.bbox[1] - e.pad /\ e.viewBox[2] <= e.bbox[2] - e.pad /\ e.viewBox[1] + e.viewBox[3] >= e.bbox[3] + e.pad /\ e.viewBox[2] + e.viewBox[4] >= e.bbox[4] + e.pad,
              "C29", "viewport-does-not-contain-bounding-box-plus-padding", <<e.viewBox, e.bbox, e.pad>>)
       \* ---- C30
       /\ Chk(e.xmlOK = 1, "C30", "svg-is-not-well-formed-xml", e.combo)
       /\ Chk(e.markerInNames = 0, "C30", "user-text-inside-an-element-or-attribute-name-or-duplicate-attribute", e.markerInNames)
       /\ Chk(SetOf(e.elems) \subseteq SetOf(Vocab.elems), "C30", "element-outside-the-renderers-vocabulary", SetOf(e.elems) \ SetOf(Vocab.elems))
       /\ Chk(SetOf(e.attrs) \subseteq SetOf(Vocab.attrs), "C30", "attribute-outside-the-renderers-vocabulary", SetOf(e.attrs) \ SetOf(Vocab.attrs))
       \* ---- C31
       /\ \A c \in DOMAIN e.cssExpected : Chk(c \in DOMAIN e.css /\ e.css[c] = e.cssExpected[c], "C31", "theme-colour-class-is-neither-the-themes-colour-nor-the-override",
                                              <<e.theme, c, IF c \in DOMAIN e.css THEN e.css[c] ELSE "missing", e.cssExpected[c]>>)
       /\ \A c \in DOMAIN e.cssDarkExpected : Chk(c \in DOMAIN e.cssDark /\ e.cssDark[c] = e.cssDarkExpected[c], "C31", "dark-theme-colour-class-is-neither-the-themes-colour-nor-the-override",
                                                  <<e.dark, c, IF c \in DOMAIN e.cssDark THEN e.cssDark[c] ELSE "missing", e.cssDarkExpected[c]>>)
       \* ---- C25
       /\ \A k \in 1..Len(e.again) : Chk(e.again[k] = e.digest, "C25", "same-input-and-options-rendered-to-different-bytes", <<e.combo, e.digest, e.again[k]>>)

Serde(e) ==
  /\ Chk(e.rtBefore = 1, "C26", "graph-changed-by-serialize-deserialize-before-layout", e.msg)
  /\ Chk(e.rtAfter = 1, "C26", "graph-changed-by-serialize-deserialize-after-layout", e.msg)
  /\ Chk(e.sameResult = 1, "C26", "layout-through-the-wire-format-differs-from-in-process", e.msg)
  \* the route-edges leg of the protocol: the plugin side reads exactly the connections it was asked to route
  /\ \A k \in 1..Len(e.routes) : Chk(e.routes[k].asked = e.routes[k].received, "C26", "plugin-asked-to-route-other-connections-than-requested", <<e.routes[k].asked, e.routes[k].received>>)

Crash(e) ==
  LET prop == CASE e.stage = "compile" -> "C07" [] e.stage = "fmt" -> "C03" [] e.stage = "layout" -> "C17" [] e.stage = "render" -> (IF stage = "layout" /\ FALSE THEN "C17" ELSE "C30") [] e.stage = "export" -> "C28" [] e.stage = "serde" -> "C26" [] OTHER -> "C17"
  IN Chk(FALSE, prop, IF e.ev = "panic" THEN "stage-crashed" ELSE "stage-did-not-terminate", <<e.stage, IF "msg" \in DOMAIN e THEN e.msg ELSE "", IF "rglobs" \in DOMAIN e THEN e.rglobs ELSE 0>>)

Init == l = 1 /\ tid = 0 /\ stage = "none"
Next ==
  /\ l <= Len(Trace) /\ l' = l + 1
  /\ LET e == Trace[l] IN
       CASE e.ev = "reset"     -> tid' = e.tid /\ stage' = "none"
         [] e.ev = "gen"       -> stage' = "gen" /\ UNCHANGED tid
         [] e.ev = "compile"   -> Compile(e) /\ stage' = "compile" /\ UNCHANGED tid
         [] e.ev = "wf"        -> WF(e) /\ UNCHANGED <<tid, stage>>
         [] e.ev = "recompile" -> Recompile(e) /\ UNCHANGED <<tid, stage>>
         [] e.ev = "fmt"       -> Fmt(e) /\ UNCHANGED <<tid, stage>>
         [] e.ev = "layout"    -> Layout(e) /\ Special(e) /\ stage' = "layout" /\ UNCHANGED tid
         [] e.ev = "serde"     -> Serde(e) /\ UNCHANGED <<tid, stage>>
         [] e.ev = "export"    -> Export(e) /\ UNCHANGED <<tid, stage>>
         [] e.ev = "render"    -> Render(e) /\ stage' = "render" /\ UNCHANGED tid
         [] e.ev = "badtheme"  -> Chk(e.rejected = 1, "C31", "unknown-theme-id-accepted", e) /\ UNCHANGED <<tid, stage>>
         [] e.ev \in {"panic", "timeout"} -> Crash(e) /\ UNCHANGED <<tid, stage>>
         [] OTHER -> Chk(FALSE, "MACHINERY", "unknown-event", e.ev) /\ UNCHANGED <<tid, stage>>
Spec == Init /\ [][Next]_<<l, tid, stage>>
Done == PrintT(<<"TRACE-END", TLCGet("stats").diameter, Len(Trace)>>)
=============================================================================
