---------------------------- MODULE TraceD2Boards ----------------------------
(* Board inheritance (family "boards": C15), on top of the declaration semantics of D2IR.
   A program is a tree of boards.  Every board has its own declarations (indices into the D2IR
   alphabet, in source order); a nested board's block stands at a position among its parent's
   declarations.  The declarations that make up a board are derived by the inheritance rule:
       root, layer   : its own declarations (a layer starts empty)
       scenario      : what its base board had declared BEFORE the scenarios block, then its own
       first step    : what the base board had declared before the steps block, then its own
       later step    : everything of the previous step, then its own
   and the board's content is D2IR's Apply folded over that sequence.  Because every board is derived
   from declarations only, nothing declared inside a board can reach its base or a sibling.
   A "prog" event carries the board tree and the projection of every board the real compiler produced. *)
EXTENDS D2IR
VARIABLES l, tid
Trace == ndJsonDeserialize("trace.ndjson")
Chk(c, prop, aspect, detail) == IF c THEN TRUE ELSE PrintT(<<"VIOL", tid, (IF "i" \in DOMAIN Trace[l] THEN Trace[l].i ELSE 0), prop, aspect, detail>>)

\* B: sequence of [kind, parent, pos, prev, decls]
RECURSIVE Derive(_, _), Before(_, _, _)
Inherited(B, i) ==
  LET b == B[i] IN
  CASE b.kind \in {"root", "layer"} -> <<>>
    [] b.kind = "scenario" -> Before(B, b.parent, b.pos)
    [] b.kind = "step" -> IF b.prev = 0 THEN Before(B, b.parent, b.pos) ELSE Derive(B, b.prev)
Derive(B, i) == Inherited(B, i) \o B[i].decls
Before(B, i, pos) == Inherited(B, i) \o SubSeq(B[i].decls, 1, pos)

RECURSIVE FoldDecls(_, _, _)
FoldDecls(s, q, k) == IF k > Len(q) THEN s ELSE FoldDecls(ApplyR(s, Decls[q[k]], "stable"), q, k + 1)
Content(B, i) == FoldDecls(Empty, Derive(B, i), 1)

Pairs(q) == {<<q[k][1], q[k][2]>> : k \in 1..Len(q)}
EdgeKey(e) == <<e.src, e.dst, e.sa, e.da>>
\* the property speaks about content, not about order: nested boards list objects depth-first and connections by scope
ObjSet(p) == {<<p.objs[i].path, p.objs[i].label, p.objs[i].shape, p.objs[i].attrs>> : i \in 1..Len(p.objs)}
EdgeSet(p) == {<<EdgeKey(p.edges[j]), p.edges[j].idx, p.edges[j].label, p.edges[j].attrs>> : j \in 1..Len(p.edges)}
Norm(o) == [objs |-> [i \in 1..Len(o.objs) |-> [o.objs[i] EXCEPT !.attrs = Pairs(o.objs[i].attrs)]], edges |-> [j \in 1..Len(o.edges) |-> [o.edges[j] EXCEPT !.attrs = Pairs(o.edges[j].attrs)]]]
Same(o, x) == ObjSet(Norm(o)) = ObjSet(x) /\ EdgeSet(Norm(o)) = EdgeSet(x) /\ Len(o.objs) = Len(x.objs) /\ Len(o.edges) = Len(x.edges)
Brief(p) == <<[i \in 1..Len(p.objs) |-> <<p.objs[i].path, p.objs[i].label, p.objs[i].shape, p.objs[i].attrs>>], [j \in 1..Len(p.edges) |-> <<EdgeKey(p.edges[j]), p.edges[j].idx, p.edges[j].label, p.edges[j].attrs>>]>>

Prog(e) ==
  LET B == e.boards
      anyErr == \E i \in 1..Len(B) : Content(B, i).err
  IN
  /\ Chk(e.panic = 0, "C15", "compile-crashed", e.msg)
  /\ e.panic = 0 =>
       /\ Chk(anyErr \/ e.err = 0, "C15", "valid-board-tree-rejected", <<e.msg, e.text>>)
       /\ Chk(~anyErr \/ e.err = 1, "C15", "reference-to-a-connection-the-board-does-not-have-accepted", e.text)
       /\ (~anyErr /\ e.err = 0) =>
            \A i \in 1..Len(B) :
              /\ Chk(B[i].found = 1, "C15", "board-missing-from-the-compiled-diagram", B[i].path)
              /\ B[i].found = 1 =>
                   Chk(Same(B[i].obs, Proj(Content(B, i))), "C15",
                       CASE B[i].kind = "root" -> "base-board-differs-from-its-own-declarations"
                         [] B[i].kind = "layer" -> "layer-does-not-start-empty-or-differs-from-its-own-declarations"
                         [] B[i].kind = "scenario" -> "scenario-is-not-the-base-declared-before-it-plus-its-own-changes"
                         [] OTHER -> "step-is-not-the-previous-step-plus-its-own-changes",
                       <<B[i].path, ObjSet(Norm(B[i].obs)) \ ObjSet(Proj(Content(B, i))), ObjSet(Proj(Content(B, i))) \ ObjSet(Norm(B[i].obs)), EdgeSet(Norm(B[i].obs)) \ EdgeSet(Proj(Content(B, i))), EdgeSet(Proj(Content(B, i))) \ EdgeSet(Norm(B[i].obs)), e.text>>)

TInit == l = 1 /\ tid = 0 /\ st = Empty /\ prog = <<>>
TNext ==
  /\ l <= Len(Trace) /\ l' = l + 1 /\ UNCHANGED <<st, prog>>
  /\ LET e == Trace[l] IN
       CASE e.ev = "reset" -> tid' = e.tid
         [] e.ev = "prog"  -> Prog(e) /\ UNCHANGED tid
         [] OTHER -> Chk(FALSE, "MACHINERY", "unknown-event", e.ev) /\ UNCHANGED tid
TSpec == TInit /\ [][TNext]_<<l, tid, st, prog>>
Done == PrintT(<<"TRACE-END", TLCGet("stats").diameter, Len(Trace)>>)
=============================================================================
