------------------------------ MODULE AnimOps ------------------------------
(* Pure operators shared by D2Anim (the design, ideal key frames) and TraceD2Anim (key frames
   printed by the real d2animate.Wrap).  A board's animation is a sequence of CSS key-frame
   stops [q, lo, hi, op]: q = offset in 1e-6 percent of the cycle, [lo,hi] = the stop's time
   (lo = hi when exact), op = opacity * 100.  CSS semantics: stops at the same offset cascade
   (the later one wins), opacity is linear between neighbouring stops. *)
EXTENDS Integers, Sequences, FiniteSets

EffIdx(stops) == {k \in 1..Len(stops) : \A j \in (k+1)..Len(stops) : stops[j].q # stops[k].q}

Eff(stops) ==
  LET idx == EffIdx(stops)
  IN [j \in 1..Cardinality(idx) |-> stops[CHOOSE k \in idx : Cardinality({m \in idx : m < k}) = j - 1]]

\* opacity is exactly v (0 or 100) at time t: t lies between two neighbouring effective stops of opacity v
Holds(E, t, v) ==
  \/ \E k \in 1..(Len(E) - 1) : E[k].op = v /\ E[k+1].op = v /\ E[k].hi <= t /\ t <= E[k+1].lo
  \/ \E k \in 1..Len(E) : E[k].op = v /\ E[k].lo = t /\ E[k].hi = t

Full(E, t)   == Holds(E, t, 100)
Hidden(E, t) == Holds(E, t, 0)

NonDecreasing(stops) == \A k \in 1..(Len(stops) - 1) : stops[k].q <= stops[k+1].q
InRange(stops)       == \A k \in 1..Len(stops) : stops[k].q >= 0 /\ stops[k].q <= 100000000
=============================================================================
