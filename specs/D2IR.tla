-------------------------------- MODULE D2IR --------------------------------
(* Declaration-by-declaration semantics of the D2 core fragment (C09, C10, C11): nested keys, labels,
   shapes, style attributes, null assignments, connections with and without indexes.
   The IR compiler (d2ir/compile.go: compileKey/_compileField/_compileEdges, d2ir.go: ensureField,
   createEdge2, DeleteField, DeleteEdge) walks the declarations in source order and mutates one
   tree; here one action Declare(d) per declaration of the alphabet (ir_alphabet.json, shared with
   the Go driver that renders the same declarations to D2 text).

   Names are opaque strings; case folding is the alphabet's table.  "~" = unset.

   Where the property text is silent the module follows the code and says so:
     DEVIATION-1  `x.y: null` on a missing y still creates the containers on the path (x).
     DEVIATION-2  an explicit `label:` field beats the primary value `a: text` whatever their order
                  (code rule). LabelRule = "lastwriter" is what C10 states; the two differ only on
                  programs that assign both - TraceD2IR reports those under C10.
     DEVIATION-3  IndexRule: which connection an in-source reference (x -> y)[i] names after a
                  connection of that bundle was deleted.  "stable" = the code: every connection keeps
                  the index it was created with and a new connection gets one past the highest index
                  in use.  "position" = the i-th surviving connection.  "count" = the pinned code before
                  the fix: a new connection got index = number of survivors, so indexes could repeat
                  (the C11 defect; kept as a variant whose counter-example is replayed into the code).
                  The compiled graph always numbers survivors 0..n-1.
     DEVIATION-5  a connection created while attribute globs on connections stand ((* -> *)[*].label: L) gets the
                  glob's value even when the creating declaration carries its own (a -> b: own): the code applies
                  the standing rules after the declaration.  `label` follows the code, `lblP` the property;
                  TraceD2IR reports the programs on which they differ under C12. *)
EXTENDS Integers, Sequences, FiniteSets, Json, TLC
CONSTANTS MaxLen, IndexRule, LabelRule
VARIABLES st, prog
Alphabet == JsonDeserialize("ir_alphabet.json")
Decls == Alphabet.decls
NDecls == Len(Decls)
StyleAttrs == {"style.opacity", "style.stroke"}
None == "~"

Fold(n) == Alphabet.fold[n]
FoldPath(p) == [i \in 1..Len(p) |-> Fold(p[i])]
IsPrefixSeq(a, b) == Len(a) <= Len(b) /\ \A k \in 1..Len(a) : a[k] = b[k]
Front(q) == SubSeq(q, 1, Len(q) - 1)
Last(q) == q[Len(q)]

NewObj(key, spell) == [key |-> key, spell |-> spell, plbl |-> None, flbl |-> None, lblLast |-> "n",
                       shape |-> None, attrs |-> [a \in StyleAttrs |-> None], cp |-> None, ca |-> <<>>, clsLast |-> <<>>]
Has(objs, key) == \E i \in 1..Len(objs) : objs[i].key = key
IdxOf(objs, key) == CHOOSE i \in 1..Len(objs) : objs[i].key = key

SetAttrO(o, a, v) == IF a = "label" THEN [o EXCEPT !.flbl = v, !.lblLast = "f"]
                     ELSE IF a = "shape" THEN [o EXCEPT !.shape = v]
                     ELSE [o EXCEPT !.attrs[a] = v]

\* ---- globs (C12): a standing rule [scope, pat, a, v] acts like declaring `a: v` on every object of its
\* scope whose name matches: "*" one level, "**" every level, other patterns per the alphabet's match table
PatNames(pat) == {Alphabet.match[pat][k] : k \in 1..Len(Alphabet.match[pat])}
RuleApplies(r, key) ==
  IF r.pat = "**" THEN IsPrefixSeq(r.scope, key) /\ Len(key) > Len(r.scope)
  ELSE Len(key) = Len(r.scope) + 1 /\ IsPrefixSeq(r.scope, key) /\ (r.pat = "*" \/ Last(key) \in PatNames(r.pat))
RECURSIVE ApplyRules(_, _, _)
ApplyRules(o, rules, n) == IF n > Len(rules) THEN o
                           ELSE ApplyRules(IF RuleApplies(rules[n], o.key) THEN SetAttrO(o, rules[n].a, rules[n].v) ELSE o, rules, n + 1)

RECURSIVE EnsureFrom(_, _, _, _)
EnsureFrom(objs, p, n, rules) ==
  IF n > Len(p) THEN objs
  ELSE LET key == FoldPath(SubSeq(p, 1, n)) IN
       IF Has(objs, key) THEN EnsureFrom(objs, p, n + 1, rules)
       ELSE LET ps == IF n = 1 THEN <<>> ELSE objs[IdxOf(objs, FoldPath(SubSeq(p, 1, n - 1)))].spell
            \* a target created later gets every standing rule at the moment it is created, in rule order
            IN EnsureFrom(Append(objs, ApplyRules(NewObj(key, Append(ps, p[n])), rules, 1)), p, n + 1, rules)
\* ensureField: every container on the path is created, in order, keeping the first spelling
EnsureR(objs, p, rules) == EnsureFrom(objs, p, 1, rules)

Bundle(e) == <<e.s, e.d, e.sa, e.da>>
InBundle(edges, b) == {j \in 1..Len(edges) : Bundle(edges[j]) = b}
\* connections a reference (b)[i] names
MatchesR(edges, b, i, irule) ==
  IF irule \in {"stable", "count"} THEN {j \in InBundle(edges, b) : edges[j].sid = i}
  ELSE {j \in InBundle(edges, b) : Cardinality({k \in InBundle(edges, b) : k < j}) = i}

SetObj(objs, key, f(_)) == [objs EXCEPT ![IdxOf(objs, key)] = f(@)]
RemoveIdx(q, S) == LET keep == {j \in 1..Len(q) : j \notin S}
                   IN [n \in 1..Cardinality(keep) |-> q[CHOOSE j \in keep : Cardinality({k \in keep : k < j}) = n - 1]]

Empty == [objs |-> <<>>, edges |-> <<>>, err |-> FALSE, dirty |-> {}, rules |-> <<>>, cdefs |-> <<>>, n |-> 0, grules |-> <<>>, erules |-> <<>>]

\* ---- connection globs (C12), top-level scope.  A standing attribute rule [sp, dp, sa, da, a, v] (written
\* (sp -> dp)[*].a: v) acts on every connection between top-level objects whose ends match and whose arrows are
\* the rule's; a standing creation rule (written * -> *) declares a connection for every ordered pair of distinct
\* top-level objects, those that exist and, at the moment it is created, every later one.  Neither creates objects.
PatOK(pat, name) == pat = "*" \/ Fold(pat) = name
ERuleApplies(r, e) == Len(e.s) = 1 /\ Len(e.d) = 1 /\ r.sa = e.sa /\ r.da = e.da /\ PatOK(r.sp, e.s[1]) /\ PatOK(r.dp, e.d[1])
\* an edge carries two labels: `label` follows the code (standing rules are applied after the creating declaration's
\* own label and override it - DEVIATION-5), `lblP` is what C12 states (the later, explicit declaration wins)
SetEdgeAttr(e, a, v) == IF a = "label" THEN [e EXCEPT !.label = v, !.lblP = v] ELSE [e EXCEPT !.attrs[a] = v]
RECURSIVE ApplyERules(_, _, _)
ApplyERules(e, rules, n) == IF n > Len(rules) THEN e
                            ELSE ApplyERules(IF ERuleApplies(rules[n], e) THEN SetEdgeAttr(e, rules[n].a, rules[n].v) ELSE e, rules, n + 1)
MkEdge(s, src, dst, sa, da, own, born, irule) ==
  LET e0 == [s |-> src, d |-> dst, sa |-> sa, da |-> da, label |-> None, lblP |-> None, attrs |-> [a \in StyleAttrs |-> None], sid |-> 0, born |-> born]
      inb == InBundle(s.edges, Bundle(e0))
      \* createEdge2: one past the highest index in use ("count": the pinned code before the fix, number of survivors)
      sid == IF irule = "count" THEN Cardinality(inb)
             ELSE IF inb = {} THEN 0 ELSE 1 + (CHOOSE m \in {s.edges[j].sid : j \in inb} : \A j \in inb : s.edges[j].sid <= m)
      g == ApplyERules([e0 EXCEPT !.label = own, !.lblP = own], s.erules, 1)
  IN [s EXCEPT !.edges = Append(@, [g EXCEPT !.sid = sid, !.lblP = IF own # None THEN own ELSE g.lblP])]
TopNames(objs) == LET idx == {i \in 1..Len(objs) : Len(objs[i].key) = 1}
                  IN [n \in 1..Cardinality(idx) |-> objs[CHOOSE i \in idx : Cardinality({k \in idx : k < i}) = n - 1].key[1]]
\* the pairs a creation rule has not made yet when T[k] appears: every earlier object to it, then it to every earlier object
NewPairs(T, k) == [n \in 1..(2 * (k - 1)) |-> IF n <= k - 1 THEN <<T[n], T[k]>> ELSE <<T[k], T[n - (k - 1)]>>]
AllPairs(T) == LET N == Len(T) IN [n \in 1..(N * (N - 1)) |->
                 LET i == ((n - 1) \div (N - 1)) + 1  r == ((n - 1) % (N - 1)) + 1 IN <<T[i], T[IF r < i THEN r ELSE r + 1]>>]
RECURSIVE AddPairs(_, _, _, _, _)
AddPairs(s, pairs, n, r, irule) == IF n > Len(pairs) THEN s
   ELSE AddPairs(MkEdge(s, <<pairs[n][1]>>, <<pairs[n][2]>>, r.sa, r.da, r.label, r.decl, irule), pairs, n + 1, r, irule)
RECURSIVE FireRules(_, _, _, _, _)
FireRules(s, T, k, m, irule) == IF m > Len(s.grules) THEN s ELSE FireRules(AddPairs(s, NewPairs(T, k), 1, s.grules[m], irule), T, k, m + 1, irule)
\* top-level objects that a declaration created fire the standing creation rules, one object after the other
RECURSIVE FireFrom(_, _, _, _)
FireFrom(s, T, k, irule) == IF k > Len(T) THEN s ELSE FireFrom(FireRules(s, T, k, 1, irule), T, k + 1, irule)
Fire(s, oldObjs, irule) == IF s.grules = <<>> THEN s ELSE FireFrom(s, TopNames(s.objs), Len(TopNames(oldObjs)) + 1, irule)

Matches(edges, b, i) == MatchesR(edges, b, i, IndexRule)

ApplyCore(s, d, irule) ==
  CASE d.k = "obj" ->
         LET o1 == EnsureR(s.objs, d.p, s.rules) key == FoldPath(d.p)
         IN [s EXCEPT !.objs = IF d.v = "" THEN o1 ELSE SetObj(o1, key, LAMBDA o : [o EXCEPT !.plbl = d.v, !.lblLast = "p"])]
    [] d.k = "attr" ->
         LET o1 == EnsureR(s.objs, d.p, s.rules) key == FoldPath(d.p)
         IN [s EXCEPT !.objs = SetObj(o1, key, LAMBDA o : SetAttrO(o, d.a, d.v))]
    [] d.k = "anull" ->
         LET o1 == EnsureR(s.objs, d.p, s.rules) key == FoldPath(d.p)
         IN [s EXCEPT !.objs = SetObj(o1, key, LAMBDA o :
               IF d.a = "label" THEN [o EXCEPT !.flbl = None, !.lblLast = IF o.plbl = None THEN "n" ELSE "p"]
               ELSE IF d.a = "shape" THEN [o EXCEPT !.shape = None]
               ELSE [o EXCEPT !.attrs[d.a] = None])]
    [] d.k = "null" ->
         LET key == FoldPath(d.p) IN
         IF Has(s.objs, key)
         THEN LET goneE == {j \in 1..Len(s.edges) : IsPrefixSeq(key, s.edges[j].s) \/ IsPrefixSeq(key, s.edges[j].d)}
              IN [s EXCEPT !.objs = RemoveIdx(s.objs, {j \in 1..Len(s.objs) : IsPrefixSeq(key, s.objs[j].key)}),
                           !.edges = RemoveIdx(s.edges, goneE),
                           !.dirty = @ \cup {Bundle(s.edges[j]) : j \in goneE}]
         ELSE [s EXCEPT !.objs = EnsureR(s.objs, Front(d.p), s.rules)]          \* DEVIATION-1
    [] d.k = "edge" ->
         \* the ends are created first (and fire the standing creation rules), then the connection itself
         LET o1 == EnsureR(EnsureR(s.objs, d.s, s.rules), d.d, s.rules)
             s1 == Fire([s EXCEPT !.objs = o1], s.objs, irule)
         IN MkEdge(s1, FoldPath(d.s), FoldPath(d.d), d.sa, d.da, IF d.v = "" THEN None ELSE d.v, s.n, irule)
    [] d.k = "gedge" ->
         LET r == [sa |-> d.sa, da |-> d.da, label |-> IF d.v = "" THEN None ELSE d.v, decl |-> s.n]
         IN [AddPairs(s, AllPairs(TopNames(s.objs)), 1, r, irule) EXCEPT !.grules = Append(s.grules, r)]
    [] d.k = "eglob" ->
         LET r == [sp |-> d.sp, dp |-> d.dp, sa |-> d.sa, da |-> d.da, a |-> d.a, v |-> d.v]
         IN [s EXCEPT !.edges = [j \in 1..Len(s.edges) |-> IF ERuleApplies(r, s.edges[j]) THEN SetEdgeAttr(s.edges[j], r.a, r.v) ELSE s.edges[j]],
                      !.erules = Append(s.erules, r)]
    [] d.k = "eref" ->
         LET b == <<FoldPath(d.s), FoldPath(d.d), d.sa, d.da>> m == MatchesR(s.edges, b, d.i, irule) IN
         IF m = {} THEN [s EXCEPT !.err = TRUE]
         ELSE [s EXCEPT !.edges = [j \in 1..Len(s.edges) |->
                 IF j \notin m THEN s.edges[j]
                 ELSE SetEdgeAttr(s.edges[j], d.a, d.v)]]
    [] d.k = "enull" ->
         LET b == <<FoldPath(d.s), FoldPath(d.d), d.sa, d.da>> m == MatchesR(s.edges, b, d.i, irule) IN
         IF m = {} THEN s
         ELSE [s EXCEPT !.edges = RemoveIdx(s.edges, m), !.dirty = @ \cup {b}]
    \* ---- classes: a class is a named bundle of attribute values, defined anywhere on the board (the order of
    \* definition and use does not matter); an object names the classes it takes, the last assignment counts
    [] d.k = "cdef" -> [s EXCEPT !.cdefs = Append(@, <<Fold(d.c), d.a, d.v>>)]
    [] d.k = "class" ->
         LET o1 == EnsureR(s.objs, d.p, s.rules) key == FoldPath(d.p)
         \* DEVIATION-4 (the code's rule): a class written as a scalar and a class list are kept apart and the scalar
         \* wins while it is there, whichever was written last; clsLast is what the property's last-assignment rule asks for
         IN [s EXCEPT !.objs = SetObj(o1, key, LAMBDA o : IF Len(d.cs) = 1 THEN [o EXCEPT !.cp = Fold(d.cs[1]), !.clsLast = FoldPath(d.cs)]
                                                                          ELSE [o EXCEPT !.ca = FoldPath(d.cs), !.clsLast = FoldPath(d.cs)])]
    [] d.k = "classnull" ->
         LET o1 == EnsureR(s.objs, d.p, s.rules) key == FoldPath(d.p)
         IN [s EXCEPT !.objs = SetObj(o1, key, LAMBDA o : [o EXCEPT !.cp = None, !.ca = <<>>, !.clsLast = <<>>])]
    [] d.k = "glob" ->
         LET r == [scope |-> FoldPath(d.p), pat |-> d.pat, a |-> d.a, v |-> d.v]
             o1 == EnsureR(s.objs, d.p, s.rules)                       \* the scope's containers are created like any key
         IN [s EXCEPT !.objs = [i \in 1..Len(o1) |-> IF RuleApplies(r, o1[i].key) THEN SetAttrO(o1[i], r.a, r.v) ELSE o1[i]],
                      !.rules = Append(s.rules, r)]
    [] OTHER -> s

\* one declaration: s.n is its number; objects it created fire the standing creation rules ("edge" does so itself, before its connection)
ApplyR(s, d, irule) ==
  IF s.err THEN s ELSE
  LET sN == [s EXCEPT !.n = @ + 1]
      s1 == ApplyCore(sN, d, irule)
  IN IF d.k = "edge" \/ s1.err THEN s1 ELSE Fire(s1, s.objs, irule)

Apply(s, d) == ApplyR(s, d, IndexRule)

\* ------------------------------------------------------------------ projection to a compiled board
\* the value a class list gives an attribute: the last class of the list that defines it, its last definition
ClassVal(cdefs, cls, a) ==
  LET hits == {<<i, j>> \in (1..Len(cls)) \X (1..Len(cdefs)) : cdefs[j][1] = cls[i] /\ cdefs[j][2] = a}
  IN IF hits = {} THEN None
     ELSE cdefs[(CHOOSE h \in hits : \A g \in hits : g[1] < h[1] \/ (g[1] = h[1] /\ g[2] <= h[2]))[2]][3]
\* class values are defaults: an object's own value wins wherever it is written; a class label counts as a label field
ClsOf(o) == IF o.cp # None THEN <<o.cp>> ELSE o.ca
WithClasses(cdefs, o) ==
  IF ClsOf(o) = <<>> THEN o
  ELSE [o EXCEPT !.shape = IF @ # None THEN @ ELSE ClassVal(cdefs, ClsOf(o), "shape"),
                 !.attrs = [a \in StyleAttrs |-> IF o.attrs[a] # None THEN o.attrs[a] ELSE ClassVal(cdefs, ClsOf(o), a)],
                 !.flbl = IF @ # None THEN @ ELSE ClassVal(cdefs, ClsOf(o), "label")]
LabelOfR(o, lrule) == IF lrule = "code"
              THEN (IF o.flbl # None THEN o.flbl ELSE IF o.plbl # None THEN o.plbl ELSE Last(o.spell))
              ELSE (IF o.lblLast = "f" THEN o.flbl ELSE IF o.lblLast = "p" THEN o.plbl ELSE Last(o.spell))
LabelOf(o) == LabelOfR(o, LabelRule)
ProjObj(o) == [path |-> o.key, spell |-> o.spell, parent |-> Front(o.key), label |-> LabelOf(o),
               shape |-> IF o.shape = None THEN "rectangle" ELSE o.shape,
               attrs |-> {<<a, o.attrs[a]>> : a \in {x \in StyleAttrs : o.attrs[x] # None}}]
ProjEdgeL(edges, j, lrule) == LET e == edges[j] lb == IF lrule = "code" THEN e.label ELSE e.lblP IN
  [src |-> e.s, dst |-> e.d, sa |-> e.sa, da |-> e.da,
   idx |-> Cardinality({k \in InBundle(edges, Bundle(e)) : k < j}),       \* initIndex: survivors renumbered 0..n-1 in creation order
   label |-> IF lb = None THEN "" ELSE lb,
   attrs |-> {<<a, e.attrs[a]>> : a \in {x \in StyleAttrs : e.attrs[x] # None}}]
ProjEdge(edges, j) == ProjEdgeL(edges, j, "code")
\* connections are listed by the declaration that declared them (a glob's connections under the glob), then by creation
EdgeOrd(edges) == [r \in 1..Len(edges) |-> CHOOSE j \in 1..Len(edges) :
                     Cardinality({k \in 1..Len(edges) : edges[k].born < edges[j].born \/ (edges[k].born = edges[j].born /\ k < j)}) = r - 1]
ProjEdgesL(s, lrule) == LET ord == EdgeOrd(s.edges) IN [r \in 1..Len(s.edges) |-> ProjEdgeL(s.edges, ord[r], lrule)]
Proj(s) == [objs |-> [i \in 1..Len(s.objs) |-> ProjObj(WithClasses(s.cdefs, s.objs[i]))], edges |-> ProjEdgesL(s, "code")]

\* ------------------------------------------------------------------ the state machine: all programs up to MaxLen
Init == st = Empty /\ prog = <<>>
Declare(i) == /\ Len(prog) < MaxLen /\ ~st.err
              /\ ~(Decls[i].k \in {"gedge", "eglob"} /\ \E k \in 1..Len(prog) : prog[k] = i)    \* a verbatim repetition is KF-C12-1's subject
              /\ st' = Apply(st, Decls[i]) /\ prog' = Append(prog, i)
Next == \E i \in 1..NDecls : Declare(i)
Spec == Init /\ [][Next]_<<st, prog>>

\* ------------------------------------------------------------------ properties
\* C09: the hierarchy is a tree listed once in order of first appearance; endpoints are objects of the board
TreeWF == LET o == st.objs IN
  /\ \A i, j \in 1..Len(o) : i # j => o[i].key # o[j].key
  /\ \A i \in 1..Len(o) : Len(o[i].key) > 1 => \E j \in 1..(i - 1) : o[j].key = Front(o[i].key)    \* parent exists, listed earlier
  /\ \A i \in 1..Len(o) : Len(o[i].spell) = Len(o[i].key) /\ FoldPath(o[i].spell) = o[i].key
EndpointsWF == \A j \in 1..Len(st.edges) : Has(st.objs, st.edges[j].s) /\ Has(st.objs, st.edges[j].d)
\* C10: the last assignment of an attribute wins; null removes the object, everything inside it and the connections attached
LastWriterWins == [][\A i \in 1..NDecls : (prog' = Append(prog, i) /\ ~st'.err) =>
     LET d == Decls[i] IN
       /\ d.k = "attr" /\ d.a \in StyleAttrs => st'.objs[IdxOf(st'.objs, FoldPath(d.p))].attrs[d.a] = d.v
       /\ d.k = "attr" /\ d.a = "shape" => ProjObj(st'.objs[IdxOf(st'.objs, FoldPath(d.p))]).shape = d.v
       /\ d.k = "attr" /\ d.a = "label" => LabelOf(st'.objs[IdxOf(st'.objs, FoldPath(d.p))]) = d.v
       /\ (d.k = "obj" /\ d.v # "") => LabelOf(st'.objs[IdxOf(st'.objs, FoldPath(d.p))]) = d.v
       /\ d.k = "null" => /\ \A j \in 1..Len(st'.objs) : ~IsPrefixSeq(FoldPath(d.p), st'.objs[j].key)
                          /\ \A j \in 1..Len(st'.edges) : ~IsPrefixSeq(FoldPath(d.p), st'.edges[j].s) /\ ~IsPrefixSeq(FoldPath(d.p), st'.edges[j].d)]_<<st, prog>>
\* a re-created object starts afresh
FreshAfterNull == [][\A i \in 1..NDecls : (prog' = Append(prog, i) /\ Decls[i].k = "obj" /\ Decls[i].v = "" /\ ~Has(st.objs, FoldPath(Decls[i].p)) /\ ~st'.err) =>
     LET o == st'.objs[IdxOf(st'.objs, FoldPath(Decls[i].p))] IN o.shape = None /\ o.flbl = None /\ o.plbl = None /\ \A a \in StyleAttrs : o.attrs[a] = None]_<<st, prog>>
\* C12: a glob acts on every matching object that exists now ...
AttrOf(o, a) == IF a = "label" THEN o.flbl ELSE IF a = "shape" THEN o.shape ELSE o.attrs[a]
GlobNow == [][\A i \in 1..NDecls : (prog' = Append(prog, i) /\ Decls[i].k = "glob" /\ ~st'.err) =>
     LET d == Decls[i] r == [scope |-> FoldPath(d.p), pat |-> d.pat, a |-> d.a, v |-> d.v] IN
       /\ \A j \in 1..Len(st'.objs) : RuleApplies(r, st'.objs[j].key) => AttrOf(st'.objs[j], d.a) = d.v
       /\ \A j \in 1..Len(st'.objs) : (~RuleApplies(r, st'.objs[j].key) /\ Has(st.objs, st'.objs[j].key)) =>
              AttrOf(st'.objs[j], d.a) = AttrOf(st.objs[IdxOf(st.objs, st'.objs[j].key)], d.a)]_<<st, prog>>
\* ... and on every matching object created later, at the moment it is created; the creating declaration's own value then wins
GlobLater == [][\A i \in 1..NDecls : (prog' = Append(prog, i) /\ ~st'.err) =>
     \A j \in 1..Len(st'.objs) : ~Has(st.objs, st'.objs[j].key) =>
       \A a \in StyleAttrs \cup {"label", "shape"} :
         LET key == st'.objs[j].key
             ms == {n \in 1..Len(st.rules) : RuleApplies(st.rules[n], key) /\ st.rules[n].a = a}
             own == Decls[i].k \in {"attr", "glob"} /\ Decls[i].a = a
         IN (ms # {} /\ ~own) => AttrOf(st'.objs[j], a) = st.rules[CHOOSE n \in ms : \A m \in ms : m <= n].v]_<<st, prog>>

\* C12 on connections: a creation rule never joins an object to itself and has made exactly one connection for every
\* ordered pair of distinct top-level objects, whenever they were created
GlobEdgesWF == \A m \in 1..Len(st.grules) : LET r == st.grules[m] T == TopNames(st.objs) IN
  /\ \A j \in 1..Len(st.edges) : st.edges[j].born = r.decl => st.edges[j].s # st.edges[j].d
  /\ \A x, y \in 1..Len(T) : x # y => Cardinality({j \in 1..Len(st.edges) : st.edges[j].born = r.decl /\ st.edges[j].s = <<T[x]>> /\ st.edges[j].d = <<T[y]>>}) = 1
EAttrOf(e, a) == IF a = "label" THEN e.lblP ELSE e.attrs[a]
\* an attribute rule acts on every matching connection that exists now ...
EdgeGlobNow == [][\A i \in 1..NDecls : (prog' = Append(prog, i) /\ Decls[i].k = "eglob" /\ ~st'.err) =>
     LET d == Decls[i] r == [sp |-> d.sp, dp |-> d.dp, sa |-> d.sa, da |-> d.da, a |-> d.a, v |-> d.v] IN
       /\ Len(st'.edges) = Len(st.edges)
       /\ \A j \in 1..Len(st'.edges) : IF ERuleApplies(r, st'.edges[j]) THEN EAttrOf(st'.edges[j], d.a) = d.v ELSE st'.edges[j] = st.edges[j]]_<<st, prog>>
\* ... and on every matching connection created later, at the moment it is created; the creating declaration's own label then wins
EdgeGlobLater == [][\A i \in 1..NDecls : (prog' = Append(prog, i) /\ ~st'.err /\ Decls[i].k # "eglob") =>
     \A j \in (Len(st.edges) + 1)..Len(st'.edges) : \A a \in StyleAttrs \cup {"label"} :
       LET e == st'.edges[j]
           ms == {n \in 1..Len(st.erules) : ERuleApplies(st.erules[n], e) /\ st.erules[n].a = a}
           \* does the declaration that declares e carry its own label?  (this declaration, or the creation rule e was made by)
           own == a = "label" /\ (IF e.born = st'.n THEN Decls[i].k \in {"edge", "gedge"} /\ Decls[i].v # ""
                                  ELSE \E m \in 1..Len(st'.grules) : st'.grules[m].decl = e.born /\ st'.grules[m].label # None)
       IN (ms # {} /\ ~own) => EAttrOf(e, a) = st.erules[CHOOSE n \in ms : \A m \in ms : m <= n].v]_<<st, prog>>

\* C11: an indexed reference changes exactly one connection or is an error
IndexedRefHitsOne == [][\A i \in 1..NDecls : (prog' = Append(prog, i) /\ Decls[i].k = "eref") =>
     \/ st'.err
     \/ /\ Len(st'.edges) = Len(st.edges)
        /\ Cardinality({j \in 1..Len(st.edges) : st'.edges[j] # st.edges[j]}) <= 1]_<<st, prog>>
IndexedNullRemovesOne == [][\A i \in 1..NDecls : (prog' = Append(prog, i) /\ Decls[i].k = "enull") =>
     Len(st.edges) - Len(st'.edges) \in {0, 1}]_<<st, prog>>
\* no two connections of the board share an ID (bundle + index): by construction of ProjEdge; stated for the record
DistinctIDs == LET p == Proj(st).edges IN \A i, j \in 1..Len(p) : i # j => <<p[i].src, p[i].dst, p[i].sa, p[i].da, p[i].idx>> # <<p[j].src, p[j].dst, p[j].sa, p[j].da, p[j].idx>>

\* the program text is history; its length is not (it bounds the exploration)
View == <<st, Len(prog)>>
=============================================================================
