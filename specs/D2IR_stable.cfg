SPECIFICATION Spec
CONSTANTS MaxLen = 4 IndexRule = "stable" LabelRule = "lastwriter"
INVARIANTS TreeWF EndpointsWF DistinctIDs
PROPERTIES IndexedRefHitsOne IndexedNullRemovesOne
VIEW View
CHECK_DEADLOCK FALSE
