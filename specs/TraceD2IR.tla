----------------------------- MODULE TraceD2IR -----------------------------
(* Validates the real compiler against D2IR (family "ir": C09, C10, C11).  Each "decl" event carries the
   declaration's index in ir_alphabet.json and the projection of the graph that the real
   d2compiler.Compile produced for the program prefix ending with that declaration.  The monitor
   applies the same declaration with D2IR's Apply and compares the mandated facts, aspect by aspect.
   The state follows the code's rules (IndexRule "stable", LabelRule "code") so that it stays in step
   with the implementation; the properties' own rules are evaluated next to it:
     - label: LabelRule "lastwriter" (C10)
     - an indexed reference must change at most one connection of the observed graph (C11);
     - connection labels under C12's rule for standing attribute globs (lblP). *)
EXTENDS D2IR
CONSTANT AttrProp    \* the property that attribute/label/shape disagreements are reported under: C10, or C12 for glob alphabets
VARIABLES l, tid, prev
Trace == ndJsonDeserialize("trace.ndjson")
Chk(c, prop, aspect, detail) == IF c THEN TRUE ELSE PrintT(<<"VIOL", tid, (IF "i" \in DOMAIN Trace[l] THEN Trace[l].i ELSE 0), prop, aspect, detail>>)

Pairs(q) == {<<q[k][1], q[k][2]>> : k \in 1..Len(q)}
NoObs == [objs |-> <<>>, edges |-> <<>>]
EdgeKey(e) == <<e.src, e.dst, e.sa, e.da>>

\* facts about the observed graph alone
ObsWF(o) ==
  /\ Chk(\A i, j \in 1..Len(o.objs) : i # j => o.objs[i].path # o.objs[j].path, "C09", "object-listed-twice", [i \in 1..Len(o.objs) |-> o.objs[i].path])
  /\ Chk(\A i \in 1..Len(o.objs) : o.objs[i].parent = Front(o.objs[i].path), "C09", "parent-is-not-the-enclosing-key", [i \in 1..Len(o.objs) |-> <<o.objs[i].path, o.objs[i].parent>>])
  /\ Chk(\A i \in 1..Len(o.objs) : Len(o.objs[i].path) > 1 => \E j \in 1..Len(o.objs) : o.objs[j].path = Front(o.objs[i].path), "C09", "parent-missing-from-board", [i \in 1..Len(o.objs) |-> o.objs[i].path])
  /\ Chk(\A j \in 1..Len(o.edges) : (\E i \in 1..Len(o.objs) : o.objs[i].path = o.edges[j].src) /\ (\E i \in 1..Len(o.objs) : o.objs[i].path = o.edges[j].dst),
         "C09", "connection-endpoint-not-an-object-of-the-board", [j \in 1..Len(o.edges) |-> EdgeKey(o.edges[j])])
  /\ Chk(\A j \in 1..Len(o.edges) : o.edges[j].idx = Cardinality({k \in 1..(j - 1) : EdgeKey(o.edges[k]) = EdgeKey(o.edges[j])}),
         "C11", "indexes-not-consecutive-in-declaration-order", [j \in 1..Len(o.edges) |-> <<EdgeKey(o.edges[j]), o.edges[j].idx>>])

EdgesAgree(o, x) ==
  /\ Len(o.edges) = Len(x.edges)
  /\ \A j \in 1..Len(o.edges) : /\ EdgeKey(o.edges[j]) = EdgeKey(x.edges[j]) /\ o.edges[j].idx = x.edges[j].idx
                                /\ o.edges[j].label = x.edges[j].label /\ Pairs(o.edges[j].attrs) = x.edges[j].attrs
\* The connections a creation glob (* -> *) makes all first appear at the glob's own line, so the property fixes no order among
\* them (the compiler sorts connections by source position with an unstable sort: from 13 connections on they come out
\* permuted).  Once such a rule stands, connections are compared as a set; bundle + index still identify each of them.
EdgeFacts(q, withAttrs) == {<<EdgeKey(q[j]), q[j].idx, q[j].label, IF withAttrs THEN q[j].attrs ELSE {}>> : j \in 1..Len(q)}
EdgesAgreeSet(o, x) == Len(o.edges) = Len(x.edges) /\ EdgeFacts([j \in 1..Len(o.edges) |-> [o.edges[j] EXCEPT !.attrs = Pairs(@)]], TRUE) = EdgeFacts(x.edges, TRUE)

Compare(o, x, xLast, d, clsLast, unordered) ==
  /\ Chk([i \in 1..Len(o.objs) |-> o.objs[i].path] = [i \in 1..Len(x.objs) |-> x.objs[i].path], "C09", "objects-or-their-order-differ-from-first-appearance",
         <<[i \in 1..Len(o.objs) |-> o.objs[i].path], [i \in 1..Len(x.objs) |-> x.objs[i].path]>>)
  /\ d.k = "null" =>
       Chk({o.objs[i].path : i \in 1..Len(o.objs)} = {x.objs[i].path : i \in 1..Len(x.objs)}
           /\ {<<EdgeKey(o.edges[j]), o.edges[j].idx>> : j \in 1..Len(o.edges)} = {<<EdgeKey(x.edges[j]), x.edges[j].idx>> : j \in 1..Len(x.edges)},
           "C10", "null-did-not-remove-exactly-the-object-its-contents-and-attached-connections",
           <<d.p, {o.objs[i].path : i \in 1..Len(o.objs)}, {x.objs[i].path : i \in 1..Len(x.objs)}>>)
  /\ d.k \in {"obj", "attr", "edge"} =>
       Chk({o.objs[i].path : i \in 1..Len(o.objs)} = {x.objs[i].path : i \in 1..Len(x.objs)}, "C10", "repeated-declarations-did-not-merge-into-one-object",
           <<{o.objs[i].path : i \in 1..Len(o.objs)}, {x.objs[i].path : i \in 1..Len(x.objs)}>>)
  /\ Len(o.objs) = Len(x.objs) =>
       \A i \in 1..Len(o.objs) : o.objs[i].path = x.objs[i].path =>
         /\ Chk(o.objs[i].spell = x.objs[i].spell, "C09", "id-does-not-keep-first-spelling", <<o.objs[i].spell, x.objs[i].spell>>)
         /\ Chk(o.objs[i].shape = x.objs[i].shape, AttrProp, "shape-is-not-the-last-assignment", <<o.objs[i].path, o.objs[i].shape, x.objs[i].shape>>)
         /\ Chk(Pairs(o.objs[i].attrs) = x.objs[i].attrs, AttrProp, "attribute-is-not-the-last-assignment", <<o.objs[i].path, o.objs[i].attrs, x.objs[i].attrs>>)
         /\ Chk(o.objs[i].label = x.objs[i].label, AttrProp, "label-differs-from-model", <<o.objs[i].path, o.objs[i].label, x.objs[i].label>>)
         /\ Chk(o.objs[i].label = xLast.objs[i].label, "C10", "label-is-not-the-last-assignment", <<o.objs[i].path, o.objs[i].label, xLast.objs[i].label>>)
         /\ ("cls" \in DOMAIN o.objs[i]) => Chk(FoldPath(o.objs[i].cls) = clsLast[i], "C10", "class-is-not-the-last-assignment", <<o.objs[i].path, o.objs[i].cls, clsLast[i]>>)
  /\ Chk(IF unordered THEN {<<EdgeKey(o.edges[j]), o.edges[j].idx>> : j \in 1..Len(o.edges)} = {<<EdgeKey(x.edges[j]), x.edges[j].idx>> : j \in 1..Len(x.edges)} /\ Len(o.edges) = Len(x.edges)
          ELSE [j \in 1..Len(o.edges) |-> EdgeKey(o.edges[j])] = [j \in 1..Len(x.edges) |-> EdgeKey(x.edges[j])], IF AttrProp = "C12" THEN "C12" ELSE "C09", "connections-or-their-order-differ-from-declaration-order",
         <<[j \in 1..Len(o.edges) |-> EdgeKey(o.edges[j])], [j \in 1..Len(x.edges) |-> EdgeKey(x.edges[j])]>>)
  /\ Chk(IF unordered THEN EdgesAgreeSet(o, x) ELSE EdgesAgree(o, x), IF d.k \in {"eref", "enull"} THEN "C11" ELSE AttrProp, "connection-label-attribute-or-index-differs",
         <<[j \in 1..Len(o.edges) |-> <<o.edges[j].idx, o.edges[j].label, o.edges[j].attrs>>], [j \in 1..Len(x.edges) |-> <<x.edges[j].idx, x.edges[j].label, x.edges[j].attrs>>]>>)

Changed(a, b) == IF Len(a.edges) # Len(b.edges) THEN 99
                 ELSE Cardinality({j \in 1..Len(a.edges) : <<a.edges[j].label, Pairs(a.edges[j].attrs)>> # <<b.edges[j].label, Pairs(b.edges[j].attrs)>>})

Decl(e) ==
  LET d == Decls[e.d]
      s1 == ApplyR(st, d, "stable")        \* the code's rule
      s2 == ApplyR(st, d, "position")
      x1 == [objs |-> [i \in 1..Len(s1.objs) |-> ProjObj(WithClasses(s1.cdefs, s1.objs[i]))], edges |-> Proj(s1).edges]
      x2 == Proj(s2)
      usePos == ~s2.err /\ e.err = 0 /\ (s1.err \/ ~EdgesAgree(e.obs, Proj(s1))) /\ EdgesAgree(e.obs, x2)
      s == IF usePos THEN s2 ELSE s1
      x == [objs |-> [i \in 1..Len(s.objs) |-> [ProjObj(WithClasses(s.cdefs, s.objs[i])) EXCEPT !.label = LabelOfR(WithClasses(s.cdefs, s.objs[i]), "code")]], edges |-> Proj(s).edges]
      xLast == [objs |-> [i \in 1..Len(s.objs) |-> [ProjObj(WithClasses(s.cdefs, s.objs[i])) EXCEPT !.label = LabelOfR(WithClasses(s.cdefs, s.objs[i]), "lastwriter")]], edges |-> Proj(s).edges]
  IN
  /\ st' = s /\ prog' = Append(prog, e.d)
  /\ IF st.err THEN UNCHANGED prev      \* an earlier declaration was (rightly) rejected: nothing more to compare
     ELSE
     /\ prev' = IF e.err = 1 THEN prev ELSE e.obs
     /\ IF e.err = 1
        THEN Chk(s1.err \/ s2.err, IF d.k \in {"eref", "enull"} THEN "C11" ELSE "C10", "valid-declaration-rejected", <<e.text, e.msg>>)
        ELSE /\ Chk(~(s1.err /\ s2.err), "C11", "reference-to-missing-index-accepted", e.text)
             /\ ObsWF(e.obs)
             /\ ~s.err => Compare(e.obs, x, xLast, d, [i \in 1..Len(s.objs) |-> s.objs[i].clsLast], s.grules # <<>>)
             \* C12's own rule for a connection created under standing attribute globs: the creating declaration's label wins (DEVIATION-5)
             /\ (~s.err /\ Len(e.obs.edges) = Len(s.edges)) =>
                  Chk(EdgeFacts(e.obs.edges, FALSE) = EdgeFacts(ProjEdgesL(s, "property"), FALSE), "C12",
                      "connection-label-is-not-the-last-assignment", <<EdgeFacts(e.obs.edges, FALSE) \ EdgeFacts(ProjEdgesL(s, "property"), FALSE), EdgeFacts(ProjEdgesL(s, "property"), FALSE) \ EdgeFacts(e.obs.edges, FALSE)>>)
             /\ d.k = "eref" => Chk(Changed(prev, e.obs) <= 1, "C11", "indexed-reference-changed-several-connections", <<e.text, Changed(prev, e.obs)>>)

TInit == l = 1 /\ tid = 0 /\ st = Empty /\ prog = <<>> /\ prev = NoObs
TNext ==
  /\ l <= Len(Trace) /\ l' = l + 1
  /\ LET e == Trace[l] IN
       CASE e.ev = "reset" -> tid' = e.tid /\ st' = Empty /\ prog' = <<>> /\ prev' = NoObs
         [] e.ev = "decl"  -> Decl(e) /\ UNCHANGED tid
         [] OTHER -> Chk(FALSE, "MACHINERY", "unknown-event", e.ev) /\ UNCHANGED <<tid, st, prog, prev>>
TSpec == TInit /\ [][TNext]_<<l, tid, st, prog, prev>>
Done == PrintT(<<"TRACE-END", TLCGet("stats").diameter, Len(Trace)>>)
=============================================================================
