SPECIFICATION Spec
CONSTANTS Ns = {101} Ts = {200} U = 1 EndRule = "ceil100"
INVARIANTS OneAtATime
