------------------------------- MODULE D2Anim -------------------------------
(* Animated multi-board SVG (d2renderers/d2animate): n boards, interval T ms, a discrete clock
   over one animation cycle.  Time unit: 1/U ms.  Stops(i) transcribes makeKeyframe:
     before = max(0, delay-1), start = delay, end = delay+T-1, after = delay+T     (ms)
   and the special last-board form "start .. 100%".  EndRule selects how "last board" is detected:
     "exact"   - delay + T = total                       (what the property needs)
     "ceil100" - ceil(100*(delay+T-1)/total) = 100       (the pinned code before the fix:
                 also true for the second-to-last board once n >= 101)                *)
EXTENDS AnimOps, TLC
CONSTANTS Ns, Ts, U, EndRule
VARIABLES n, T, t
vars == <<n, T, t>>

Total(nn, TT) == nn * TT * U

IsLastForm(i, nn, TT) ==
  IF EndRule = "exact" THEN i = nn - 1
  ELSE \* ceil(100*x/total) = 100  <=>  100*x > 99*total   (x <= total)
       100 * ((i + 1) * TT - 1) > 99 * (nn * TT)

Pt(x, v) == [q |-> x, lo |-> x, hi |-> x, op |-> v]

Stops(i, nn, TT) ==
  LET b == IF i * TT - 1 > 0 THEN (i * TT - 1) * U ELSE 0
      s == i * TT * U
      e == ((i + 1) * TT - 1) * U
      a == (i + 1) * TT * U
      tot == Total(nn, TT)
  IN IF IsLastForm(i, nn, TT)
     THEN <<Pt(0, 0), Pt(b, 0), Pt(s, 100), Pt(tot, 100)>>
     ELSE <<Pt(0, 0), Pt(b, 0), Pt(s, 100), Pt(e, 100), Pt(a, 0), Pt(tot, 0)>>

\* the clock may start at any board boundary (the cycle is periodic; this keeps counter-examples short)
Init == /\ n \in Ns /\ T \in Ts /\ t \in {i * T * U : i \in 0..(n - 1)}
Tick == /\ t' = (t + 1) % Total(n, T) /\ UNCHANGED <<n, T>>
Next == Tick
Spec == Init /\ [][Next]_vars /\ WF_vars(Tick)

TypeOK == n \in Ns /\ T \in Ts /\ t \in 0..(Total(n, T) - 1)

\* the board whose interval contains t, and whether t is in that board's steady part
Cur == t \div (T * U)
Steady == t <= ((Cur + 1) * T - 1) * U

\* C33: outside the 1 ms transitions exactly one board is fully visible, it is board Cur,
\* and every other board is fully hidden
OneAtATime ==
  Steady => /\ Full(Eff(Stops(Cur, n, T)), t)
            /\ \A i \in 0..(n - 1) : i # Cur => Hidden(Eff(Stops(i, n, T)), t)
            /\ Cardinality({i \in 0..(n - 1) : Full(Eff(Stops(i, n, T)), t)}) = 1

\* C33: key-frame offsets are within the cycle and in increasing order
Ordered == \A i \in 0..(n - 1) : LET st == Stops(i, n, T)
                                 IN NonDecreasing(st) /\ \A k \in 1..Len(st) : st[k].q >= 0 /\ st[k].q <= Total(n, T)

\* liveness: the animation cycles through every board
EveryBoardShown == \A i \in 0..20 : (i < n) ~> (Cur = i /\ Steady)
=============================================================================
