SPECIFICATION TSpec
CONSTANTS MaxLen = 99 IndexRule = "stable" LabelRule = "code" AttrProp = "C10"
POSTCONDITION Done
CHECK_DEADLOCK FALSE
