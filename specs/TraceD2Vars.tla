----------------------------- MODULE TraceD2Vars -----------------------------
(* Binds D2Vars to the real compiler (family "vars": C13).  A "prog" event carries the abstract program
   (scopes with their definitions, use sites with their pieces) and, per use site, the text the real
   d2compiler.Compile produced for it - of the program itself and of its textually substituted twin. *)
EXTENDS D2Vars, Json
VARIABLES l, tid
Trace == ndJsonDeserialize("trace.ndjson")
Chk(c, prop, aspect, detail) == IF c THEN TRUE ELSE PrintT(<<"VIOL", tid, (IF "i" \in DOMAIN Trace[l] THEN Trace[l].i ELSE 0), prop, aspect, detail>>)

NamesOf(e) == {e.names[k] : k \in 1..Len(e.names)}
Scopes(e) == [i \in 1..Len(e.scopes) |-> [parent |-> e.scopes[i].parent, defs |-> [n \in NamesOf(e) |-> IF n \in DOMAIN e.scopes[i].defs THEN e.scopes[i].defs[n] ELSE NoDef]]]

Prog(e) ==
  LET sc == Scopes(e) ns == NamesOf(e)
      anyErr == \E k \in 1..Len(e.uses) : Expected(sc, ns, e.uses[k]) = "~error~"
  IN
  /\ Chk(e.panic = 0, "C13", "compile-crashed", e.msg)
  /\ e.panic = 0 =>
       /\ Chk(anyErr <=> e.err = 1, "C13", IF anyErr THEN "undefined-variable-not-reported" ELSE "program-with-defined-variables-rejected", <<e.msg, e.text, e.rescued>>)
       /\ (anyErr /\ e.err = 1) => Chk(e.errNamesVar = 1, "C13", "error-does-not-name-the-undefined-variable", e.msg)
       /\ (~anyErr /\ e.err = 0) =>
            \A k \in 1..Len(e.uses) : LET u == e.uses[k] IN
              /\ Chk(u.got = Expected(sc, ns, u), "C13", "compiled-text-is-not-the-textual-replacement-from-the-innermost-scope", <<u.site, u.quote, u.scope, u.got, Expected(sc, ns, u), u.reresolved>>)
              /\ Chk(e.twinErr = 0 => u.twin = u.got, "C13", "program-and-its-textually-substituted-twin-compile-differently", <<u.site, u.quote, u.got, u.twin, u.reresolved>>)

TInit == l = 1 /\ tid = 0 /\ prog = [s1 |-> [n \in Names |-> NoDef], s2 |-> [n \in Names |-> NoDef], s3 |-> [n \in Names |-> NoDef], at |-> 1, quote |-> "none", p1 |-> CHOOSE n \in Names : TRUE, p2 |-> CHOOSE n \in Names : TRUE] /\ done = FALSE
TNext ==
  /\ l <= Len(Trace) /\ l' = l + 1 /\ UNCHANGED <<prog, done>>
  /\ LET e == Trace[l] IN
       CASE e.ev = "reset" -> tid' = e.tid
         [] e.ev = "prog"  -> Prog(e) /\ UNCHANGED tid
         [] OTHER -> Chk(FALSE, "MACHINERY", "unknown-event", e.ev) /\ UNCHANGED tid
TSpec == TInit /\ [][TNext]_<<l, tid, prog, done>>
Done == PrintT(<<"TRACE-END", TLCGet("stats").diameter, Len(Trace)>>)
=============================================================================
