SPECIFICATION Spec
CONSTANTS Names = {"a", "index", "layers", "a.b", "a/b", "..", "../x"} Rule = "code" MaxBoards = 3 MaxDepth = 2
INVARIANTS Contained
CHECK_DEADLOCK FALSE
