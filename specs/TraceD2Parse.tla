---------------------------- MODULE TraceD2Parse ----------------------------
(* Parser totality and exact positions (family "parse": C01, C02).
   An "input" event carries the input as a table of runes as the parser reads it
   (<<bytes consumed, UTF-16 units, is newline, bytes the rune's UTF-8 encoding has>>); each "parse"
   event carries what an entry point returned and every node's and error's range as
   <<line, column, offset>> triples.  PosAt(k, mode) is THE definition of the position after k runes:
   line = newlines so far, column and offset counted in UTF-8 bytes (mode "utf8") or in UTF-16 code
   units (mode "utf16").  Every reported position must be PosAt(k) for some k. *)
EXTENDS Integers, Sequences, FiniteSets, Json, TLC
VARIABLES l, tid, inp
Trace == ndJsonDeserialize("trace.ndjson")
Chk(c, prop, aspect, detail) == IF c THEN TRUE ELSE PrintT(<<"VIOL", tid, (IF "i" \in DOMAIN Trace[l] THEN Trace[l].i ELSE 0), prop, aspect, detail>>)

RECURSIVE PosTable(_, _, _, _, _, _)
\* positions after 0..n runes, as a sequence of <<line, col, off>>; w = index of the width column (1 bytes, 2 utf16 units)
PosTable(runes, w, k, line, col, off) ==
  IF k > Len(runes) THEN <<<<line, col, off>>>>
  ELSE <<<<line, col, off>>>> \o (IF runes[k][3] = 1 THEN PosTable(runes, w, k + 1, line + 1, 0, off + runes[k][w])
                                  ELSE PosTable(runes, w, k + 1, line, col + runes[k][w], off + runes[k][w]))
Valid(runes, mode) == LET t == PosTable(runes, IF mode = 1 THEN 2 ELSE 1, 1, 0, 0, 0) IN {t[k] : k \in 1..Len(t)}
Total(runes, mode) == LET t == PosTable(runes, IF mode = 1 THEN 2 ELSE 1, 1, 0, 0, 0) IN t[Len(t)][3]
Before(a, b) == a[3] <= b[3]

Parse(e) ==
  \* ---- C01
  /\ Chk(e.timeout = 0, "C01", "parser-did-not-terminate", <<e.fn, e.utf16>>)
  /\ Chk(e.panic = 0, "C01", "parser-crashed", <<e.fn, e.utf16, IF "msg" \in DOMAIN e THEN e.msg ELSE "">>)
  /\ (e.returned = 1 /\ e.panic = 0) =>
       /\ Chk(e.fn = "Parse" => e.tree = 1, "C01", "no-syntax-tree-returned", <<e.fn, e.nerr>>)
       /\ Chk(e.tree = 1 \/ e.nerr > 0, "C01", "neither-a-tree-nor-errors", e.fn)
       /\ Chk(e.errsPositioned = 1, "C01", "error-without-position", e.fn)
       \* ---- C02 (inputs small enough to carry their rune table)
       /\ (inp.small = 1 /\ e.fn = "Parse") =>
            LET V == Valid(inp.runes, e.utf16) tot == Total(inp.runes, e.utf16)
                S(n) == <<n[1], n[2], n[3]>> E(n) == <<n[4], n[5], n[6]>>
            IN
            /\ \A k \in 1..Len(e.nodes) : LET n == e.nodes[k] IN
                 /\ Chk(S(n)[3] >= 0 /\ E(n)[3] <= tot, "C02", "node-range-outside-the-input", <<e.utf16, n, tot>>)
                 /\ Chk(Before(S(n), E(n)), "C02", "node-range-starts-after-it-ends", <<e.utf16, n>>)
                 /\ Chk(S(n) \in V /\ E(n) \in V, "C02", "line-column-offset-of-a-node-disagree", <<e.utf16, n>>)
                 /\ Chk(n[7] = 0 \/ (Before(S(e.nodes[n[7]]), S(n)) /\ Before(E(n), E(e.nodes[n[7]]))), "C02", "node-range-not-nested-in-its-parent", <<e.utf16, n, IF n[7] = 0 THEN <<>> ELSE e.nodes[n[7]]>>)
            /\ \A k \in 1..Len(e.errs) : LET n == e.errs[k] IN
                 /\ Chk(S(n)[3] >= 0 /\ E(n)[3] <= tot, "C02", "error-range-outside-the-input", <<e.utf16, n, tot>>)
                 /\ Chk(Before(S(n), E(n)), "C02", "error-range-starts-after-it-ends", <<e.utf16, n>>)
                 /\ Chk(S(n) \in V /\ E(n) \in V, "C02", "line-column-offset-of-an-error-disagree", <<e.utf16, n>>)
            /\ Chk(e.segsOK = 1, "C02", "key-segment-text-does-not-parse-back-to-its-value", e.segBad)

Init == l = 1 /\ tid = 0 /\ inp = [small |-> 0, runes |-> <<>>]
Next ==
  /\ l <= Len(Trace) /\ l' = l + 1
  /\ LET e == Trace[l] IN
       CASE e.ev = "reset" -> tid' = e.tid /\ UNCHANGED inp
         [] e.ev = "input" -> inp' = [small |-> e.small, runes |-> e.runes] /\ UNCHANGED tid
         [] e.ev = "parse" -> Parse(e) /\ UNCHANGED <<tid, inp>>
         [] OTHER -> Chk(FALSE, "MACHINERY", "unknown-event", e.ev) /\ UNCHANGED <<tid, inp>>
Spec == Init /\ [][Next]_<<l, tid, inp>>
Done == PrintT(<<"TRACE-END", TLCGet("stats").diameter, Len(Trace)>>)
=============================================================================
