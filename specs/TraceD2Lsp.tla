------------------------------ MODULE TraceD2Lsp ------------------------------
(* Editor support (family "lsp": C42).
   The programs are the board trees of the boards family; the driver records where every board's block
   lies in the text (the offsets of its braces).
     "pos"  events: a cursor position inside the text and the board path GetBoardAtPosition reported.
            InnermostBoard is the specification: the board with the smallest block that contains the position.
     "refs" events: a board, a key of that board and the ranges GetRefRanges returned, each with the source
            text it covers parsed back; every range must name the key, and there must be at least as many
            ranges as the board's derived declarations that declare the key.
     "completion" events: a position (in the text or in the text cut off there); the call must return. *)
EXTENDS Integers, Sequences, FiniteSets, Json, TLC
VARIABLES l, tid
Trace == ndJsonDeserialize("trace.ndjson")
Chk(c, prop, aspect, detail) == IF c THEN TRUE ELSE PrintT(<<"VIOL", tid, (IF "i" \in DOMAIN Trace[l] THEN Trace[l].i ELSE 0), prop, aspect, detail>>)

\* blocks: sequence of [path, open, close]; the file itself is the block <<>> from -1 to the end
\* a block is the range of its map node: from its opening brace up to, not including, the position after the closing one
Contains(b, off) == b.open <= off /\ off <= b.close
Innermost(blocks, off) ==
  LET inside == {i \in 1..Len(blocks) : Contains(blocks[i], off)}
  IN IF inside = {} THEN <<>>
     ELSE blocks[CHOOSE i \in inside : \A j \in inside : blocks[i].close - blocks[i].open <= blocks[j].close - blocks[j].open].path
\* between a board keyword's brace and a board's brace (layers: { | x: { ) there is no board
InKeywordGap(gaps, off) == \E i \in 1..Len(gaps) : gaps[i].open <= off /\ off <= gaps[i].close /\ ~\E j \in 1..Len(gaps[i].inner) : gaps[i].inner[j].open <= off /\ off <= gaps[i].inner[j].close

Pos(e) ==
  /\ Chk(e.panic = 0, "C42", "board-at-position-crashed", <<e.off, e.msg>>)
  \* wherever the position is: a reported board is one whose block contains it
  /\ e.panic = 0 =>
       Chk(e.got = <<>> \/ \E i \in 1..Len(e.blocks) : e.blocks[i].path = e.got /\ Contains(e.blocks[i], e.off), "C42", "reported-board-does-not-contain-the-position", <<e.off, e.line, e.col, e.got, e.text>>)
  /\ (e.panic = 0 /\ ~InKeywordGap(e.gaps, e.off)) =>
       Chk(e.got = Innermost(e.blocks, e.off), "C42", "reported-board-is-not-the-innermost-block-containing-the-position", <<e.off, e.line, e.col, e.got, Innermost(e.blocks, e.off), e.text>>)

Refs(e) ==
  /\ Chk(e.panic = 0, "C42", "reference-lookup-crashed", <<e.key, e.msg>>)
  /\ (e.panic = 0 /\ e.err = 0) =>
       /\ \A k \in 1..Len(e.ranges) : LET r == e.ranges[k] IN
            /\ Chk(r.inside = 1 /\ r.start < r.end, "C42", "reference-range-outside-its-file-or-empty", <<e.key, r.start, r.end>>)
            /\ r.inside = 1 => Chk(r.names = 1, "C42", "reference-range-covers-text-that-does-not-name-the-key", <<e.board, e.key, r.covered>>)
       /\ Chk(Len(e.ranges) >= e.declared, "C42", "a-declaration-of-the-key-is-not-among-the-references", <<e.board, e.key, Len(e.ranges), e.declared, e.text>>)

Completion(e) == Chk(e.panic = 0 /\ e.hang = 0, "C42", IF e.hang = 1 THEN "completion-did-not-return" ELSE "completion-crashed", <<e.off, e.cut, e.msg>>)

Init == l = 1 /\ tid = 0
Next ==
  /\ l <= Len(Trace) /\ l' = l + 1
  /\ LET e == Trace[l] IN
       CASE e.ev = "reset" -> tid' = e.tid
         [] e.ev = "pos"  -> Pos(e) /\ UNCHANGED tid
         [] e.ev = "refs" -> Refs(e) /\ UNCHANGED tid
         [] e.ev = "completion" -> Completion(e) /\ UNCHANGED tid
         [] OTHER -> Chk(FALSE, "MACHINERY", "unknown-event", e.ev) /\ UNCHANGED tid
Spec == Init /\ [][Next]_<<l, tid>>
Done == PrintT(<<"TRACE-END", TLCGet("stats").diameter, Len(Trace)>>)
=============================================================================
