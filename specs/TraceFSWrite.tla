---------------------------- MODULE TraceFSWrite ----------------------------
(* Replays the file-system system calls of the real d2 binary (recorded with strace, family "fs")
   on the FSOps model and evaluates
     C48  after EVERY call: a crash right here leaves the target complete-old or complete-new
          (the state after calls 1..i is the disk state if the process dies before call i+1);
          plus the content really found on disk after the process was SIGKILLed at that point;
     C34  every modifying call, every file changed and every file deleted lies inside the output
          directory; no output file is produced twice; files written = boards rendered. *)
EXTENDS FSOps, Json, TLC
VARIABLES l, tid, fs, st, produced
vars == <<l, tid, fs, st, produced>>
Trace == ndJsonDeserialize("trace.ndjson")

Chk(c, prop, aspect, detail) == IF c THEN TRUE ELSE PrintT(<<"VIOL", tid, (IF "i" \in DOMAIN Trace[l] THEN Trace[l].i ELSE 0), prop, aspect, detail>>)

NoStart == [mode |-> "none", target |-> "", alt |-> "", existed |-> 0, oldLen |-> 0, newLen |-> 0, outdir |-> <<>>, nboards |-> 0]

Apply(f, e) ==
  CASE e.call = "open"     -> SysOpen(f, e.path, e.creat = 1, e.excl = 1, e.trunc = 1, e.mode)
    [] e.call = "write"    -> SysWrite(f, e.path, e.n)
    [] e.call = "rename"   -> SysRename(f, e.path, e.to)
    [] e.call = "unlink"   -> SysUnlink(f, e.path)
    [] e.call = "chmod"    -> SysChmod(f, e.path, e.mode)
    [] e.call = "truncate" -> SysTruncate(f, e.path, e.n)
    [] OTHER               -> f

Inside(segs) == IsPrefixSeq(st.outdir, segs)
Modifies(e) == e.call \in {"write", "rename", "unlink", "rmdir", "mkdir", "chmod", "truncate", "link"} \/ (e.call = "open" /\ (e.creat = 1 \/ e.trunc = 1))
Produces(e) == IF e.call \in {"rename", "link"} THEN {e.to} ELSE IF e.call = "open" /\ (e.creat = 1 \/ e.trunc = 1) /\ e.excl = 0 THEN {e.path} ELSE {}

Sys(e) ==
  LET f2 == Apply(fs, e) IN
  /\ fs' = f2
  /\ produced' = produced \cup Produces(e)
  /\ st.mode \in {"fmt", "render"} =>
       /\ Chk(AtomicAt(f2, st.target, st.existed = 1, st.newLen), "C48", "crash-after-this-call-leaves-partial-file", <<e.call, e.path, Get(f2, st.target).len>>)
       \* the target is a symbolic link: the file it points to is "the file" as well
       /\ Chk(st.alt = "" \/ AtomicAt(f2, st.alt, TRUE, st.newLen), "C48", "crash-after-this-call-leaves-partial-file-behind-the-link", <<e.call, e.path, Get(f2, st.alt).len>>)
  /\ st.mode = "boards" =>
       /\ Chk(Modifies(e) => Inside(e.segs) /\ (e.call \in {"rename", "link"} => Inside(e.tosegs)), "C34", "syscall-outside-output-location", <<e.call, e.path>>)
       /\ Chk(Produces(e) \cap produced = {}, "C34", "output-file-produced-twice", <<e.call, Produces(e)>>)
  /\ UNCHANGED <<tid, st>>

Exit(e) ==
  /\ st.mode \in {"fmt", "render"} =>
       /\ Chk(e.code = 0 => e.finalIsNew = 1, "C48", "completed-run-leaves-new-content", e.code)
       /\ Chk((e.code = 0 /\ st.alt = "") => IsNew(Get(fs, st.target), st.newLen), "C48", "model-vs-disk-after-run", Get(fs, st.target))
  /\ st.mode = "boards" =>
       /\ Chk(\A k \in 1..Len(e.changed) : Inside(e.changed[k]), "C34", "file-outside-output-location", e.changed)
       /\ Chk(Len(e.missing) = 0, "C34", "deleted-outside-output-location", e.missing)
       /\ Chk(e.code = 0 => Len(e.changed) = st.nboards, "C34", "files-written-vs-boards-rendered", <<Len(e.changed), st.nboards>>)
  /\ UNCHANGED <<tid, fs, st, produced>>

Killed(e) ==
  LET diskOK == e.isOld = 1 \/ e.isNew = 1 \/ (e.exists = 0 /\ st.existed = 0) IN
  /\ Chk(diskOK, "C48", "killed-process-left-partial-file", <<e.exists, e.len>>)
  /\ Chk(st.alt # "" \/ (diskOK <=> AtomicAt(fs, st.target, st.existed = 1, st.newLen)), "C48", "model-vs-disk-after-kill", <<e.len, Get(fs, st.target)>>)
  /\ UNCHANGED <<tid, fs, st, produced>>

Init == l = 1 /\ tid = 0 /\ fs = <<>> /\ st = NoStart /\ produced = {}
Next ==
  /\ l <= Len(Trace)
  /\ l' = l + 1
  /\ LET e == Trace[l] IN
       CASE e.ev = "reset"  -> tid' = e.tid /\ fs' = <<>> /\ st' = NoStart /\ produced' = {}
         [] e.ev = "start"  -> /\ st' = [mode |-> e.mode, target |-> e.target, alt |-> e.alt, existed |-> e.existed, oldLen |-> e.oldLen,
                                         newLen |-> e.newLen, outdir |-> e.outdir, nboards |-> e.nboards]
                               /\ fs' = IF e.existed = 1 THEN [p \in ({e.target, e.alt} \ {""}) |-> [len |-> e.oldLen, gen |-> "old", mode |-> 0]] ELSE <<>>
                               /\ UNCHANGED <<tid, produced>>
         [] e.ev = "sys"    -> Sys(e)
         [] e.ev = "exit"   -> Exit(e)
         [] e.ev = "killed" -> Killed(e)
         [] OTHER           -> Chk(FALSE, "MACHINERY", "unknown-event", e.ev) /\ UNCHANGED <<tid, fs, st, produced>>
Spec == Init /\ [][Next]_vars
Done == PrintT(<<"TRACE-END", TLCGet("stats").diameter, Len(Trace)>>)
=============================================================================
