---------------------------- MODULE TraceD2Attrs ----------------------------
(* Attribute validation against the documented value domains (family "attrs": C16).
   attr_domains.json is the domain table: for every reserved attribute, style keyword and configuration
   key its kind and bounds or enumeration, written out from the documentation of the pinned release.
   Each "decl" event is one declaration  <context>.<attribute>: <value>  compiled by the real
   d2compiler.Compile, with the value described lexically by the driver:
     num    "int" (optional sign, digits), "dec" (optional sign, digits with a decimal point), "none"
     int    the integer (num = "int"; 0 when it does not fit 9 digits, then big = 1)
     milli  the value times 1000 (num \in {"int","dec"}, at most 3 fractional digits are generated)
     lower  the value in lower case;  hex: number of hex digits after '#', -1 when not of that form
     gradient  1 when the driver built a syntactically valid gradient of valid colours, 0 otherwise
   InDomain is decided here; TLC checks  accepted <=> InDomain, that an accepted value reaches the compiled
   diagram unchanged (up to letter case for keyword-valued attributes) and that a rejection is reported
   inside the declaration. *)
EXTENDS Integers, Sequences, FiniteSets, Json, TLC
VARIABLES l, tid
Trace == ndJsonDeserialize("trace.ndjson")
Table == JsonDeserialize("attr_domains.json")
Chk(c, prop, aspect, detail) == IF c THEN TRUE ELSE PrintT(<<"VIOL", tid, (IF "i" \in DOMAIN Trace[l] THEN Trace[l].i ELSE 0), prop, aspect, detail>>)
SetOf(q) == {q[k] : k \in 1..Len(q)}

Named == SetOf(Table.namedColors)
Known(a) == a \in DOMAIN Table.attrs
Dom(a) == Table.attrs[a]

IsNum(v) == v.num \in {"int", "dec"}
InDomain(a, v) ==
  LET d == Dom(a) IN
  CASE d.kind = "unit"   -> IsNum(v) /\ v.big = 0 /\ 0 <= v.milli /\ v.milli + v.excess <= 1000
    [] d.kind = "int"    -> v.num = "int" /\ v.big = 0 /\ d.lo <= v.int /\ (d.hi = -1 \/ v.int <= d.hi)
    [] d.kind = "anyint" -> v.num = "int" /\ v.big = 0
    [] d.kind = "intset" -> v.num = "int" /\ v.big = 0 /\ v.canon \in SetOf(d.set)
    [] d.kind = "bool"   -> v.lower \in {"true", "false"}
    [] d.kind = "enum"   -> (IF d.ci = 1 THEN v.lower ELSE v.raw) \in SetOf(d.set)
    [] d.kind = "color"  -> v.lower \in Named \/ v.hex \in {3, 6} \/ v.gradient = 1
    [] OTHER -> FALSE
KeywordValued(a) == Dom(a).kind \in {"bool", "enum"} \/ (Dom(a).kind = "color")

Decl(e) ==
  /\ Chk(Known(e.attr), "MACHINERY", "attribute-not-in-the-domain-table", e.attr)
  /\ Known(e.attr) =>
       LET ok == InDomain(e.attr, e.v) IN
       /\ Chk(e.panic = 0, "C16", "validation-crashed", <<e.ctx, e.attr, e.v.raw, e.msg>>)
       /\ e.panic = 0 =>
            /\ Chk(ok => e.accepted = 1, "C16", "value-inside-the-documented-domain-rejected", <<e.ctx, e.attr, e.v.raw, e.msg>>)
            /\ Chk(~ok => e.accepted = 0, "C16", "value-outside-the-documented-domain-accepted", <<e.ctx, e.attr, e.v.raw, e.compiled>>)
            /\ (e.accepted = 0 /\ ~ok) => Chk(e.errInDecl = 1, "C16", "rejection-not-reported-at-the-declaration", <<e.ctx, e.attr, e.v.raw, e.msg>>)
            /\ (e.accepted = 1 /\ ok) =>
                 Chk(e.compiled = e.v.raw \/ (KeywordValued(e.attr) /\ e.compiledLower = e.v.lower) \/ (IsNum(e.v) /\ e.compiledMilli = e.v.milli /\ e.compiledIsNum = 1),
                     "C16", "accepted-value-changed-on-the-way-to-the-compiled-diagram", <<e.ctx, e.attr, e.v.raw, e.compiled>>)

Init == l = 1 /\ tid = 0
Next ==
  /\ l <= Len(Trace) /\ l' = l + 1
  /\ LET e == Trace[l] IN
       CASE e.ev = "reset" -> tid' = e.tid
         [] e.ev = "decl"  -> Decl(e) /\ UNCHANGED tid
         [] OTHER -> Chk(FALSE, "MACHINERY", "unknown-event", e.ev) /\ UNCHANGED tid
Spec == Init /\ [][Next]_<<l, tid>>
Done == PrintT(<<"TRACE-END", TLCGet("stats").diameter, Len(Trace)>>)
=============================================================================
