----------------------------- MODULE BoardPaths -----------------------------
(* Where `d2 in.d2 out.svg` writes each board of a multi-board diagram (C34) - a transcription of
   the path derivation in d2cli/main.go:render, over board trees that grow one board per step.
   A board is identified by its path: a sequence of <<kind, name>> pairs from the root.
   Rule = "code":     outputPath = filepath.Join(outputPath, name): a name containing a separator or
                      dot segments is interpreted as a path (the pinned code before the fix)
   Rule = "escaped":  the name is one file-name segment, whatever its characters (after the fix)  *)
EXTENDS Integers, Sequences, FiniteSets, TLC
CONSTANTS Names, Rule, MaxBoards, MaxDepth
VARIABLES tree           \* set of board paths, prefix closed, root = <<>>
Kinds == {"layers", "scenarios", "steps"}

Front(s) == SubSeq(s, 1, Len(s) - 1)
Last(s) == s[Len(s)]

\* how filepath.Join reads each name of the alphabet
Segs(nm) == CASE nm = "a/b"  -> <<"a", "b">>
              [] nm = ".."   -> <<"..">>
              [] nm = "../x" -> <<"..", "x">>
              [] nm = "."    -> <<".">>
              [] nm = "x/index" -> <<"x", "index">>
              [] OTHER       -> <<nm>>

RECURSIVE Clean(_, _)
Clean(base, segs) ==
  IF segs = <<>> THEN base
  ELSE LET h == segs[1] t == SubSeq(segs, 2, Len(segs))
       IN IF h = "." THEN Clean(base, t)
          ELSE IF h = ".." THEN Clean(IF base = <<>> \/ Last(base) = ".." THEN Append(base, "..") ELSE Front(base), t)
          ELSE Clean(Append(base, h), t)

JoinName(base, nm) == IF Rule = "code" THEN Clean(base, Segs(nm)) ELSE Append(base, nm)

Children(p) == {q \in tree : Len(q) = Len(p) + 1 /\ Front(q) = p}
ChildKinds(p) == {Last(q)[1] : q \in Children(p)}

\* the directory-or-file stem a board is rendered to (render()'s outputPath without extension)
RECURSIVE Stem(_)
Stem(p) ==
  IF p = <<>> THEN <<"out">>
  ELSE LET par == Front(p)
           k == Last(p)[1]
           sub == IF ChildKinds(par) \ {k} # {} THEN Append(Stem(par), k) ELSE Stem(par)
       IN JoinName(sub, Last(p)[2])

File(p) == IF Children(p) # {} THEN Append(Stem(p), "index") ELSE Stem(p)   \* + extension
Deletes == {Stem(p) : p \in {q \in tree : Children(q) # {}}}            \* os.RemoveAll targets

IsPrefixSeq(s, t) == Len(s) <= Len(t) /\ \A i \in 1..Len(s) : s[i] = t[i]
OutDir == <<"out">>

Init == tree = {<<>>}
AddBoard(par, k, nm) ==
  /\ Cardinality(tree) <= MaxBoards /\ Len(par) < MaxDepth
  /\ \A q \in Children(par) : ~(Last(q)[1] = k /\ Last(q)[2] = nm)   \* names are unique per kind
  /\ tree' = tree \cup {Append(par, <<k, nm>>)}
Next == \E par \in tree, k \in Kinds, nm \in Names : AddBoard(par, k, nm)
Spec == Init /\ [][Next]_tree

Multi == Cardinality(tree) > 1
\* C34: one distinct file per board
OneFilePerBoard == \A p, q \in tree : p # q => File(p) # File(q)
\* C34: every file (and every directory removed beforehand) is inside the output location
Contained == Multi => /\ \A p \in tree : IsPrefixSeq(OutDir, File(p)) /\ Len(File(p)) > 1
                      /\ \A d \in Deletes : IsPrefixSeq(OutDir, d)
\* a directory cleared for one board never holds another board's file unless that board is below it
NoLateDelete == \A p, q \in tree : (Children(p) # {} /\ IsPrefixSeq(Stem(p), File(q))) => IsPrefixSeq(p, q)
=============================================================================
