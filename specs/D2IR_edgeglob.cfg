SPECIFICATION Spec
CONSTANTS MaxLen = 4 IndexRule = "stable" LabelRule = "lastwriter"
INVARIANTS TreeWF EndpointsWF GlobEdgesWF DistinctIDs
PROPERTIES EdgeGlobNow EdgeGlobLater IndexedRefHitsOne
VIEW View
CHECK_DEADLOCK FALSE
