SPECIFICATION TSpec
CONSTANTS
  Names = {"x", "y"}
  Values = {"1", "2"}
POSTCONDITION Done
CHECK_DEADLOCK FALSE
