--------------------------- MODULE TraceImgBundle ---------------------------
(* Validates runs of the real imgbundler.BundleLocal / BundleRemote (family "bundle", C46).
   The harness controls the order in which the workers' fetches complete (HTTP handlers / FIFOs it
   releases one by one) and which fetches fail; per run it logs
     start  : occ = the image index of every <image href> occurrence of the input, eligible, fails
     return : per occurrence whether it became a data URI carrying exactly that image's bytes,
              whether every byte outside the <image href="..."> tokens is unchanged, the hrefs named
              in the returned error.
   The outcome must be ImgBundle's Outcome: a function of (eligible, fails) only. *)
EXTENDS Integers, Sequences, FiniteSets, Json, TLC
VARIABLES l, tid, st
Trace == ndJsonDeserialize("trace.ndjson")
Chk(c, prop, aspect, detail) == IF c THEN TRUE ELSE PrintT(<<"VIOL", tid, (IF "i" \in DOMAIN Trace[l] THEN Trace[l].i ELSE 0), prop, aspect, detail>>)
Range(q) == {q[k] : k \in 1..Len(q)}
None == [occ |-> <<>>, eligible |-> <<>>, fails |-> <<>>, order |-> <<>>]

Return(e) ==
  LET El == Range(st.eligible) F == Range(st.fails) \cap El
      Should(k) == st.occ[k] \in El \ F      \* occurrence k refers to an eligible image that loads
  IN
  /\ Chk(e.timedOut = 0, "C46", "bundling-did-not-terminate", st.order)
  /\ Chk(Len(e.replaced) = Len(st.occ), "C46", "image-elements-added-or-lost", <<Len(e.replaced), Len(st.occ)>>)
  /\ Len(e.replaced) = Len(st.occ) =>
       \A k \in 1..Len(st.occ) :
         /\ Chk((e.replaced[k] = 1) <=> Should(k), "C46", IF Should(k) THEN "eligible-image-not-replaced" ELSE "ineligible-or-failed-image-replaced", <<k, st.occ[k], st.order, st.fails>>)
         /\ Chk(e.replaced[k] = 1 => e.payloadOK[k] = 1, "C46", "data-uri-does-not-carry-the-image-bytes", <<k, st.occ[k], st.order>>)
  /\ Chk(e.restUnchanged = 1, "C46", "bytes-outside-image-references-changed", st.order)
  /\ Chk((e.errReturned = 1) <=> (F # {}), "C46", "error-reported-iff-some-image-failed", <<e.errReturned, F>>)
  /\ Chk(Range(e.errHrefs) = F, "C46", "reported-hrefs-are-not-exactly-the-failed-ones", <<e.errHrefs, F, st.order>>)

Init == l = 1 /\ tid = 0 /\ st = None
Next ==
  /\ l <= Len(Trace) /\ l' = l + 1
  /\ LET e == Trace[l] IN
       CASE e.ev = "reset"  -> tid' = e.tid /\ st' = None
         [] e.ev = "start"  -> st' = [occ |-> e.occ, eligible |-> e.eligible, fails |-> e.fails, order |-> e.order] /\ UNCHANGED tid
         [] e.ev = "return" -> Return(e) /\ UNCHANGED <<tid, st>>
         [] OTHER -> Chk(FALSE, "MACHINERY", "unknown-event", e.ev) /\ UNCHANGED <<tid, st>>
Spec == Init /\ [][Next]_<<l, tid, st>>
Done == PrintT(<<"TRACE-END", TLCGet("stats").diameter, Len(Trace)>>)
=============================================================================
