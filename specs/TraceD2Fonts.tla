----------------------------- MODULE TraceD2Fonts -----------------------------
(* Embedded fonts (family "fonts": C47).
   A "font" event is one embedded font of one rendered SVG: the code points the SVG draws in that font
   (drawn), those of them for which the decoded embedded subset has a glyph (inSubset) and those for which
   the full font has one (inFull).  The subset covers what is drawn: drawn /\ full \subseteq subset. *)
EXTENDS Integers, Sequences, FiniteSets, Json, TLC
VARIABLES l, tid
Trace == ndJsonDeserialize("trace.ndjson")
Chk(c, prop, aspect, detail) == IF c THEN TRUE ELSE PrintT(<<"VIOL", tid, (IF "i" \in DOMAIN Trace[l] THEN Trace[l].i ELSE 0), prop, aspect, detail>>)
SetOf(q) == {q[k] : k \in 1..Len(q)}

Font(e) ==
  /\ Chk(e.decoded = 1, "C47", "embedded-font-cannot-be-decoded", <<e.style, e.msg>>)
  /\ e.decoded = 1 =>
       Chk((SetOf(e.drawn) \cap SetOf(e.inFull)) \subseteq SetOf(e.inSubset), "C47", "character-drawn-in-a-font-whose-embedded-subset-has-no-glyph-for-it",
           <<e.style, (SetOf(e.drawn) \cap SetOf(e.inFull)) \ SetOf(e.inSubset), e.text>>)
Render(e) ==
  /\ Chk(e.panic = 0, "C47", "render-crashed", e.msg)
  /\ Chk(e.err = 0, "MACHINERY", "generated-diagram-does-not-render", <<e.msg, e.text>>)
  /\ \A k \in 1..Len(e.styles) : Chk(e.styles[k].embedded = 1 \/ e.styles[k].ndrawn = 0, "C47", "text-drawn-in-a-font-that-is-not-embedded", <<e.styles[k].style, e.text>>)

Init == l = 1 /\ tid = 0
Next ==
  /\ l <= Len(Trace) /\ l' = l + 1
  /\ LET e == Trace[l] IN
       CASE e.ev = "reset" -> tid' = e.tid
         [] e.ev = "font"   -> Font(e) /\ UNCHANGED tid
         [] e.ev = "render" -> Render(e) /\ UNCHANGED tid
         [] OTHER -> Chk(FALSE, "MACHINERY", "unknown-event", e.ev) /\ UNCHANGED tid
Spec == Init /\ [][Next]_<<l, tid>>
Done == PrintT(<<"TRACE-END", TLCGet("stats").diameter, Len(Trace)>>)
=============================================================================
