------------------------------ MODULE FSWrite ------------------------------
(* The two ways d2 rewrites a file, as sequences of system calls, with a crash possible before
   every call (C48).
     "atomic"  xmain.AtomicWritePath / d2 fmt after the fix: CreateTemp in the target's directory,
               write(s), [chmod to the old mode], close, rename over the target
     "plain"   os.WriteFile: open(O_WRONLY|O_CREAT|O_TRUNC), write(s), close   (d2 fmt before the fix)
   NewLen bytes are written in Chunks write calls.  Existed: the target existed before. *)
EXTENDS FSOps, TLC
CONSTANTS Protocol, ChunkSet, LenSet, KeepMode
VARIABLES fs, pc, written, crashed, existed, Chunks, NewLen, OldLen
vars == <<fs, pc, written, crashed, existed, Chunks, NewLen, OldLen>>
params == <<existed, Chunks, NewLen, OldLen>>

T   == "target"
Tmp == "tmp"
OldMode == 420   \* 0644
TmpMode == 384   \* 0600, what CreateTemp uses

Init ==
  /\ existed \in BOOLEAN /\ Chunks \in ChunkSet /\ NewLen \in LenSet /\ OldLen \in LenSet
  /\ fs = IF existed THEN [p \in {T} |-> [len |-> OldLen, gen |-> "old", mode |-> OldMode]] ELSE <<>>
  /\ pc = "start" /\ written = 0 /\ crashed = FALSE

Step == IF NewLen \div Chunks >= 1 THEN NewLen \div Chunks ELSE 1
ChunkSize == IF written + Step >= NewLen THEN NewLen - written ELSE Step

Open ==
  /\ pc = "start"
  /\ IF Protocol = "plain"
     THEN fs' = SysOpen(fs, T, TRUE, FALSE, TRUE, OldMode)
     ELSE fs' = SysOpen(fs, Tmp, TRUE, TRUE, FALSE, TmpMode)
  /\ pc' = "writing" /\ UNCHANGED <<written, crashed, params>>

Write ==
  /\ pc = "writing" /\ written < NewLen
  /\ fs' = SysWrite(fs, IF Protocol = "plain" THEN T ELSE Tmp, ChunkSize)
  /\ written' = written + ChunkSize
  /\ UNCHANGED <<pc, crashed, params>>

Chmod ==
  /\ pc = "writing" /\ written = NewLen /\ Protocol = "atomic" /\ KeepMode /\ existed
  /\ fs' = SysChmod(fs, Tmp, OldMode)
  /\ pc' = "chmodded" /\ UNCHANGED <<written, crashed, params>>

Close ==
  /\ \/ pc = "writing" /\ written = NewLen /\ ~(Protocol = "atomic" /\ KeepMode /\ existed)
     \/ pc = "chmodded"
  /\ pc' = IF Protocol = "plain" THEN "done" ELSE "closed"
  /\ UNCHANGED <<fs, written, crashed, params>>

Rename ==
  /\ pc = "closed"
  /\ fs' = SysRename(fs, Tmp, T)
  /\ pc' = "done" /\ UNCHANGED <<written, crashed, params>>

Crash == /\ pc # "done" /\ ~crashed /\ crashed' = TRUE /\ pc' = "dead" /\ UNCHANGED <<fs, written, params>>

Next == (~crashed /\ (Open \/ Write \/ Chmod \/ Close \/ Rename)) \/ Crash
Spec == Init /\ [][Next]_vars /\ WF_vars(Open \/ Write \/ Chmod \/ Close \/ Rename)

\* C48: whatever the crash point, the target holds its complete old or complete new content
Atomicity == AtomicAt(fs, T, existed, NewLen)
\* a completed run leaves the new content and no temporary file
Completed == pc = "done" => IsNew(Get(fs, T), NewLen) /\ Tmp \notin DOMAIN fs
\* (extension) rewriting in place keeps the file mode
ModeKept == (pc = "done" /\ existed /\ KeepMode) => Get(fs, T).mode = OldMode
\* without a crash the command finishes
Terminates == <>(pc = "done" \/ crashed)
=============================================================================
