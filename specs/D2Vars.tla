------------------------------- MODULE D2Vars -------------------------------
(* Scoped variables and substitution (C13).
   A program is a tree of scopes (the file, containers, layers, scenarios, steps); a scope may define
   variables; a use site is a value made of literal pieces and references, written unquoted,
   double-quoted or single-quoted.  The meaning of a reference is the definition in the innermost
   enclosing scope that has one; the compiled text of a use site is the concatenation of its pieces with
   every reference replaced by that value; single-quoted text is taken literally; an unresolvable
   reference outside single quotes is an error.
   The module is written over abstract programs so that it can be model checked on its own (D2Vars.cfg:
   every program over 3 scopes, 2 names, 2 values - the twin statement "substituting textually first gives
   the same compiled text") and instantiated by TraceD2Vars on programs run through the real compiler. *)
EXTENDS Integers, Sequences, FiniteSets, TLC

NoDef == "~undefined~"

\* scopes: sequence of [parent |-> index (0 for the file), defs |-> function name -> value (NoDef when absent)]
RECURSIVE Resolve(_, _, _, _)
Resolve(scopes, names, i, n) ==
  IF i = 0 THEN NoDef
  ELSE IF n \in names /\ scopes[i].defs[n] # NoDef THEN scopes[i].defs[n]
  ELSE Resolve(scopes, names, scopes[i].parent, n)

\* pieces: sequence of [t |-> "lit" | "var", v |-> text or name]
RECURSIVE Concat(_, _, _, _, _)
Concat(scopes, names, i, pieces, k) ==
  IF k > Len(pieces) THEN ""
  ELSE (IF pieces[k].t = "lit" THEN pieces[k].v ELSE Resolve(scopes, names, i, pieces[k].v)) \o Concat(scopes, names, i, pieces, k + 1)

RECURSIVE Literal(_, _)
Literal(pieces, k) ==
  IF k > Len(pieces) THEN ""
  ELSE (IF pieces[k].t = "lit" THEN pieces[k].v ELSE "${" \o pieces[k].v \o "}") \o Literal(pieces, k + 1)

Undefined(scopes, names, i, pieces) == \E k \in 1..Len(pieces) : pieces[k].t = "var" /\ Resolve(scopes, names, i, pieces[k].v) = NoDef

\* the compiled text of a use site, or the error marker
Expected(scopes, names, u) ==
  IF u.quote = "single" THEN Literal(u.pieces, 1)
  ELSE IF Undefined(scopes, names, u.scope, u.pieces) THEN "~error~"
  ELSE Concat(scopes, names, u.scope, u.pieces, 1)

\* the twin: replace every reference by its value textually, then compile (no references left)
Twin(scopes, names, u) ==
  [u EXCEPT !.pieces = [k \in 1..Len(u.pieces) |-> IF u.pieces[k].t = "var" /\ u.quote # "single" /\ Resolve(scopes, names, u.scope, u.pieces[k].v) # NoDef
                                                       THEN [t |-> "lit", v |-> Resolve(scopes, names, u.scope, u.pieces[k].v)] ELSE u.pieces[k]]]

-----------------------------------------------------------------------------
\* bounded model: every program over 3 scopes (file <- container <- container), names {x, y}, values {1, 2}
CONSTANTS Names, Values
VARIABLES prog, done
Defs == [Names -> Values \cup {NoDef}]
Progs == [s1 : Defs, s2 : Defs, s3 : Defs, at : 1..3, quote : {"none", "double", "single"}, p1 : Names, p2 : Names]
ScopesOf(p) == <<[parent |-> 0, defs |-> p.s1], [parent |-> 1, defs |-> p.s2], [parent |-> 2, defs |-> p.s3]>>
UseOf(p) == [scope |-> p.at, quote |-> p.quote, pieces |-> <<[t |-> "lit", v |-> "a"], [t |-> "var", v |-> p.p1], [t |-> "lit", v |-> "-"], [t |-> "var", v |-> p.p2]>>]
Init == prog \in Progs /\ done = FALSE
Next == done = FALSE /\ done' = TRUE /\ UNCHANGED prog
ModelSpec == Init /\ [][Next]_<<prog, done>>
\* substituting textually first does not change the compiled text (when nothing is undefined)
TwinAgrees ==
  LET sc == ScopesOf(prog) u == UseOf(prog) IN
  Expected(sc, Names, u) # "~error~" => Expected(sc, Names, Twin(sc, Names, u)) = Expected(sc, Names, u)
\* the innermost definition wins
InnermostWins ==
  LET sc == ScopesOf(prog) IN
  \A n \in Names : \A i \in 1..3 : sc[i].defs[n] # NoDef => Resolve(sc, Names, i, n) = sc[i].defs[n]
\* a definition is visible in every nested scope that does not redefine the name
Inherited ==
  LET sc == ScopesOf(prog) IN
  \A n \in Names : \A i \in 2..3 : sc[i].defs[n] = NoDef => Resolve(sc, Names, i, n) = Resolve(sc, Names, i - 1, n)
=============================================================================
