package main

import (
	"bytes"
	"context"
	"encoding/base64"
	"encoding/json"
	"fmt"
	"html"
	"net"
	"net/http"
	"os"
	"path/filepath"
	"regexp"
	"sort"
	"strings"
	"sync"
	"syscall"
	"time"

	"oss.terrastruct.com/d2/lib/imgbundler"
	"oss.terrastruct.com/d2/lib/simplelog"

	"verifharness/internal/tr"
)

// Family bundle (C46): the real imgbundler.BundleRemote / BundleLocal with the completion order of
// the workers' fetches and the set of failing fetches controlled from outside (HTTP handlers and
// FIFOs that the harness releases one by one). No hooks.

type bundleInput struct {
	Mode   string `json:"mode"`   // remote | local
	N      int    `json:"n"`      // unique eligible images
	Order  []int  `json:"order"`  // release order of the fetches (image numbers 1..N)
	Fails  []int  `json:"fails"`  // images that cannot be loaded
	Layout string `json:"layout"` // plain | dups | prefix | escaped | mixed | twins
	Cache  bool   `json:"cache,omitempty"`
}

func init() { register("bundle", driveBundle) }

func permutations(n int) [][]int {
	var res [][]int
	var rec func(cur []int, used []bool)
	rec = func(cur []int, used []bool) {
		if len(cur) == n {
			res = append(res, append([]int(nil), cur...))
			return
		}
		for i := 1; i <= n; i++ {
			if !used[i] {
				used[i] = true
				rec(append(cur, i), used)
				used[i] = false
			}
		}
	}
	rec(nil, make([]bool, n+1))
	return res
}

func subsets(n int) [][]int {
	var res [][]int
	for m := 0; m < 1<<n; m++ {
		var s []int
		for i := 0; i < n; i++ {
			if m&(1<<i) != 0 {
				s = append(s, i+1)
			}
		}
		res = append(res, s)
	}
	return res
}

func driveBundle(c *Ctx) error {
	var inputs []bundleInput
	if c.Replay != nil {
		var in bundleInput
		if err := json.Unmarshal(c.Replay, &in); err != nil {
			return err
		}
		inputs = []bundleInput{in}
	} else {
		layouts := []string{"plain", "dups", "prefix", "escaped", "mixed", "twins"}
		maxN := 3
		if c.Thorough() {
			maxN = 4
		}
		// every completion order x every failure subset, n <= maxN, remote; layouts rotate
		k := 0
		for n := 1; n <= maxN; n++ {
			for _, ord := range permutations(n) {
				for _, f := range subsets(n) {
					inputs = append(inputs, bundleInput{Mode: "remote", N: n, Order: ord, Fails: f, Layout: layouts[k%len(layouts)]})
					k++
				}
			}
		}
		// local files behind FIFOs: all orders x all failure subsets for n <= 3 (quick: n <= 2 plus a sample)
		ln := 2
		if c.Thorough() {
			ln = 3
		}
		for n := 1; n <= ln; n++ {
			for _, ord := range permutations(n) {
				for _, f := range subsets(n) {
					inputs = append(inputs, bundleInput{Mode: "local", N: n, Order: ord, Fails: f, Layout: layouts[k%len(layouts)]})
					k++
				}
			}
		}
		// failure-heavy sets: at least as many failing images as worker slots (16), followed by loadable ones
		for _, nf := range []int{16, 17, 20} {
			n := nf + 4
			var ord, f []int
			for j := 1; j <= n; j++ {
				ord = append(ord, j)
				if j <= nf {
					f = append(f, j)
				}
			}
			inputs = append(inputs, bundleInput{Mode: "remote", N: n, Order: ord, Fails: f, Layout: "plain"})
			if nf == 16 {
				inputs = append(inputs, bundleInput{Mode: "local", N: n, Order: ord, Fails: f, Layout: "plain"})
			}
		}
		// larger sets (more images than the 16 worker slots), random orders and failures
		big := 6
		if c.Thorough() {
			big = 60
		}
		for i := 0; i < big; i++ {
			n := 5 + c.Rng.Intn(20)
			ord := c.Rng.Perm(n)
			for j := range ord {
				ord[j]++
			}
			var f []int
			for j := 1; j <= n; j++ {
				if c.Rng.Intn(4) == 0 {
					f = append(f, j)
				}
			}
			inputs = append(inputs, bundleInput{Mode: "remote", N: n, Order: ord, Fails: f, Layout: layouts[c.Rng.Intn(len(layouts))], Cache: i%5 == 4})
		}
	}
	for _, in := range inputs {
		evs, err := bundleRun(in)
		if err != nil {
			return err
		}
		nt := []string{}
		if in.N >= 2 {
			nt = append(nt, "C46")
		}
		c.W.Add(in, evs, nt...)
		c.W.Sample("C46", in)
	}
	return nil
}

var reImage = regexp.MustCompile(`<image href="([^"]+)"`)

func imgContent(i int, layout string) []byte {
	if layout == "twins" && i == 2 {
		i = 1 // two hrefs, one content
	}
	b := []byte("\x89PNG\r\n\x1a\n")
	for k := 0; k < 20+i*7; k++ {
		b = append(b, byte(i*31+k))
	}
	return b
}

func bundleRun(in bundleInput) ([]tr.M, error) {
	dir, err := os.MkdirTemp("", "vbundle-")
	if err != nil {
		return nil, err
	}
	defer os.RemoveAll(dir)
	fails := map[int]bool{}
	for _, f := range in.Fails {
		fails[f] = true
	}
	gates := make([]chan struct{}, in.N+1)
	for i := range gates {
		gates[i] = make(chan struct{})
	}
	hrefs := make([]string, in.N+1) // as written in the SVG (HTML-escaped)
	var srv *http.Server
	base := ""
	if in.Mode == "remote" {
		ln, err := net.Listen("tcp", "127.0.0.1:0")
		if err != nil {
			return nil, err
		}
		base = "http://" + ln.Addr().String()
		mux := http.NewServeMux()
		mux.HandleFunc("/img/", func(w http.ResponseWriter, r *http.Request) {
			var i int
			name := strings.TrimPrefix(r.URL.Path, "/img/")
			fmt.Sscanf(name, "%d", &i)
			if strings.HasSuffix(name, ".png2") {
				i += 0 // "N.png2" is image N itself in the prefix layout; "N.png" would be a different one
			}
			if i < 1 || i > in.N {
				http.NotFound(w, r)
				return
			}
			<-gates[i]
			if fails[i] {
				http.Error(w, "nope", http.StatusInternalServerError)
				return
			}
			w.Header().Set("Content-Type", "image/png")
			w.Write(imgContent(i, in.Layout))
		})
		srv = &http.Server{Handler: mux}
		go srv.Serve(ln)
		defer srv.Close()
	}
	for i := 1; i <= in.N; i++ {
		switch {
		case in.Mode == "remote" && in.Layout == "escaped":
			hrefs[i] = fmt.Sprintf("%s/img/%d.png?a=1&amp;b=%d", base, i, i)
		case in.Mode == "remote" && in.Layout == "prefix":
			// image i is served at i.png2...; the hrefs are prefixes of each other
			hrefs[i] = fmt.Sprintf("%s/img/%d.png%s", base, i, strings.Repeat("2", i-1))
		case in.Mode == "remote":
			hrefs[i] = fmt.Sprintf("%s/img/%d.png", base, i)
		case in.Layout == "escaped":
			hrefs[i] = fmt.Sprintf("im&amp;g%d.png", i)
		case in.Layout == "prefix":
			hrefs[i] = "img" + strings.Repeat("1", i) + ".png"
		default:
			hrefs[i] = fmt.Sprintf("sub/img%d.png", i)
		}
	}
	if in.Mode == "local" {
		os.MkdirAll(filepath.Join(dir, "sub"), 0o755)
		for i := 1; i <= in.N; i++ {
			if fails[i] {
				continue // missing file
			}
			p := filepath.Join(dir, html.UnescapeString(hrefs[i]))
			if err := syscall.Mkfifo(p, 0o644); err != nil {
				return nil, err
			}
		}
	}
	// ---- the SVG
	type occT struct {
		idx  int
		href string
	}
	var occ []occT
	var sb strings.Builder
	sb.WriteString(`<svg xmlns="http://www.w3.org/2000/svg"><style>.x{fill:red}</style>`)
	foreign := "local.png"
	if in.Mode == "local" {
		foreign = "http://127.0.0.1:1/never.png"
	}
	for i := 1; i <= in.N; i++ {
		fmt.Fprintf(&sb, `<g id="g%d"><text>decoy href="%s" and <![CDATA[<image href=%s]]></text>`, i, hrefs[i], hrefs[i])
		fmt.Fprintf(&sb, `<image href="%s" x="%d" width="10"/>`, hrefs[i], i)
		occ = append(occ, occT{i, hrefs[i]})
		fmt.Fprintf(&sb, `<a href="%s">link</a></g>`, hrefs[i])
		if in.Layout == "dups" || (in.Layout == "mixed" && i%2 == 1) {
			fmt.Fprintf(&sb, `<image href="%s" y="%d"/>`, hrefs[i], i)
			occ = append(occ, occT{i, hrefs[i]})
		}
		if in.Layout == "mixed" {
			fmt.Fprintf(&sb, `<image href="%s" z="%d"/><image href="data:image/png;base64,QUJD" />`, foreign, i)
			occ = append(occ, occT{100, foreign}, occT{101, "data:image/png;base64,QUJD"})
		}
	}
	sb.WriteString(`<rect width="1"/></svg>`)
	input := []byte(sb.String())

	// ---- run the real bundler, releasing the fetches in the requested order
	type result struct {
		out []byte
		err error
	}
	resc := make(chan result, 1)
	ctx, cancel := context.WithTimeout(context.Background(), 10*time.Second)
	defer cancel()
	nolog := func(string) {}
	l := simplelog.Make(&nolog, &nolog, &nolog)
	go func() {
		var out []byte
		var err error
		if in.Mode == "remote" {
			out, err = imgbundler.BundleRemote(ctx, l, append([]byte(nil), input...), in.Cache)
		} else {
			out, err = imgbundler.BundleLocal(ctx, l, filepath.Join(dir, "in.d2"), append([]byte(nil), input...), in.Cache)
		}
		resc <- result{out, err}
	}()
	var wg sync.WaitGroup
	released := map[int]bool{}
	release := func(i int) {
		if released[i] || i < 1 || i > in.N {
			return
		}
		released[i] = true
		if in.Mode == "remote" {
			close(gates[i])
		} else if !fails[i] {
			wg.Add(1)
			p := filepath.Join(dir, html.UnescapeString(hrefs[i]))
			done := make(chan struct{})
			go func() {
				defer wg.Done()
				defer close(done)
				// wait (bounded) until the worker has opened the FIFO for reading: a non-blocking open for writing
				// fails with ENXIO until then. A worker that never starts must not hang the harness.
				for dl := time.Now().Add(3 * time.Second); time.Now().Before(dl); time.Sleep(500 * time.Microsecond) {
					f, err := os.OpenFile(p, os.O_WRONLY|syscall.O_NONBLOCK, 0)
					if err == nil {
						f.Write(imgContent(i, in.Layout))
						f.Close()
						return
					}
				}
			}()
			select {
			case <-done:
			case <-time.After(4 * time.Second):
			}
		}
		time.Sleep(1500 * time.Microsecond)
	}
	time.Sleep(2 * time.Millisecond) // let the workers start and block
	for _, i := range in.Order {
		release(i)
	}
	for i := 1; i <= in.N; i++ {
		release(i)
	}
	var res result
	timedOut := false
	select {
	case res = <-resc:
	case <-time.After(25 * time.Second):
		timedOut = true
	}
	if res.err != nil && strings.Contains(res.err.Error(), "deadline exceeded") {
		timedOut = true
	}

	// ---- analyse the outcome per <image href> occurrence
	inIdx := reImage.FindAllSubmatchIndex(input, -1)
	outIdx := reImage.FindAllSubmatchIndex(res.out, -1)
	replaced := []int{}
	payloadOK := []int{}
	rest := len(inIdx) == len(outIdx)
	if rest {
		pi, po := 0, 0
		for k := range inIdx {
			if !bytes.Equal(input[pi:inIdx[k][0]], res.out[po:outIdx[k][0]]) {
				rest = false
			}
			hin := string(input[inIdx[k][2]:inIdx[k][3]])
			hout := string(res.out[outIdx[k][2]:outIdx[k][3]])
			r, ok := 0, 0
			if hout != hin {
				r = 1
				if j := strings.Index(hout, ";base64,"); strings.HasPrefix(hout, "data:") && j > 0 {
					dec, err := base64.StdEncoding.DecodeString(hout[j+8:])
					if err == nil && k < len(occ) && occ[k].idx <= in.N && bytes.Equal(dec, imgContent(occ[k].idx, in.Layout)) {
						ok = 1
					}
				}
			}
			replaced = append(replaced, r)
			payloadOK = append(payloadOK, ok)
			pi, po = inIdx[k][1], outIdx[k][1]
		}
		if !bytes.Equal(input[pi:], res.out[po:]) {
			rest = false
		}
	} else {
		for range outIdx {
			replaced = append(replaced, 0)
			payloadOK = append(payloadOK, 0)
		}
	}
	errHrefs := []int{}
	if res.err != nil {
		s := res.err.Error()
		if a, b := strings.LastIndex(s, "["), strings.LastIndex(s, "]"); a >= 0 && b > a {
			for _, h := range strings.Fields(s[a+1 : b]) {
				idx := 999
				for i := 1; i <= in.N; i++ {
					if hrefs[i] == h {
						idx = i
					}
				}
				errHrefs = append(errHrefs, idx)
			}
		}
	}
	sort.Ints(errHrefs)
	occIdx := []int{}
	for _, o := range occ {
		occIdx = append(occIdx, o.idx)
	}
	eligible := []int{}
	for i := 1; i <= in.N; i++ {
		eligible = append(eligible, i)
	}
	nz := func(a []int) []int {
		if a == nil {
			return []int{}
		}
		return a
	}
	wg.Wait()
	return []tr.M{
		{"ev": "start", "mode": in.Mode, "occ": occIdx, "eligible": eligible, "fails": nz(in.Fails), "order": nz(in.Order)},
		{"ev": "return", "replaced": replaced, "payloadOK": payloadOK, "restUnchanged": tr.B(rest), "errReturned": tr.B(res.err != nil), "errHrefs": errHrefs, "timedOut": tr.B(timedOut)},
	}, nil
}
