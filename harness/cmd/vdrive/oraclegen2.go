package main

import (
	"fmt"
	"math/rand"
	"strings"
)

// Generator 2 of the oracle family: programs written the way people write them, not only as one block per
// object. Names come from a pool of four so that the same name occurs at several levels (collisions when
// children are hoisted or objects are moved); objects are declared as blocks, as flat dotted keys or with
// nested style maps; connections are declared inside containers with relative names, at the root with
// dotted paths, and may name objects that are declared nowhere else (implicit objects and containers,
// which carry no identity tag: see labelsOf). Scenarios refer to objects of the base board.

var oracleObjAttrs = []struct {
	key  string
	vals []string
}{
	{"style.opacity", []string{"0.1", "0.25", "0.5", "0.9", "1"}},
	{"style.stroke", []string{"red", "blue", "#00ff00"}},
	{"style.fill", []string{"yellow", "#aabbcc", "honeydew"}},
	{"style.stroke-width", []string{"1", "4", "15"}},
	{"style.stroke-dash", []string{"0", "3", "10"}},
	{"style.border-radius", []string{"0", "5", "20"}},
	{"style.shadow", []string{"true", "false"}},
	{"style.multiple", []string{"true", "false"}},
	{"style.font-size", []string{"8", "20", "55"}},
	{"style.font-color", []string{"red", "#123456"}},
	{"style.bold", []string{"true", "false"}},
	{"style.italic", []string{"true", "false"}},
	{"style.underline", []string{"true", "false"}},
	{"style.text-transform", []string{"uppercase", "lowercase", "capitalize", "none"}},
	{"style.font", []string{"mono"}},
	{"width", []string{"40", "120", "300"}},
	{"height", []string{"30", "90", "250"}},
	{"link", []string{"https://example.com/a", "https://example.com/b?x=1&y=2"}},
	{"icon", []string{"https://icons.terrastruct.com/essentials/004-picture.svg", "https://example.com/i.png"}},
	{"direction", []string{"up", "down", "left", "right"}},
	{"grid-rows", []string{"1", "3"}},
	{"grid-columns", []string{"2", "4"}},
	{"grid-gap", []string{"0", "10"}},
	{"top", []string{"5", "40"}},
	{"left", []string{"7", "60"}},
}

var oracleEdgeAttrs = []struct {
	key  string
	vals []string
}{
	{"style.stroke", []string{"red", "blue", "#00ff00"}},
	{"style.stroke-width", []string{"1", "4", "15"}},
	{"style.stroke-dash", []string{"0", "3", "10"}},
	{"style.opacity", []string{"0.2", "0.5", "1"}},
	{"style.animated", []string{"true", "false"}},
	{"style.bold", []string{"true", "false"}},
	{"style.italic", []string{"true", "false"}},
	{"style.underline", []string{"true", "false"}},
	{"style.font-size", []string{"8", "20", "55"}},
	{"style.font-color", []string{"red", "#123456"}},
	{"source-arrowhead.shape", []string{"diamond", "circle", "arrow", "triangle"}},
	{"target-arrowhead.shape", []string{"diamond", "circle", "arrow", "triangle"}},
	{"target-arrowhead.label", []string{"1", "many"}},
	{"source-arrowhead.label", []string{"0..1", "x"}},
	{"link", []string{"https://example.com/e"}},
}

type ogen2 struct {
	r      *rand.Rand
	sb     strings.Builder
	tcount int
	ecount int
	ids    []string // absolute IDs of the declared (tagged) objects
}

func (g *ogen2) attrLines(ind string, n int) []string {
	var ls []string
	seen := map[string]bool{}
	for i := 0; i < n; i++ {
		a := oracleObjAttrs[g.r.Intn(len(oracleObjAttrs))]
		if seen[a.key] || a.key == "top" || a.key == "left" || strings.HasPrefix(a.key, "grid-") {
			continue
		}
		seen[a.key] = true
		ls = append(ls, fmt.Sprintf("%s: %s", a.key, q2(a.vals[g.r.Intn(len(a.vals))])))
	}
	return ls
}

// q2 quotes values the unquoted syntax cannot carry
func q2(v string) string {
	if strings.ContainsAny(v, "#&?") {
		return "\"" + v + "\""
	}
	return v
}

func (g *ogen2) scope(prefix, ind string, depth int, budget *int) {
	r := g.r
	names := []string{"a", "b", "c", "d"}
	r.Shuffle(len(names), func(i, j int) { names[i], names[j] = names[j], names[i] })
	k := 1 + r.Intn(3)
	declared := []string{}
	for i := 0; i < k && *budget > 0; i++ {
		*budget--
		g.tcount++
		name := names[i]
		id := name
		if prefix != "" {
			id = prefix + "." + name
		}
		g.ids = append(g.ids, id)
		declared = append(declared, name)
		attrs := g.attrLines(ind, r.Intn(4))
		lbl := ""
		if r.Intn(2) == 0 {
			lbl = fmt.Sprintf("lbl%d ", g.tcount)
		}
		switch form := r.Intn(5); {
		case form == 0: // flat dotted keys
			fmt.Fprintf(&g.sb, "%s%s.tooltip: T%d\n", ind, name, g.tcount)
			if lbl != "" {
				fmt.Fprintf(&g.sb, "%s%s: %s\n", ind, name, strings.TrimSpace(lbl))
			}
			for _, a := range attrs {
				fmt.Fprintf(&g.sb, "%s%s.%s\n", ind, name, a)
			}
			if depth < 4 && *budget > 0 && r.Intn(3) == 0 {
				fmt.Fprintf(&g.sb, "%s%s: {\n", ind, name)
				g.scope(id, ind+"  ", depth+1, budget)
				fmt.Fprintf(&g.sb, "%s}\n", ind)
			}
		case form == 1: // style attributes gathered in a nested style map
			fmt.Fprintf(&g.sb, "%s%s: %s{\n%s  tooltip: T%d\n", ind, name, lbl, ind, g.tcount)
			var st, rest []string
			for _, a := range attrs {
				if strings.HasPrefix(a, "style.") {
					st = append(st, strings.TrimPrefix(a, "style."))
				} else {
					rest = append(rest, a)
				}
			}
			if len(st) > 0 {
				fmt.Fprintf(&g.sb, "%s  style: {\n", ind)
				for _, a := range st {
					fmt.Fprintf(&g.sb, "%s    %s\n", ind, a)
				}
				fmt.Fprintf(&g.sb, "%s  }\n", ind)
			}
			for _, a := range rest {
				fmt.Fprintf(&g.sb, "%s  %s\n", ind, a)
			}
			if depth < 4 && *budget > 0 && r.Intn(2) == 0 {
				g.scope(id, ind+"  ", depth+1, budget)
			}
			fmt.Fprintf(&g.sb, "%s}\n", ind)
		default: // one block
			fmt.Fprintf(&g.sb, "%s%s: %s{\n%s  tooltip: T%d\n", ind, name, lbl, ind, g.tcount)
			for _, a := range attrs {
				fmt.Fprintf(&g.sb, "%s  %s\n", ind, a)
			}
			if depth < 4 && *budget > 0 && r.Intn(2) == 0 {
				g.scope(id, ind+"  ", depth+1, budget)
			}
			fmt.Fprintf(&g.sb, "%s}\n", ind)
		}
	}
	// connections declared in this scope with relative names; an end may name an object declared nowhere
	if prefix != "" || r.Intn(2) == 0 {
		for n := r.Intn(3); n > 0 && len(declared) > 0; n-- {
			end := func() string {
				if r.Intn(3) == 0 {
					return names[r.Intn(len(names))] // possibly undeclared here: an implicit object
				}
				return declared[r.Intn(len(declared))]
			}
			a, b := end(), end()
			g.ecount++
			fmt.Fprintf(&g.sb, "%s%s %s %s: E%d%s\n", ind, a, g.arrow(), b, g.ecount, g.edgeMap())
		}
	}
}

func (g *ogen2) arrow() string {
	return []string{"->", "->", "->", "<-", "--", "<->"}[g.r.Intn(6)]
}

func (g *ogen2) edgeMap() string {
	if g.r.Intn(3) != 0 {
		return ""
	}
	a := oracleEdgeAttrs[g.r.Intn(len(oracleEdgeAttrs))]
	return fmt.Sprintf(" {%s: %s}", a.key, q2(a.vals[g.r.Intn(len(a.vals))]))
}

func oracleProgram2(r *rand.Rand, boards bool) string {
	g := &ogen2{r: r}
	budget := 3 + r.Intn(8)
	g.scope("", "", 1, &budget)
	// connections at the root with dotted paths; an end may extend a declared path by an undeclared name
	for n := r.Intn(4); n > 0 && len(g.ids) > 0; n-- {
		end := func() string {
			id := g.ids[r.Intn(len(g.ids))]
			switch r.Intn(5) {
			case 0:
				return id + "." + []string{"a", "b", "c", "d"}[r.Intn(4)]
			case 1:
				return []string{"team", "zone"}[r.Intn(2)] + "." + []string{"a", "b", "x"}[r.Intn(3)]
			}
			return id
		}
		a, b := end(), end()
		if strings.HasPrefix(a+".", b+".") || strings.HasPrefix(b+".", a+".") {
			continue
		}
		g.ecount++
		fmt.Fprintf(&g.sb, "%s %s %s: E%d%s\n", a, g.arrow(), b, g.ecount, g.edgeMap())
	}
	if boards {
		ref := func(ind string, own string) string {
			if len(g.ids) == 0 {
				return ""
			}
			id := g.ids[r.Intn(len(g.ids))]
			switch r.Intn(5) {
			case 0:
				return fmt.Sprintf("%s%s.style.opacity: 0.%d\n", ind, id, 1+r.Intn(9))
			case 1:
				return fmt.Sprintf("%s%s: {shape: %s}\n", ind, id, oracleShapes[r.Intn(len(oracleShapes))])
			case 2:
				g.ecount++
				return fmt.Sprintf("%s%s -> %s: E%d\n", ind, id, own, g.ecount)
			case 3:
				return fmt.Sprintf("%s%s.style.stroke: red\n", ind, id)
			}
			return ""
		}
		g.sb.WriteString("layers: {\n  l1: {\n    p: {tooltip: T91}\n    q: {tooltip: T92}\n    p -> q: E91\n  }\n  l2: {\n    r: {tooltip: T93}\n  }\n}\n")
		g.sb.WriteString("scenarios: {\n  s1: {\n    u: {tooltip: T94}\n" + ref("    ", "u") + ref("    ", "u") +
			"    steps: {\n      1: {\n        v: {tooltip: T95}\n" + ref("        ", "v") + "      }\n      2: {\n        w: {tooltip: T96}\n      }\n    }\n  }\n  s2: {\n    z: {tooltip: T97}\n" + ref("    ", "z") + "  }\n}\n")
	}
	return g.sb.String()
}
