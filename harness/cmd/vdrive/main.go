// vdrive drives the real terrastruct/d2 code and records what it does as ndjson traces that
// TLC validates against the TLA+ modules in /verif/specs. One sub-command per family.
package main

import (
	"encoding/json"
	"flag"
	"fmt"
	"math/rand"
	"os"
	"sort"
	"strings"
	"sync"

	"verifharness/internal/tr"
)

// Ctx is what every family driver gets.
type Ctx struct {
	Tier   string // quick | thorough
	Seed   int64
	Out    string
	Replay json.RawMessage // non-nil: drive exactly this one input
	Args   map[string]string
	W      *tr.Writer
	Rng    *rand.Rand
}

func (c *Ctx) Thorough() bool { return c.Tier == "thorough" }

type family func(c *Ctx) error

var families = map[string]family{}

func register(name string, f family) { families[name] = f }

func main() {
	if len(os.Args) < 2 {
		usage()
	}
	fam, ok := families[os.Args[1]]
	if !ok {
		usage()
	}
	fs := flag.NewFlagSet(os.Args[1], flag.ExitOnError)
	tier := fs.String("tier", "quick", "quick|thorough")
	seed := fs.Int64("seed", 1, "seed")
	out := fs.String("out", "", "output directory")
	replay := fs.String("replay", "", "file holding one input (JSON) to drive alone")
	maxEv := fs.Int("chunk", 20000, "max events per chunk")
	var kv kvFlag
	fs.Var(&kv, "arg", "family-specific key=value (repeatable)")
	fs.Parse(os.Args[2:])
	if *out == "" {
		fmt.Fprintln(os.Stderr, "need -out")
		os.Exit(2)
	}
	w, err := tr.NewWriter(*out, *maxEv)
	if err != nil {
		fmt.Fprintln(os.Stderr, err)
		os.Exit(2)
	}
	c := &Ctx{Tier: *tier, Seed: *seed, Out: *out, W: w, Rng: rand.New(rand.NewSource(*seed)), Args: kv.m}
	if *replay != "" {
		b, err := os.ReadFile(*replay)
		if err != nil {
			fmt.Fprintln(os.Stderr, err)
			os.Exit(2)
		}
		c.Replay = json.RawMessage(b)
	}
	if err := fam(c); err != nil {
		fmt.Fprintln(os.Stderr, "vdrive:", err)
		os.Exit(2)
	}
	if err := w.Close(); err != nil {
		fmt.Fprintln(os.Stderr, err)
		os.Exit(2)
	}
}

func usage() {
	names := make([]string, 0, len(families))
	for k := range families {
		names = append(names, k)
	}
	sort.Strings(names)
	fmt.Fprintln(os.Stderr, "usage: vdrive <family> -out DIR [-tier quick|thorough] [-seed N] [-replay FILE]; families:", names)
	os.Exit(2)
}

type kvFlag struct{ m map[string]string }

func (k *kvFlag) String() string { return "" }
func (k *kvFlag) Set(s string) error {
	if k.m == nil {
		k.m = map[string]string{}
	}
	for i := 0; i < len(s); i++ {
		if s[i] == '=' {
			k.m[s[:i]] = s[i+1:]
			return nil
		}
	}
	k.m[s] = "1"
	return nil
}

// ---- crash journal: a fatal runtime error of the code under test (stack overflow, concurrent map
// access) cannot be recovered and kills the driver. Drivers that run many inputs note which inputs are
// in flight (VERIF_JOURNAL), so that the check can find the culprit by re-running those alone, and leave
// out inputs the check tells them to (VERIF_SKIP: a file of input keys, one per line).
var journalMu sync.Mutex
var journalFile *os.File
var skipKeys map[string]bool

func journalKey(in any) string {
	b, _ := json.Marshal(in)
	return string(b)
}

func journal(tag string, in any) {
	p := os.Getenv("VERIF_JOURNAL")
	if p == "" {
		return
	}
	journalMu.Lock()
	defer journalMu.Unlock()
	if journalFile == nil {
		f, err := os.OpenFile(p, os.O_CREATE|os.O_WRONLY|os.O_APPEND, 0644)
		if err != nil {
			return
		}
		journalFile = f
	}
	fmt.Fprintf(journalFile, "%s %s\n", tag, journalKey(in))
}

func skipInput(in any) bool {
	journalMu.Lock()
	defer journalMu.Unlock()
	if skipKeys == nil {
		skipKeys = map[string]bool{}
		if p := os.Getenv("VERIF_SKIP"); p != "" {
			if b, err := os.ReadFile(p); err == nil {
				for _, l := range strings.Split(string(b), "\n") {
					if l != "" {
						skipKeys[l] = true
					}
				}
			}
		}
	}
	return skipKeys[journalKey(in)]
}
