// vdrive drives the real terrastruct/d2 code and records what it does as ndjson traces that
// TLC validates against the TLA+ modules in /verif/specs. One sub-command per family.
package main

import (
	"encoding/json"
	"flag"
	"fmt"
	"math/rand"
	"os"
	"sort"

	"verifharness/internal/tr"
)

// Ctx is what every family driver gets.
type Ctx struct {
	Tier   string // quick | thorough
	Seed   int64
	Out    string
	Replay json.RawMessage // non-nil: drive exactly this one input
	Args   map[string]string
	W      *tr.Writer
	Rng    *rand.Rand
}

func (c *Ctx) Thorough() bool { return c.Tier == "thorough" }

type family func(c *Ctx) error

var families = map[string]family{}

func register(name string, f family) { families[name] = f }

func main() {
	if len(os.Args) < 2 {
		usage()
	}
	fam, ok := families[os.Args[1]]
	if !ok {
		usage()
	}
	fs := flag.NewFlagSet(os.Args[1], flag.ExitOnError)
	tier := fs.String("tier", "quick", "quick|thorough")
	seed := fs.Int64("seed", 1, "seed")
	out := fs.String("out", "", "output directory")
	replay := fs.String("replay", "", "file holding one input (JSON) to drive alone")
	maxEv := fs.Int("chunk", 20000, "max events per chunk")
	var kv kvFlag
	fs.Var(&kv, "arg", "family-specific key=value (repeatable)")
	fs.Parse(os.Args[2:])
	if *out == "" {
		fmt.Fprintln(os.Stderr, "need -out")
		os.Exit(2)
	}
	w, err := tr.NewWriter(*out, *maxEv)
	if err != nil {
		fmt.Fprintln(os.Stderr, err)
		os.Exit(2)
	}
	c := &Ctx{Tier: *tier, Seed: *seed, Out: *out, W: w, Rng: rand.New(rand.NewSource(*seed)), Args: kv.m}
	if *replay != "" {
		b, err := os.ReadFile(*replay)
		if err != nil {
			fmt.Fprintln(os.Stderr, err)
			os.Exit(2)
		}
		c.Replay = json.RawMessage(b)
	}
	if err := fam(c); err != nil {
		fmt.Fprintln(os.Stderr, "vdrive:", err)
		os.Exit(2)
	}
	if err := w.Close(); err != nil {
		fmt.Fprintln(os.Stderr, err)
		os.Exit(2)
	}
}

func usage() {
	names := make([]string, 0, len(families))
	for k := range families {
		names = append(names, k)
	}
	sort.Strings(names)
	fmt.Fprintln(os.Stderr, "usage: vdrive <family> -out DIR [-tier quick|thorough] [-seed N] [-replay FILE]; families:", names)
	os.Exit(2)
}

type kvFlag struct{ m map[string]string }

func (k *kvFlag) String() string { return "" }
func (k *kvFlag) Set(s string) error {
	if k.m == nil {
		k.m = map[string]string{}
	}
	for i := 0; i < len(s); i++ {
		if s[i] == '=' {
			k.m[s[:i]] = s[i+1:]
			return nil
		}
	}
	k.m[s] = "1"
	return nil
}
