package main

import (
	"bytes"
	"context"
	"encoding/json"
	"fmt"
	"math"
	"math/rand"
	"regexp"
	"runtime/debug"
	"sort"
	"strings"
	"sync"
	"time"

	"oss.terrastruct.com/d2/d2ast"
	"oss.terrastruct.com/d2/d2compiler"
	"oss.terrastruct.com/d2/d2format"
	"oss.terrastruct.com/d2/d2graph"
	"oss.terrastruct.com/d2/d2layouts"
	"oss.terrastruct.com/d2/d2layouts/d2dagrelayout"
	"oss.terrastruct.com/d2/d2layouts/d2elklayout"
	"oss.terrastruct.com/d2/d2lib"
	"oss.terrastruct.com/d2/d2parser"
	"oss.terrastruct.com/d2/d2renderers/d2svg"
	"oss.terrastruct.com/d2/d2target"
	"oss.terrastruct.com/d2/lib/label"
	"oss.terrastruct.com/d2/lib/textmeasure"

	"verifharness/internal/gen"
	"verifharness/internal/proj"
	"verifharness/internal/tr"
)

// Family pipe: generated diagrams pushed through the stages of the tool chain
// (parse/format -> compile -> layout(dagre|elk) -> serialize -> export -> render); one event per
// stage with the facts the stage's properties talk about. TracePipeline.tla holds the predicates.

type pipeInput struct {
	Seed   int64  `json:"seed"`
	Mode   string `json:"mode"` // which generator options (see pipeOpts)
	Engine string `json:"engine,omitempty"`
	Text   string `json:"text,omitempty"` // replay: the exact program (overrides the generator)
}

func init() { register("pipe", drivePipe) }

func pipeOpts(mode string) gen.Opts {
	switch mode {
	case "text-mut":
		return pipeOpts("text")
	case "text2-mut":
		return pipeOpts("text2")
	case "text2": // text with comments of every form, number-like labels and boundary style values
		o := pipeOpts("text")
		o.Comments, o.NumberLabels, o.Boundary, o.EdgeLinks = true, true, true, true
		return o
	case "text3-mut":
		return pipeOpts("text3")
	case "text3": // text2 with tables and classes, connection references in every form, blank lines in block strings, empty boards
		o := pipeOpts("text2")
		o.Tables, o.EdgeKeys, o.BlockBlank, o.EmptyBoards = true, true, true, true
		return o
	case "render2": // render with boundary style values on shapes and connections, links on connections, 3d/multiple with outside labels
		o := pipeOpts("render")
		o.Boundary, o.EdgeLinks, o.Label3D, o.LabelPos = true, true, true, true
		return o
	case "text": // compile-level families: names and labels with every kind of character
		return gen.Opts{MaxObjs: 6, MaxEdges: 4, Tricky: true, Containers: true, Styles: true, Classes: true, Boards: true, Markdown: true, Direction: true, Grid: true, Sequence: true, Near: true, Sizes: true}
	case "layout":
		return gen.Opts{MaxObjs: 7, MaxEdges: 5, Tricky: false, Containers: true, Styles: true, Sizes: true, AllShapes: true, Direction: true, Grid: true, Sequence: true, Near: true, Icons: true, LabelPos: true, CrossEdges: true}
	case "nested-elk": // deep container nesting with label positions, always laid out with ELK
		return gen.Opts{MaxObjs: 8, MaxEdges: 3, Containers: true, DeepNest: true, LabelPos: true, Sizes: true}
	case "layout-tricky":
		return gen.Opts{MaxObjs: 5, MaxEdges: 3, Tricky: true, Containers: true, Sizes: true, Direction: true, Markdown: true}
	case "grid":
		return gen.Opts{MaxObjs: 2, MaxEdges: 1, Grid: true, SpecialOnly: "grid", CrossEdges: true}
	case "sequence":
		return gen.Opts{MaxObjs: 2, MaxEdges: 1, Sequence: true, SpecialOnly: "sequence", CrossEdges: true}
	case "near":
		return gen.Opts{MaxObjs: 4, MaxEdges: 3, Containers: true, Near: true, SpecialOnly: "near", Sizes: true, LabelPos: true}
	case "render3": // render2 plus connections with a border radius and labels on both arrowheads
		o := pipeOpts("render2")
		o.EdgeExtras, o.Tables = true, true
		return o
	case "render3-plain":
		o := pipeOpts("render3")
		o.Tricky = false
		return o
	case "render2-plain":
		o := pipeOpts("render2")
		o.Tricky = false
		return o
	case "render-plain": // the same diagrams as "render" without special characters: the marker-free twin the SVG vocabulary is learnt from
		o := pipeOpts("render")
		o.Tricky = false
		return o
	case "render":
		return gen.Opts{MaxObjs: 5, MaxEdges: 4, Tricky: true, Tooltips: true, Containers: true, Styles: true, Sizes: true, AllShapes: true, Markdown: true, Near: true, Icons: true, Classes: true}
	}
	return gen.Opts{MaxObjs: 5, MaxEdges: 3, Containers: true}
}

// a Ruler caches glyph measurements in plain maps: one per pipeline run, never shared
func ruler() *textmeasure.Ruler {
	r, _ := textmeasure.NewRuler()
	return r
}

func layoutFor(engine string) func(context.Context, *d2graph.Graph) error {
	if engine == "elk" {
		return func(ctx context.Context, g *d2graph.Graph) error { return d2elklayout.DefaultLayout(ctx, g) }
	}
	return func(ctx context.Context, g *d2graph.Graph) error { return d2dagrelayout.DefaultLayout(ctx, g) }
}

func ri(f float64) int { return int(math.Round(f)) }
func finite(fs ...float64) int {
	for _, f := range fs {
		if math.IsNaN(f) || math.IsInf(f, 0) || math.Abs(f) > 1e7 {
			return 0
		}
	}
	return 1
}

// structure lists of all boards: object IDs with parents, connections with endpoints and index, in order
func structOf(g *d2graph.Graph) tr.M {
	bs := proj.Boards(g)
	boards := []tr.M{}
	for _, b := range bs {
		objs := [][]string{}
		for _, o := range b.Objs {
			objs = append(objs, []string{o.Key, o.Parent})
		}
		edges := []tr.M{}
		for _, e := range b.Edges {
			if e.Synthetic {
				continue // lifeline pseudo-edges appended by the sequence layout (their end is not an object of the board)
			}
			edges = append(edges, tr.M{"src": e.Src, "dst": e.Dst, "sa": e.SA, "da": e.DA, "idx": e.Idx})
		}
		boards = append(boards, tr.M{"path": b.Path, "objs": objs, "edges": edges})
	}
	return tr.M{"boards": boards}
}

func inSeq(o *d2graph.Object) bool {
	for p := o.Parent; p != nil; p = p.Parent {
		if p.Shape.Value == d2target.ShapeSequenceDiagram {
			return true
		}
	}
	return false
}

func geomOf(g *d2graph.Graph) tr.M {
	idx := map[*d2graph.Object]int{}
	for i, o := range g.Objects {
		idx[o] = i + 1
	}
	objs := []tr.M{}
	for _, o := range g.Objects {
		m := tr.M{"id": o.AbsID(), "parent": idx[o.Parent], "shape": o.Shape.Value, "inSeq": tr.B(inSeq(o)), "isSeq": tr.B(o.Shape.Value == d2target.ShapeSequenceDiagram),
			"grid": tr.B(o.GridRows != nil || o.GridColumns != nil), "near": "", "ew": 0, "eh": 0, "kids": len(o.ChildrenArray),
			"lw": o.LabelDimensions.Width, "lh": o.LabelDimensions.Height, "label": tr.B(o.Label.Value != ""), "lpos": "", "ipos": "", "icon": tr.B(o.Icon != nil),
			"threeD": tr.B(o.Style.ThreeDee != nil && o.Style.ThreeDee.Value == "true"), "multiple": tr.B(o.Style.Multiple != nil && o.Style.Multiple.Value == "true")}
		if o.NearKey != nil {
			k := d2graph.Key(o.NearKey)
			if len(k) == 1 {
				if _, ok := d2ast.NearConstants[k[0]]; ok {
					m["near"] = k[0]
				}
			}
		}
		if o.WidthAttr != nil {
			fmt.Sscanf(o.WidthAttr.Value, "%d", new(int))
			var w int
			fmt.Sscanf(o.WidthAttr.Value, "%d", &w)
			m["ew"] = w
		}
		if o.HeightAttr != nil {
			var h int
			fmt.Sscanf(o.HeightAttr.Value, "%d", &h)
			m["eh"] = h
		}
		m["lside"], m["lalign"], m["iside"] = "", "", ""
		if o.LabelPosition != nil {
			m["lpos"] = *o.LabelPosition
			m["lside"], m["lalign"] = sideOf(*o.LabelPosition)
		}
		if o.IconPosition != nil {
			m["ipos"] = *o.IconPosition
			m["iside"], _ = sideOf(*o.IconPosition)
		}
		// grid settings (C22)
		m["gridRows"], m["gridCols"], m["rowsFirst"], m["gg"], m["vg"], m["hg"] = 0, 0, 0, -1, -1, -1
		atoi := func(sc *d2graph.Scalar) int {
			v := -1
			if sc != nil {
				fmt.Sscanf(sc.Value, "%d", &v)
			}
			return v
		}
		if o.GridRows != nil {
			m["gridRows"] = atoi(o.GridRows)
		}
		if o.GridColumns != nil {
			m["gridCols"] = atoi(o.GridColumns)
		}
		if o.GridRows != nil && o.GridColumns != nil && o.GridRows.MapKey != nil && o.GridColumns.MapKey != nil {
			m["rowsFirst"] = tr.B(o.GridRows.MapKey.Range.Before(o.GridColumns.MapKey.Range))
		}
		m["gg"], m["vg"], m["hg"] = atoi(o.GridGap), atoi(o.VerticalGap), atoi(o.HorizontalGap)
		// top-level ancestor (C24) and the actor an object of a sequence diagram belongs to (C23)
		top := o
		for top.Parent != nil && top.Parent != g.Root {
			top = top.Parent
		}
		m["top"] = idx[top]
		m["actor"], m["seq"], m["isActor"] = 0, 0, 0
		for a := o; a.Parent != nil; a = a.Parent {
			if a.Parent.Shape.Value == d2target.ShapeSequenceDiagram {
				m["seq"] = idx[a.Parent]
				if reActor.MatchString(a.ID) {
					m["actor"] = idx[a]
					m["isActor"] = tr.B(a == o)
				}
				break
			}
		}
		m["innerW"], m["innerH"] = 0, 0
		if o.Box != nil && o.TopLeft != nil && finite(o.Width, o.Height) == 1 {
			func() {
				defer func() { recover() }()
				ib := o.ToShape().GetInnerBox()
				m["innerW"], m["innerH"] = int(math.Ceil(ib.Width)), int(math.Ceil(ib.Height))
			}()
		}
		if o.Box != nil && o.TopLeft != nil {
			m["x"], m["y"], m["w"], m["h"] = ri(o.TopLeft.X), ri(o.TopLeft.Y), ri(o.Width), ri(o.Height)
			m["x2"], m["y2"] = ri(o.TopLeft.X+o.Width), ri(o.TopLeft.Y+o.Height)
			m["finite"] = finite(o.TopLeft.X, o.TopLeft.Y, o.Width, o.Height)
			m["exactW"], m["exactH"] = tr.B(o.Width == math.Round(o.Width)), tr.B(o.Height == math.Round(o.Height))
		} else {
			m["x"], m["y"], m["w"], m["h"], m["x2"], m["y2"], m["finite"], m["exactW"], m["exactH"] = 0, 0, 0, 0, 0, 0, 0, 1, 1
		}
		objs = append(objs, m)
	}
	edges := []tr.M{}
	for _, e := range g.Edges {
		pts := [][]int{}
		fin := 1
		for _, p := range e.Route {
			pts = append(pts, []int{ri(p.X), ri(p.Y)})
			if finite(p.X, p.Y) == 0 {
				fin = 0
			}
		}
		edges = append(edges, tr.M{"src": idx[e.Src], "dst": idx[e.Dst], "route": pts, "finite": fin,
			"inSeq": tr.B(inSeq(e.Src) || inSeq(e.Dst) || e.Src.Shape.Value == d2target.ShapeSequenceDiagram || e.Dst.Shape.Value == d2target.ShapeSequenceDiagram)})
	}
	return tr.M{"objs": objs, "edges": edges, "pad": label.PADDING, "iconSize": d2target.MAX_ICON_SIZE, "threeD": d2target.THREE_DEE_OFFSET, "multiple": d2target.MULTIPLE_OFFSET}
}

var reActor = regexp.MustCompile(`^p\d+$`) // the generator's naming convention for sequence-diagram actors

// sideOf splits a label/icon position such as OUTSIDE_TOP_CENTER into the side it is outside of
// ("" when inside or on the border) and its alignment along that side.
func sideOf(pos string) (side, align string) {
	if !strings.HasPrefix(pos, "OUTSIDE_") {
		return "", ""
	}
	parts := strings.Split(strings.TrimPrefix(pos, "OUTSIDE_"), "_")
	side = strings.ToLower(parts[0])
	if len(parts) > 1 {
		switch parts[1] {
		case "LEFT", "TOP":
			align = "start"
		case "CENTER", "MIDDLE":
			align = "center"
		default:
			align = "end"
		}
	}
	return
}

func drivePipe(c *Ctx) error {
	var inputs []pipeInput
	if c.Replay != nil {
		var in pipeInput
		if err := json.Unmarshal(c.Replay, &in); err != nil {
			return err
		}
		inputs = []pipeInput{in}
	} else {
		// The input space is FIXED: diagram #i of a mode is generated from seed i, whatever VERIF_SEED is, so
		// that the behaviour of the unchanged tree on all of it is known in advance (heuristic geometry
		// properties must not depend on the luck of a seed). space = number of diagrams per mode; the
		// thorough tier takes all of them, the quick tier the slice of n diagrams that VERIF_SEED selects.
		modes := strings.Split(c.Args["modes"], ",")
		n, space := 40, 1200
		fmt.Sscanf(c.Args["n"], "%d", &n)
		fmt.Sscanf(c.Args["space"], "%d", &space)
		engines := strings.Split(c.Args["engines"], ",")
		if c.Args["engines"] == "" {
			engines = []string{"dagre"}
		}
		lo, hi := 0, space
		if !c.Thorough() {
			slices := space / n
			if slices < 1 {
				slices = 1
			}
			lo = int((c.Seed*7919)%int64(slices)) * n
			if lo < 0 {
				lo = -lo
			}
			hi = lo + n
		}
		for i := lo; i < hi; i++ {
			for _, m := range modes {
				eng := engines[i%len(engines)]
				if len(engines) > 1 && eng == "elk" && i%4 != 1 {
					eng = "dagre" // ELK is ~8x slower: every 4th diagram
				}
				if strings.HasSuffix(m, "-elk") {
					eng = "elk"
				}
				inputs = append(inputs, pipeInput{Seed: int64(i) + 1, Mode: m, Engine: eng})
			}
		}
	}
	stages := map[string]bool{}
	for _, s := range strings.Split(c.Args["stages"], ",") {
		stages[s] = true
	}
	type res struct {
		in  pipeInput
		evs []tr.M
		nt  []string
	}
	out := make([]res, len(inputs))
	var wg sync.WaitGroup
	sem := make(chan struct{}, 12)
	for i, in := range inputs {
		wg.Add(1)
		sem <- struct{}{}
		go func(i int, in pipeInput) {
			defer wg.Done()
			defer func() { <-sem }()
			if skipInput(in) {
				out[i] = res{in: in, evs: []tr.M{{"ev": "gen", "text": "", "feats": []string{"skipped"}, "mode": in.Mode, "engine": in.Engine}}}
				return
			}
			journal("S", in)
			evs, nt := pipeRun(in, stages)
			journal("D", in)
			out[i] = res{in, evs, nt}
		}(i, in)
	}
	wg.Wait()
	for _, r := range out {
		in := r.in
		c.W.Add(in, r.evs, r.nt...)
		for _, p := range r.nt {
			c.W.Sample(p, tr.M{"seed": in.Seed, "mode": in.Mode, "engine": in.Engine, "text": firstN(r.evs[0]["text"].(string), 600)})
		}
	}
	return nil
}

func firstN(s string, n int) string {
	if len(s) > n {
		return s[:n] + "..."
	}
	return s
}

var recursiveGlobRe = regexp.MustCompile(`\*{2,}`)

func guard(name string, evs *[]tr.M, f func()) (ok bool) {
	done := make(chan struct{})
	var pan any
	var stackStr string
	go func() {
		defer close(done)
		defer func() {
			pan = recover()
			if pan != nil {
				stackStr = string(debug.Stack())
			}
		}()
		f()
	}()
	select {
	case <-done:
		if pan != nil {
			*evs = append(*evs, tr.M{"ev": "panic", "stage": name, "msg": firstN(fmt.Sprint(pan), 200), "stack": firstN(stackStr, 1500)})
			return false
		}
		return true
	case <-time.After(60 * time.Second):
		*evs = append(*evs, tr.M{"ev": "timeout", "stage": name})
		return false
	}
}

func pipeRun(in pipeInput, stages map[string]bool) (evs []tr.M, nt []string) {
	text := in.Text
	var d *gen.Diagram
	if text == "" && in.Mode == "soup" {
		text = gen.Soup(rand.New(rand.NewSource(in.Seed*17 + 3)))
	} else if text == "" {
		d = gen.Generate(rand.New(rand.NewSource(in.Seed)), pipeOpts(in.Mode))
		text = d.Text
	}
	feats := []string{}
	if d != nil {
		feats = append(feats, d.Feats...)
	}
	if in.Mode == "text2-mut" && in.Text == "" {
		text = valueShapeAt(in.Seed, vsKeys)
		feats = append(feats, "value-shape")
	} else if in.Mode == "text3-mut" && in.Text == "" && in.Seed%2 == 0 {
		text = valueShapeAt(in.Seed/2, vsKeys3)
		feats = append(feats, "value-shape")
	} else if strings.HasSuffix(in.Mode, "-mut") && in.Text == "" {
		r := rand.New(rand.NewSource(in.Seed*31 + 7))
		if r.Intn(3) == 0 {
			text = valueShapes(r) + text
			feats = append(feats, "value-shapes")
		} else {
			text = mutate(text, r)
			feats = append(feats, "mutated")
		}
	}
	evs = append(evs, tr.M{"ev": "gen", "text": text, "feats": feats, "mode": in.Mode, "engine": in.Engine})
	ntset := map[string]bool{}
	defer func() {
		for k := range ntset {
			nt = append(nt, k)
		}
	}()

	// ---- compile (C07 totality, C08 determinism)
	var g0 *d2graph.Graph
	var cerr error
	t0 := time.Now()
	// recursive globs (** / ***) in the text: a syntactic fact about the input the known-findings classifier of C07 needs
	rglobs := len(recursiveGlobRe.FindAllString(text, -1))
	if !guard("compile", &evs, func() { g0, _, cerr = d2compiler.Compile("in.d2", strings.NewReader(text), nil) }) {
		evs[len(evs)-1]["rglobs"] = rglobs
		return
	}
	ce := tr.M{"ev": "compile", "ok": tr.B(cerr == nil), "ms": int(time.Since(t0).Milliseconds()), "bytes": len(text), "rglobs": rglobs, "errPositioned": 1, "digest": "", "msg": ""}
	if cerr != nil {
		ce["errPositioned"] = tr.B(errorsPositioned(cerr))
		ce["msg"] = firstN(cerr.Error(), 200)
	} else {
		ce["digest"] = proj.Digest(proj.Boards(g0))
		ce["struct"] = structOf(g0)
	}
	evs = append(evs, ce)
	if len(text) > 20 {
		ntset["C07"] = true
	}
	// ---- well-formedness of every compiled board (C09), read from the graph itself, not from the projection
	if stages["wf"] && cerr == nil {
		we := tr.M{"ev": "wf", "boards": wfOf(g0)}
		evs = append(evs, we)
		for _, b := range we["boards"].([]tr.M) {
			if len(b["objs"].([]tr.M)) >= 2 {
				ntset["C09"] = true
			}
		}
	}
	if stages["determinism"] {
		// the same diagram, or the same errors (their text, in order)
		digestOf := func(g *d2graph.Graph, err error) string {
			if err != nil {
				return "ERR:" + firstN(err.Error(), 600)
			}
			return proj.Digest(proj.Boards(g))
		}
		digs := []string{}
		var mu sync.Mutex
		var wg sync.WaitGroup
		for k := 0; k < 6; k++ {
			wg.Add(1)
			go func() {
				defer wg.Done()
				dg := "PANIC"
				defer func() {
					recover()
					mu.Lock()
					digs = append(digs, dg)
					mu.Unlock()
				}()
				g, _, err := d2compiler.Compile("in.d2", strings.NewReader(text), nil)
				dg = digestOf(g, err)
			}()
		}
		wg.Wait()
		for k := 0; k < 2; k++ {
			g, _, err := d2compiler.Compile("in.d2", strings.NewReader(text), nil)
			digs = append(digs, digestOf(g, err))
		}
		evs = append(evs, tr.M{"ev": "recompile", "digests": digs, "first": digestOf(g0, cerr), "isErr": tr.B(cerr != nil)})
		ntset["C08"] = true
	}

	// ---- format (C03 idempotent, C04 meaning preserved)
	if stages["fmt"] {
		fe := tr.M{"ev": "fmt", "feats": feats, "parseOK": 0, "fmtParseOK": 0, "idempotent": 0, "compiles": tr.B(cerr == nil), "fmtCompiles": 0, "sameMeaning": 0}
		ok := guard("fmt", &evs, func() {
			m, err := d2parser.Parse("in.d2", strings.NewReader(text), nil)
			if err != nil {
				return
			}
			fe["parseOK"] = 1
			if d == nil {
				fe["feats"] = append(append(feats, boardFeats(m)...), eofFeats(text, m)...)
			}
			f1 := d2format.Format(m)
			m2, err := d2parser.Parse("in.d2", strings.NewReader(f1), nil)
			if err != nil {
				fe["fmtErr"] = firstN(err.Error(), 160)
				return
			}
			fe["fmtParseOK"] = 1
			f2 := d2format.Format(m2)
			fe["idempotent"] = tr.B(f1 == f2)
			if cerr == nil {
				g2, _, err := d2compiler.Compile("in.d2", strings.NewReader(f1), nil)
				if err == nil {
					fe["fmtCompiles"] = 1
					a, b := proj.Digest(proj.Boards(g0)), proj.Digest(proj.Boards(g2))
					fe["sameMeaning"] = tr.B(a == b)
					if a != b {
						fe["diff"] = firstN(firstDiff(a, b), 300)
						fe["formatted"] = firstN(f1, 500)
					}
				} else {
					fe["fmtErr"] = firstN(err.Error(), 160)
				}
			}
		})
		if ok {
			evs = append(evs, fe)
			if fe["parseOK"] == 1 {
				ntset["C03"] = true
			}
			if cerr == nil {
				ntset["C04"] = true
			}
		}
	}
	if cerr != nil {
		return
	}

	// ---- layout (C17 finite, C18 structure, C19 containment, C20 endpoints, C21 sizes, C22-C24 specials)
	if stages["layout"] {
		var diagram *d2target.Diagram
		var g *d2graph.Graph
		var lerr error
		eng := in.Engine
		if eng == "" {
			eng = "dagre"
		}
		lay := layoutFor(eng)
		if !guard("layout", &evs, func() {
			diagram, g, lerr = d2lib.Compile(quietCtx(), text, &d2lib.CompileOptions{Ruler: ruler(), LayoutResolver: func(string) (d2graph.LayoutGraph, error) { return lay, nil }}, nil)
		}) {
			ntset["C17"] = true
			return
		}
		le := tr.M{"ev": "layout", "engine": eng, "ok": tr.B(lerr == nil), "msg": "", "renderOK": 1, "renderMsg": ""}
		if lerr == nil {
			if !guard("render", &evs, func() {
				out, rerr := d2svg.Render(diagram, &d2svg.RenderOpts{})
				if rerr != nil || len(out) == 0 {
					le["renderOK"] = 0
					if rerr != nil {
						le["renderMsg"] = firstN(rerr.Error(), 160)
					}
				}
			}) {
				le["renderOK"] = 0
			}
		}
		if lerr != nil {
			le["msg"] = firstN(lerr.Error(), 200)
			le["geom"] = tr.M{"objs": []tr.M{}, "edges": []tr.M{}}
			le["struct"] = tr.M{"boards": []tr.M{}}
			le["before"] = ce["struct"]
		} else {
			le["geom"] = geomOf(g)
			le["struct"] = structOf(g)
			le["before"] = ce["struct"]
		}
		evs = append(evs, le)
		for _, p := range []string{"C17", "C18"} {
			ntset[p] = true
		}
		if lerr == nil {
			if len(g.Objects) >= 2 {
				ntset["C19"] = true
			}
			if len(g.Edges) >= 1 {
				ntset["C20"] = true
			}
			ntset["C21"] = true
			for _, f := range feats {
				switch f {
				case "grid":
					ntset["C22"] = true
				case "sequence":
					ntset["C23"] = true
				case "near":
					ntset["C24"] = true
				}
			}
		}
		// ---- the plugin wire protocol (C26): the same pipeline with every core-layout call going through
		// SerializeGraph -> DeserializeGraph -> layout -> SerializeGraph -> DeserializeGraph, as d2plugin exec/serve do
		if stages["serde"] && lerr == nil {
			se := tr.M{"ev": "serde", "rtBefore": 1, "rtAfter": 1, "sameResult": 0, "calls": 0, "msg": "", "routes": []tr.M{}}
			guard("serde", &evs, func() {
				digest := func(gr *d2graph.Graph) string {
					gm := geomOf(gr)
					// which of grid-rows / grid-columns was written first is read from the keys' source ranges
					// (Scalar.MapKey, json:"-"): the AST is not part of the wire format and the grid layout that
					// needs it runs in the host process, so the round trip is not asked to preserve it
					if os, ok := gm["objs"].([]tr.M); ok {
						for _, o := range os {
							delete(o, "rowsFirst")
						}
					}
					gb, _ := json.Marshal(gm)
					return proj.Digest([]proj.Board{proj.Graph(gr, nil)}) + string(gb)
				}
				wire := func(ctx context.Context, gr *d2graph.Graph) error {
					se["calls"] = se["calls"].(int) + 1
					b1, err := d2graph.SerializeGraph(gr)
					if err != nil {
						return err
					}
					var g2 d2graph.Graph
					if err := d2graph.DeserializeGraph(b1, &g2); err != nil {
						return err
					}
					if a, b := digest(gr), digest(&g2); a != b {
						se["rtBefore"] = 0
						se["msg"] = firstN("before layout: "+firstDiff(a, b), 240)
					}
					if err := lay(ctx, &g2); err != nil {
						return err
					}
					b2, err := d2graph.SerializeGraph(&g2)
					if err != nil {
						return err
					}
					if err := d2graph.DeserializeGraph(b2, gr); err != nil {
						return err
					}
					if a, b := digest(&g2), digest(gr); a != b {
						se["rtAfter"] = 0
						se["msg"] = firstN("after layout: "+firstDiff(a, b), 240)
					}
					return nil
				}
				// the route-edges leg, as d2plugin/exec.go writes it and d2plugin/serve.go reads it; the routing itself is done in-process
				routes := []tr.M{}
				edgeKeys := func(es []*d2graph.Edge) []string {
					ks := []string{}
					for _, e := range es {
						s, d := "<nil>", "<nil>"
						if e.Src != nil {
							s = e.Src.AbsID()
						}
						if e.Dst != nil {
							d = e.Dst.AbsID()
						}
						ks = append(ks, fmt.Sprintf("%s|%s|%d", s, d, e.Index))
					}
					sort.Strings(ks)
					return ks
				}
				routeWire := func(ctx context.Context, gr *d2graph.Graph, edges []*d2graph.Edge) error {
					m := tr.M{"asked": edgeKeys(edges), "received": []string{"<protocol failed>"}}
					if b1, err := d2graph.SerializeGraph(gr); err == nil {
						var g2 d2graph.Graph
						if err := d2graph.DeserializeGraph(b1, &g2); err == nil {
							g2.Edges = edges
							if b2, err := d2graph.SerializeGraph(&g2); err == nil {
								var gedges d2graph.Graph
								if err := d2graph.DeserializeGraph(b2, &gedges); err == nil {
									m["received"] = edgeKeys(gedges.Edges)
								}
							}
						}
					}
					routes = append(routes, m)
					return d2layouts.DefaultRouter(ctx, gr, edges)
				}
				defer func() { se["routes"] = routes }()
				_, gw, err := d2lib.Compile(quietCtx(), text, &d2lib.CompileOptions{Ruler: ruler(), LayoutResolver: func(string) (d2graph.LayoutGraph, error) { return wire, nil },
					RouterResolver: func(string) (d2graph.RouteEdges, error) { return routeWire, nil }}, nil)
				if err != nil {
					se["msg"] = firstN("layout through the wire failed: "+err.Error(), 240)
					return
				}
				a, b := digest(g), digest(gw)
				sa, _ := json.Marshal(structOf(g))
				sb, _ := json.Marshal(structOf(gw))
				se["sameResult"] = tr.B(a == b && string(sa) == string(sb))
				if a != b && se["msg"] == "" {
					se["msg"] = firstN("result: "+firstDiff(a, b), 240)
				}
			})
			evs = append(evs, se)
			ntset["C26"] = true
		}
		if stages["render"] && lerr == nil {
			pipeRender(in, text, diagram, g, &evs, ntset)
		}
	}
	return
}

// mutate damages a valid program in 1-3 places: the way syntactically broken inputs are made for C07.
func mutate(s string, r *rand.Rand) string {
	b := []byte(s)
	ins := []string{"{", "}", "\"", "'", "|", ":", ";", "[", "]", "(", ")", "->", "*", "&", "$", "${", "...@", "@x", "\\", "\n", "#", "null", ".", "..", "\x00", "\xff", "|||md", "layers", "vars: {", "classes."}
	for k := 0; k < 1+r.Intn(3) && len(b) > 2; k++ {
		i := r.Intn(len(b))
		switch r.Intn(6) {
		case 0: // delete a byte
			b = append(b[:i], b[i+1:]...)
		case 1: // insert a token
			t := ins[r.Intn(len(ins))]
			b = append(b[:i], append([]byte(t), b[i:]...)...)
		case 2: // truncate
			b = b[:i]
		case 3: // duplicate a slice
			j := i + r.Intn(len(b)-i)
			b = append(b[:j], append(append([]byte{}, b[i:j]...), b[j:]...)...)
		case 4: // replace a byte
			b[i] = ins[r.Intn(len(ins))][0]
		case 5: // swap two halves around a newline
			if j := strings.IndexByte(string(b[i:]), '\n'); j >= 0 {
				b = append(append([]byte{}, b[i+j+1:]...), b[:i+j+1]...)
			}
		}
	}
	return string(b)
}

// valueShapes declares reserved keywords and configuration keys with every value shape (scalar, map,
// array, null, nested map) in positions where the grammar allows any value: "a map where a colour is expected".
var vsShapes = []string{"x", "1", "true", "null", "{a: b}", "{a: {b: c}}", "[1; 2]", "[]", "{}", "\"\"", "${nope}", "*", "|md x|", "@nofile", "...@nofile",
	"layers", "scenarios", "steps", "layers.x", "layers.x.scenarios", "_.layers", "_", "_._", "root.layers.x", "layers.x.y.z", "steps.1.steps", "style", "classes.x", "vars.x", "a -> b", "(a -> b)[0]"}
var vsKeys = []string{"shape", "label", "style", "style.fill", "style.opacity", "style.3d", "icon", "link", "tooltip", "near", "width", "height", "top", "left", "direction",
	"grid-rows", "grid-columns", "grid-gap", "class", "classes", "vars", "constraint", "source-arrowhead", "target-arrowhead", "label.near", "icon.near", "layers", "scenarios", "steps"}

// the keys of mode text3-mut: every style keyword and the remaining reserved keywords that take a value
var vsKeys3 = []string{"style.font", "style.stroke", "style.fill-pattern", "style.stroke-width", "style.stroke-dash", "style.border-radius", "style.font-size", "style.font-color",
	"style.animated", "style.bold", "style.italic", "style.underline", "style.text-transform", "style.shadow", "style.multiple", "style.double-border", "style.filled",
	"horizontal-gap", "vertical-gap", "source-arrowhead.shape", "target-arrowhead.label", "target-arrowhead.style.filled", "label.near", "tooltip.near", "style.opacity.x", "shape.near", "level", "d2-config"}
var vsCfg = []string{"theme-id", "dark-theme-id", "pad", "sketch", "center", "layout-engine", "theme-overrides", "dark-theme-overrides", "data", "theme-overrides.N1", "theme-overrides.B1", "dark-theme-overrides.AA2", "unknown-key"}

// valueShapeAt is the systematic counterpart of valueShapes: program #seed holds exactly one declaration of a
// reserved keyword or configuration key (one, because any error ends compilation before the later passes),
// in one of four places, followed by a fixed valid tail with boards; all key x value x place combinations are
// spread over the seeds by a multiplicative permutation.
func valueShapeAt(seed int64, vsKeys []string) string {
	nk, nv, nc := len(vsKeys), len(vsShapes), len(vsCfg)
	total := nk*nv*4 + nc*nv
	i := int((uint64(seed) * 2654435761) % uint64(total))
	tail := "yy\nlayers: {x: {y}}\nscenarios: {s: {z}}\n"
	if i >= nk*nv*4 {
		i -= nk * nv * 4
		return fmt.Sprintf("vars: {d2-config: {%s: %s}}\n", vsCfg[i/nv], vsShapes[i%nv]) + tail
	}
	place, k, v := i%4, vsKeys[(i/4)/nv], vsShapes[(i/4)%nv]
	switch place {
	case 0:
		return fmt.Sprintf("zz.%s: %s\n", k, v) + tail
	case 1:
		return fmt.Sprintf("zz: {%s: %s}\n", k, v) + tail
	case 2:
		return fmt.Sprintf("zz -> yy\n(zz -> yy)[0].%s: %s\n", k, v) + tail
	}
	return fmt.Sprintf("layers: {x: {zz.%s: %s}}\nyy\nscenarios: {s: {z}}\n", k, v)
}

func valueShapes(r *rand.Rand) string {
	shapes, keys, cfg := vsShapes, vsKeys, vsCfg
	var sb strings.Builder
	for k := 0; k < 1+r.Intn(3); k++ {
		switch r.Intn(4) {
		case 0:
			fmt.Fprintf(&sb, "vars: {d2-config: {%s: %s}}\n", cfg[r.Intn(len(cfg))], shapes[r.Intn(len(shapes))])
		case 1:
			fmt.Fprintf(&sb, "zz.%s: %s\n", keys[r.Intn(len(keys))], shapes[r.Intn(len(shapes))])
		case 2:
			fmt.Fprintf(&sb, "(zz -> yy)[0].%s: %s\nzz -> yy\n", keys[r.Intn(len(keys))], shapes[r.Intn(len(shapes))])
		case 3:
			fmt.Fprintf(&sb, "%s: %s\n", keys[r.Intn(len(keys))], shapes[r.Intn(len(shapes))])
		}
	}
	return sb.String()
}

func firstDiff(a, b string) string {
	la, lb := strings.Split(a, "\n"), strings.Split(b, "\n")
	for i := 0; i < len(la) || i < len(lb); i++ {
		var x, y string
		if i < len(la) {
			x = la[i]
		}
		if i < len(lb) {
			y = lb[i]
		}
		if x != y {
			return fmt.Sprintf("line %d: %q vs %q", i+1, x, y)
		}
	}
	return ""
}

func errorsPositioned(err error) bool {
	// every line of a compile/parse error starts with file:line:col
	for _, l := range strings.Split(err.Error(), "\n") {
		if l == "" {
			continue
		}
		var ln, col int
		rest := l
		if i := strings.Index(l, ":"); i >= 0 {
			rest = l[i+1:]
		}
		if n, _ := fmt.Sscanf(rest, "%d:%d", &ln, &col); n != 2 {
			return false
		}
	}
	return true
}

var _ = bytes.Equal

// boardFeats names, for a program that did not come from the diagram generator, the syntactic situations the known
// formatter findings are about: a layers/scenarios/steps block that comes before other declarations of its map.
func boardFeats(m *d2ast.Map) []string {
	set := map[string]bool{}
	var walk func(m *d2ast.Map)
	walk = func(m *d2ast.Map) {
		for i, nb := range m.Nodes {
			if nb.MapKey == nil {
				continue
			}
			if nb.IsBoardNode() {
				later := false
				for _, nb2 := range m.Nodes[i+1:] {
					if !nb2.IsBoardNode() {
						later = true
					}
				}
				if later {
					if i == 0 {
						set["boards-first"] = true
					} else {
						set["boards-middle"] = true
					}
					set["boards-"+nb.MapKey.Key.Path[0].Unbox().ScalarString()] = true
				}
			}
			if nb.MapKey.Value.Map != nil {
				walk(nb.MapKey.Value.Map)
			}
		}
	}
	walk(m)
	out := []string{}
	for k := range set {
		out = append(out, k)
	}
	sort.Strings(out)
	return out
}

// eofFeats: a program whose last line has no final newline, and what that line is (the whole file, or the end of an array).
func eofFeats(text string, m *d2ast.Map) []string {
	if strings.HasSuffix(text, "\n") || text == "" {
		return nil
	}
	out := []string{"no-final-newline"}
	if !strings.Contains(text, "\n") && len(m.Nodes) > 1 {
		out = append(out, "file-on-one-line")
	}
	if strings.HasSuffix(strings.TrimRight(text, " \t"), "]") {
		out = append(out, "array-then-eof")
	}
	return out
}

// wfOf lists, for every board, what the graph's own structures say: the object list, each object's parent pointer and
// child list, how its parent's child map files it, and whether the ends of each connection are in the object list.
func wfOf(g *d2graph.Graph) []tr.M {
	var out []tr.M
	var walk func(g *d2graph.Graph, path string)
	walk = func(g *d2graph.Graph, path string) {
		listed := map[*d2graph.Object]int{}
		for _, o := range g.Objects {
			listed[o]++
		}
		kidsOf := func(o *d2graph.Object) []string {
			ks := []string{}
			for _, c := range o.ChildrenArray {
				ks = append(ks, c.AbsID())
			}
			return ks
		}
		objs := []tr.M{}
		for _, o := range g.Objects {
			m := tr.M{"id": o.AbsID(), "parent": "", "parentIsRoot": 0, "kids": kidsOf(o), "mapKids": len(o.Children), "filed": 0, "reachesRoot": 0, "sameGraph": tr.B(o.Graph == g)}
			if o.Parent != nil {
				m["parentIsRoot"] = tr.B(o.Parent == g.Root)
				if o.Parent != g.Root {
					m["parent"] = o.Parent.AbsID()
				}
				if o.Parent.Children != nil && o.Parent.Children[strings.ToLower(o.ID)] == o {
					m["filed"] = 1
				}
			}
			p := o
			for k := 0; k <= len(g.Objects)+1 && p != nil; k++ {
				if p == g.Root {
					m["reachesRoot"] = 1
					break
				}
				p = p.Parent
			}
			objs = append(objs, m)
		}
		edges := []tr.M{}
		for _, e := range g.Edges {
			m := tr.M{"src": "", "dst": "", "srcListed": 0, "dstListed": 0}
			if e.Src != nil {
				m["src"], m["srcListed"] = e.Src.AbsID(), tr.B(listed[e.Src] > 0)
			}
			if e.Dst != nil {
				m["dst"], m["dstListed"] = e.Dst.AbsID(), tr.B(listed[e.Dst] > 0)
			}
			edges = append(edges, m)
		}
		out = append(out, tr.M{"path": path, "objs": objs, "rootKids": kidsOf(g.Root), "rootMapKids": len(g.Root.Children), "edges": edges})
		for _, b := range g.Layers {
			walk(b, path+"/layers."+b.Name)
		}
		for _, b := range g.Scenarios {
			walk(b, path+"/scenarios."+b.Name)
		}
		for _, b := range g.Steps {
			walk(b, path+"/steps."+b.Name)
		}
	}
	walk(g, "root")
	return out
}
