package main

import (
	"encoding/json"
	"fmt"
	"math/rand"
	"path"
	"strings"
	"testing/fstest"
	"time"

	"oss.terrastruct.com/d2/d2compiler"

	"verifharness/internal/proj"
	"verifharness/internal/tr"
)

// Family imports (C14): sets of 1-4 files over the declaration alphabet of the ir family with spread imports,
// imports under a key, nested imports, relative path spellings and cyclic chains, compiled by the real
// compiler from an in-memory file system. TraceD2Imports.tla expands the imports itself (importing is
// inlining; a chain that returns to a file being imported is a cycle) and compares.

type impItem struct {
	K   string `json:"k"` // decl | spread | under
	D   int    `json:"d"`
	F   int    `json:"f"`   // 1-based file index
	Key string `json:"key"` // under / key: the key
	Sel string `json:"sel"` // key: the imported file's key (key: @f.sel)
	Map int    `json:"map"` // under: 1 = written  key: {...@f}  instead of  key: @f
	Sty int    `json:"sty"`
}
type impFile struct {
	Path  string    `json:"path"`
	Items []impItem `json:"items"`
}
type importsInput struct {
	Seed  int64     `json:"seed"`
	Files []impFile `json:"files,omitempty"`
}

func init() { register("imports", driveImports) }

func genImports(seed int64, plain []int) importsInput {
	r := rand.New(rand.NewSource(seed*9176 + 5))
	in := importsInput{Seed: seed}
	nf := 1 + r.Intn(4)
	paths := []string{"index.d2", "f2.d2", "sub/f3.d2", "sub/deep/f4.d2"}
	r.Shuffle(3, func(i, j int) { paths[1+i], paths[1+j] = paths[1+j], paths[1+i] })
	cyclic := r.Intn(100) < 20
	for i := 1; i <= nf; i++ {
		f := impFile{Path: paths[i-1]}
		for k := r.Intn(4); k > 0; k-- {
			f.Items = append(f.Items, impItem{K: "decl", D: plain[r.Intn(len(plain))], Sty: r.Intn(6)})
		}
		// imports: later files only, unless the set is meant to be cyclic
		for k := r.Intn(3); k > 0 && nf > 1; k-- {
			t := i + 1 + r.Intn(nf)
			if t > nf {
				if !cyclic {
					continue
				}
				t = 1 + r.Intn(nf) // any file, itself included
			}
			it := impItem{K: "spread", F: t}
			if r.Intn(2) == 0 {
				key := []string{"x", "y", "z"}[r.Intn(3)]
				for _, o := range f.Items {
					if (o.K == "under" || o.K == "key") && o.Key == key {
						key = "" // a key takes one import
					}
				}
				if key == "" {
					continue
				}
				it = impItem{K: "under", F: t, Key: key, Map: r.Intn(2)}
				if r.Intn(3) == 0 {
					it.K, it.Sel, it.Map = "key", []string{"a", "b", "A"}[r.Intn(3)], 0 // (a spread of a key that has no map is an error of its own)
				}
			}
			pos := r.Intn(len(f.Items) + 1)
			f.Items = append(f.Items[:pos], append([]impItem{it}, f.Items[pos:]...)...)
		}
		in.Files = append(in.Files, f)
	}
	// the key a key-import names should often be worth importing: a label and something below it
	for i := range in.Files {
		for _, it := range in.Files[i].Items {
			if it.K == "key" && strings.EqualFold(it.Sel, "a") && r.Intn(100) < 60 {
				t := &in.Files[it.F-1]
				t.Items = append(t.Items, impItem{K: "decl", D: 4, Sty: r.Intn(6)}, impItem{K: "decl", D: []int{3, 6, 30}[r.Intn(3)], Sty: r.Intn(6)})
			}
		}
	}
	return in
}

// how file `from` spells the import of file `to`
func importSpelling(from, to string, variant int) string {
	fd, td := path.Dir(from), strings.TrimSuffix(to, ".d2")
	rel := td
	if fd != "." {
		// climb out of from's directory
		ups := strings.Repeat("../", strings.Count(fd, "/")+1)
		rel = ups + td
		if strings.HasPrefix(td, fd+"/") {
			rel = strings.TrimPrefix(td, fd+"/")
		}
	}
	switch variant % 3 {
	case 1:
		if !strings.HasPrefix(rel, "../") {
			rel = "./" + rel
		}
	case 2:
		rel += ".d2"
	}
	if strings.ContainsAny(rel, "/.") {
		return "\"" + rel + "\""
	}
	return rel
}

func (in importsInput) fileText(al *irAlphabet, i int) string {
	var sb strings.Builder
	f := in.Files[i-1]
	for k, it := range f.Items {
		switch it.K {
		case "decl":
			sb.WriteString(al.Decls[it.D-1].render(it.Sty) + "\n")
		case "spread":
			fmt.Fprintf(&sb, "...@%s\n", importSpelling(f.Path, in.Files[it.F-1].Path, k))
		case "key":
			sp := importSpelling(f.Path, in.Files[it.F-1].Path, k)
			if strings.HasPrefix(sp, "\"") {
				sp = sp + "." + it.Sel
			} else {
				sp = sp + "." + it.Sel
			}
			if it.Map == 1 {
				fmt.Fprintf(&sb, "%s: {\n  ...@%s\n}\n", it.Key, sp)
			} else {
				fmt.Fprintf(&sb, "%s: @%s\n", it.Key, sp)
			}
		case "under":
			if it.Map == 1 {
				fmt.Fprintf(&sb, "%s: {\n  ...@%s\n}\n", it.Key, importSpelling(f.Path, in.Files[it.F-1].Path, k))
			} else {
				fmt.Fprintf(&sb, "%s: @%s\n", it.Key, importSpelling(f.Path, in.Files[it.F-1].Path, k))
			}
		}
	}
	return sb.String()
}

// inlined writes the twin: every import replaced by the imported file's text (nil when the set is cyclic)
func (in importsInput) inlined(al *irAlphabet, i int, ind string, stack []int, sb *strings.Builder) bool {
	for _, s := range stack {
		if s == i {
			return false
		}
	}
	stack = append(stack, i)
	for _, it := range in.Files[i-1].Items {
		switch it.K {
		case "decl":
			for _, l := range strings.Split(al.Decls[it.D-1].render(it.Sty), "\n") {
				fmt.Fprintf(sb, "%s%s\n", ind, l)
			}
		case "key":
			return false // no textual twin for the import of a single key
		case "spread":
			if !in.inlined(al, it.F, ind, stack, sb) {
				return false
			}
		case "under":
			fmt.Fprintf(sb, "%s%s: {\n", ind, it.Key)
			if !in.inlined(al, it.F, ind+"  ", stack, sb) {
				return false
			}
			fmt.Fprintf(sb, "%s}\n", ind)
		}
	}
	return true
}

func driveImports(c *Ctx) error {
	al, err := loadAlphabet(c.Args["alphabet"])
	if err != nil {
		return err
	}
	var plain []int
	for i, d := range al.Decls {
		if (d.K == "attr" || d.K == "anull") && d.A == "label" || d.K == "enull" || d.K == "glob" || d.K == "eref" {
			continue
		}
		plain = append(plain, i+1)
	}
	plain = append(plain, 31, 33) // a few indexed references
	var inputs []importsInput
	if c.Replay != nil {
		var in importsInput
		if err := json.Unmarshal(c.Replay, &in); err != nil {
			return err
		}
		if len(in.Files) == 0 {
			in = genImports(in.Seed, plain)
		}
		inputs = []importsInput{in}
	} else {
		n, space := 1000, 8000
		fmt.Sscanf(c.Args["n"], "%d", &n)
		lo, hi := 0, space
		if !c.Thorough() {
			lo = int((c.Seed*7919)%int64(space/n)) * n
			hi = lo + n
		}
		for i := lo; i < hi; i++ {
			inputs = append(inputs, genImports(int64(i)+1, plain))
		}
	}
	for _, in := range inputs {
		fs := fstest.MapFS{}
		var all strings.Builder
		for i, f := range in.Files {
			t := in.fileText(al, i+1)
			fs[f.Path] = &fstest.MapFile{Data: []byte(t)}
			fmt.Fprintf(&all, "--- %s\n%s", f.Path, t)
		}
		main := in.fileText(al, 1)
		files := []tr.M{}
		nImports := 0
		for _, f := range in.Files {
			items := []tr.M{}
			for _, it := range f.Items {
				items = append(items, tr.M{"k": it.K, "d": it.D, "f": it.F, "key": it.Key, "sel": it.Sel})
				if it.K != "decl" {
					nImports++
				}
			}
			files = append(files, tr.M{"path": f.Path, "items": items})
		}
		// facts about the set that the known deviations from inlining depend on: walk the expansion like the model does
		nullImported, shared, erefImported := 0, 0, 0
		bundles := map[string][]int{} // bundle -> depths at which it is declared
		var walkX func(i int, pfx string, depth int, stack []int)
		walkX = func(i int, pfx string, depth int, stack []int) {
			for _, s := range stack {
				if s == i {
					return
				}
			}
			for _, it := range in.Files[i-1].Items {
				if it.K != "decl" {
					p2 := pfx
					if it.K == "under" || it.K == "key" {
						p2 = pfx + it.Key + "."
					}
					walkX(it.F, p2, depth+1, append(append([]int{}, stack...), i))
					continue
				}
				d := al.Decls[it.D-1]
				switch d.K {
				case "null", "anull":
					if depth > 0 {
						nullImported = 1
					}
				case "eref":
					if depth > 0 {
						erefImported = 1
					}
				case "edge":
					k := fmt.Sprint(pfx, foldAll(al, d.S), foldAll(al, d.D), d.SA, d.DA)
					bundles[k] = append(bundles[k], depth)
				}
			}
		}
		walkX(1, "", 0, nil)
		for _, ds := range bundles {
			if len(ds) > 1 {
				for _, d := range ds {
					if d > 0 {
						shared = 1
					}
				}
			}
		}
		hasEref, hasKeyImport := 0, 0
		for _, f := range in.Files {
			for _, it := range f.Items {
				if it.K == "key" {
					hasKeyImport = 1
				}
				if it.K == "decl" && al.Decls[it.D-1].K == "eref" {
					hasEref = 1
				}
			}
		}
		ev := tr.M{"ev": "set", "nullImported": nullImported, "importedTwice": shared, "erefImported": erefImported, "hasEref": hasEref, "hasKeyImport": hasKeyImport, "files": files, "text": firstN(all.String(), 900), "err": 0, "errIsCycle": 0, "panic": 0, "hang": 0, "msg": "", "obs": tr.M{"objs": []tr.M{}, "edges": []tr.M{}},
			"twinErr": 0, "twinSame": 0, "twinText": "", "noTwin": 0}
		type res struct {
			obs   tr.M
			dig   string
			msg   string
			panic bool
		}
		compile := func(text string) (res, bool) {
			ch := make(chan res, 1)
			go func() {
				var r res
				defer func() {
					if p := recover(); p != nil {
						r.panic, r.msg = true, firstN(fmt.Sprint(p), 200)
					}
					ch <- r
				}()
				g, _, err := d2compiler.Compile("index.d2", strings.NewReader(text), &d2compiler.CompileOptions{FS: fs})
				if err != nil {
					r.msg = firstN(err.Error(), 300)
					return
				}
				b := proj.Graph(g, nil)
				r.obs, r.dig = irObs(b), proj.Digest([]proj.Board{b})
			}()
			select {
			case r := <-ch:
				return r, true
			case <-time.After(20 * time.Second):
				return res{}, false
			}
		}
		r1, done := compile(main)
		switch {
		case !done:
			ev["hang"] = 1
		case r1.panic:
			ev["panic"], ev["msg"] = 1, r1.msg
		case r1.msg != "":
			ev["err"], ev["msg"] = 1, r1.msg
			ev["errIsCycle"] = tr.B(strings.Contains(r1.msg, "cyclic import"))
		default:
			ev["obs"] = r1.obs
			var tw strings.Builder
			if in.inlined(al, 1, "", nil, &tw) {
				ev["twinText"] = firstN(tw.String(), 600)
				r2, done2 := compile(tw.String())
				if !done2 || r2.panic || r2.msg != "" {
					ev["twinErr"] = 1
				} else {
					ev["twinSame"] = tr.B(sameSet(r1.dig, r2.dig))
				}
			} else {
				ev["noTwin"] = 1
			}
		}
		nt := []string{}
		if nImports > 0 {
			nt = []string{"C14"}
		}
		evs := []tr.M{ev}
		if iev := iconsEvent(in.Seed); iev != nil {
			evs = append(evs, iev)
			nt = []string{"C14"}
		}
		c.W.Add(tr.M{"seed": in.Seed}, evs, nt...)
		if nImports > 1 {
			c.W.Sample("C14", tr.M{"seed": in.Seed, "files": firstN(all.String(), 600)})
		}
	}
	return nil
}

// sameSet compares two board digests line by line as multisets (the order of objects and connections is not part of the property)
func sameSet(a, b string) bool {
	count := map[string]int{}
	for _, l := range strings.Split(a, "\n") {
		count[l]++
	}
	for _, l := range strings.Split(b, "\n") {
		count[l]--
	}
	for _, n := range count {
		if n != 0 {
			return false
		}
	}
	return true
}

// iconsEvent: the rebasing rule for icons. A chain of 1-3 imports (spread, under a key, in a map), every file in its own
// directory and declaring one object with an icon: relative in several spellings, absolute, or a URL. The event carries the
// import paths as written (token lists) and the compiled icons; TraceD2Imports computes what the icon has to be.
func iconsEvent(seed int64) tr.M {
	r := rand.New(rand.NewSource(seed*7001 + 11))
	vals := []string{"img/a.png", "./b.svg", "../c.png", "/usr/share/icons/db.png", "https://icons.example.com/x.svg", "d.png", "sub/e.png", "../../f.png", "/abs.svg", "x/../y.png"}
	paths := []string{"index.d2", "lib/f2.d2", "lib/deep/f3.d2", "other/f4.d2"}
	n := 2 + r.Intn(3) // files in the chain
	if r.Intn(2) == 0 {
		paths[1], paths[3] = paths[3], paths[1]
	}
	fs := fstest.MapFS{}
	objs := []tr.M{}
	var steps [][]string // the import path written in file k-1 to reach file k, as tokens
	prefix := ""         // key path under which file k's content lands
	for k := 0; k < n; k++ {
		var sb strings.Builder
		v := vals[r.Intn(len(vals))]
		id := fmt.Sprintf("o%d", k)
		if r.Intn(2) == 0 {
			fmt.Fprintf(&sb, "%s.icon: %s\n", id, v)
		} else {
			fmt.Fprintf(&sb, "%s: {\n  icon: %s\n}\n", id, v)
		}
		kind := "rel"
		if strings.Contains(v, "://") {
			kind = "url"
		} else if strings.HasPrefix(v, "/") {
			kind = "abs"
		}
		objs = append(objs, tr.M{"id": prefix + id, "kind": kind, "val": v, "toks": strings.Split(v, "/"), "steps": append([][]string{}, steps...), "got": "", "gotToks": []string{}})
		if k+1 < n {
			sp := strings.Trim(importSpelling(paths[k], paths[k+1], r.Intn(3)), "\"")
			q := "\"" + sp + "\""
			switch r.Intn(3) {
			case 0:
				fmt.Fprintf(&sb, "...@%s\n", q)
			case 1:
				fmt.Fprintf(&sb, "k%d: @%s\n", k, q)
				prefix += fmt.Sprintf("k%d.", k)
			case 2:
				fmt.Fprintf(&sb, "k%d: {\n  ...@%s\n}\n", k, q)
				prefix += fmt.Sprintf("k%d.", k)
			}
			steps = append(steps, strings.Split(strings.TrimSuffix(sp, ".d2"), "/"))
		}
		fs[paths[k]] = &fstest.MapFile{Data: []byte(sb.String())}
	}
	ev := tr.M{"ev": "icons", "err": 0, "msg": "", "objs": objs}
	func() {
		defer func() {
			if p := recover(); p != nil {
				ev["err"], ev["msg"] = 1, "panic: "+firstN(fmt.Sprint(p), 160)
			}
		}()
		g, _, err := d2compiler.Compile("index.d2", strings.NewReader(string(fs["index.d2"].Data)), &d2compiler.CompileOptions{FS: fs})
		if err != nil {
			ev["err"], ev["msg"] = 1, firstN(err.Error(), 200)
			return
		}
		for _, o := range objs {
			for _, x := range g.Objects {
				if x.AbsID() == o["id"] && x.Icon != nil {
					o["got"] = x.Icon.String()
					o["gotToks"] = strings.Split(x.Icon.String(), "/")
				}
			}
		}
	}()
	return ev
}
