package main

import (
	"bytes"
	"encoding/json"
	"fmt"
	"math/rand"
	"reflect"
	"strings"
	"time"
	"unicode/utf16"
	"unicode/utf8"

	"oss.terrastruct.com/d2/d2ast"
	"oss.terrastruct.com/d2/d2parser"

	"verifharness/internal/gen"
	"verifharness/internal/tr"
)

// Family parse (C01, C02): the four parser entry points on generated texts, damaged texts, raw byte
// strings (invalid UTF-8, UTF-16 with BOM) and deeply nested / unterminated constructs, in both
// position modes. Logged: the totality contract's facts and every node/error range as integers plus
// the input as a table of runes (width in bytes and in UTF-16 units, newline flag), from which
// TraceD2Parse.tla recomputes line/column/offset.

type parseInput struct {
	Kind string `json:"kind"` // gen | mut | bytes | nest | key
	Seed int64  `json:"seed"`
	Hex  string `json:"hex,omitempty"` // replay: the exact input bytes
}

func init() { register("parse", driveParse) }

var tokTokens = []string{"*", "${x}", "...${x}", "a", " ", "\"", "'", "\\", "|", ".", ":", ";", "->", "(", ")", "[", "]", "{", "}", "@x", "&", "-", "#", "$", "null", "_", "é", "0"}

var rawAlphabet = []byte{0x00, 0x0A, 0x22, 0x7B, 0x7D, 0x5C, 0xC3, 0xFF, 0xFE, 0x61, 0x3A, 0x2D, 0x3E, 0x27, 0x7C, 0x23, 0xF0, 0x9F, 0x98, 0x80, 0x20, 0x2E, 0x5B, 0x5D, 0x28, 0x29, 0x24, 0x2A, 0x26, 0x40, 0x3B}

func parseInputBytes(in parseInput) []byte {
	if in.Hex != "" {
		var b []byte
		fmt.Sscanf(in.Hex, "%x", &b)
		return b
	}
	r := rand.New(rand.NewSource(in.Seed*53 + 11))
	switch in.Kind {
	case "gen", "mut":
		d := gen.Generate(rand.New(rand.NewSource(in.Seed)), pipeOpts("text"))
		t := d.Text
		if in.Kind == "mut" {
			t = mutate(t, r)
		}
		if len(t) > 400 && in.Seed%3 == 0 {
			t = t[:400]
		}
		return []byte(t)
	case "bytes":
		n := 1 + r.Intn(7)
		b := make([]byte, n)
		for i := range b {
			b[i] = rawAlphabet[r.Intn(len(rawAlphabet))]
		}
		if in.Seed%5 == 0 { // UTF-16 LE with BOM, odd and even payloads
			b = append([]byte{0xFF, 0xFE}, b...)
		}
		if in.Seed%7 == 0 {
			b = append([]byte("é😀x: "), b...)
		}
		return b
	case "nest":
		depth := []int{1, 5, 50, 500, 2000}[r.Intn(5)]
		open := []string{"a: {", "[", "(a -> ", "a: |", "\"", "a: ${", "x.", "'", "a: [", "a: \\\n"}[r.Intn(10)]
		s := strings.Repeat(open, depth)
		if r.Intn(2) == 0 {
			s += strings.Repeat("}", r.Intn(depth+1))
		}
		return []byte(s)
	case "soup":
		return []byte(gen.Soup(rand.New(rand.NewSource(in.Seed*17 + 3))))
	case "tok":
		// systematic token rows: one line per last token, so that every pair (rows 0-83) and every triple of
		// tokens is parsed next to each other in a key, a value and a connection label
		T := tokTokens
		rows := len(T)*3 + len(T)*len(T)*3
		j := int((in.Seed-1)/11)*3 + int((in.Seed-1)%11) - 8
		j = (j * 1103) % rows // spread pair rows and triple rows over the slices of the quick tier
		ctx := []string{"k%d: %s", "%[2]s: v%[1]d", "a -> b%d: %s"}
		var prefix, pat string
		if j < len(T)*3 {
			prefix, pat = T[j%len(T)], ctx[j/len(T)]
		} else {
			k := j - len(T)*3
			prefix, pat = T[k%len(T)]+T[(k/len(T))%len(T)], ctx[(k/(len(T)*len(T)))%3]
		}
		var sb strings.Builder
		for i, t := range T {
			fmt.Fprintf(&sb, pat+"\n", i, prefix+t)
		}
		return []byte(sb.String())
	case "key":
		parts := []string{"a", "b.c", "\"q.r\"", "'s'", "x y", "(a -> b)[0]", "a -> b", "a.\"b\".c", "é", "😀", "*", "**", "a*b", "&x", "!&y", "$v", "@imp", "...@f", "null", "_", "_.x", "a:b", "a;b", "[1]", "{k: v}", "|md x|", "1", "-", "->", "\\n", "a.", ".a", ""}
		s := parts[r.Intn(len(parts))]
		if r.Intn(3) == 0 {
			s += "." + parts[r.Intn(len(parts))]
		}
		if r.Intn(4) == 0 {
			s += ": " + parts[r.Intn(len(parts))]
		}
		return []byte(s)
	}
	return nil
}

func driveParse(c *Ctx) error {
	var inputs []parseInput
	if c.Replay != nil {
		var in parseInput
		if err := json.Unmarshal(c.Replay, &in); err != nil {
			return err
		}
		inputs = []parseInput{in}
	} else {
		n, space := 900, 9900
		fmt.Sscanf(c.Args["n"], "%d", &n)
		lo, hi := 0, space
		if !c.Thorough() {
			lo = int((c.Seed*7919)%int64(space/n)) * n
			hi = lo + n
		}
		kinds := []string{"gen", "mut", "bytes", "bytes", "nest", "key", "mut", "key", "tok", "tok", "tok"}
		// (index i%11 selects the kind; every 11th input of the first three kinds is a syntax soup instead)
		for i := lo; i < hi; i++ {
			k := kinds[i%len(kinds)]
			if (i/len(kinds))%2 == 1 && (k == "gen" || k == "mut" || k == "key") {
				k = "soup"
			}
			inputs = append(inputs, parseInput{Kind: k, Seed: int64(i) + 1})
		}
	}
	for _, in := range inputs {
		b := parseInputBytes(in)
		in.Hex = fmt.Sprintf("%x", b)
		if skipInput(in) {
			continue
		}
		journal("S", in)
		evs := parseRun(b)
		journal("D", in)
		nt := []string{"C01"}
		if len(b) <= 300 {
			nt = append(nt, "C02")
		}
		c.W.Add(in, evs, nt...)
		c.W.Sample("C01", tr.M{"kind": in.Kind, "input": firstN(fmt.Sprintf("%q", b), 200)})
		c.W.Sample("C02", tr.M{"kind": in.Kind, "input": firstN(fmt.Sprintf("%q", b), 200)})
	}
	return nil
}

type nodeRange struct {
	r      d2ast.Range
	parent int
	seg    string // for key-path string segments: the scalar value
	isSeg  bool
}

var rangeType = reflect.TypeOf(d2ast.Range{})

// walk collects every value that carries a Range field, with the index of its closest enclosing node.
func walk(v reflect.Value, parent int, out *[]nodeRange, depth int) {
	if depth > 4000 || len(*out) > 400 {
		return
	}
	switch v.Kind() {
	case reflect.Ptr, reflect.Interface:
		if !v.IsNil() {
			walk(v.Elem(), parent, out, depth+1)
		}
	case reflect.Struct:
		me := parent
		if f := v.FieldByName("Range"); f.IsValid() && f.Type() == rangeType {
			nr := nodeRange{r: f.Interface().(d2ast.Range), parent: parent}
			*out = append(*out, nr)
			me = len(*out)
		}
		for i := 0; i < v.NumField(); i++ {
			if v.Type().Field(i).IsExported() && v.Type().Field(i).Name != "Range" {
				walk(v.Field(i), me, out, depth+1)
			}
		}
	case reflect.Slice:
		for i := 0; i < v.Len(); i++ {
			walk(v.Index(i), parent, out, depth+1)
		}
	}
}

func posArr(p d2ast.Position) []int { return []int{p.Line, p.Column, p.Byte} }

func parseRun(in []byte) []tr.M {
	// the input as the parser reads it: UTF-16 LE when it starts with the BOM FF FE, else UTF-8 with
	// invalid bytes read as U+FFFD
	var runes []rune
	var w8 []int
	if len(in) >= 2 && in[0] == 0xFF && in[1] == 0xFE {
		u := []uint16{}
		for i := 2; i+1 < len(in); i += 2 {
			u = append(u, uint16(in[i])|uint16(in[i+1])<<8)
		}
		runes = utf16.Decode(u)
		for _, r := range runes {
			w8 = append(w8, utf8.RuneLen(r))
		}
	} else {
		for i := 0; i < len(in); {
			r, sz := utf8.DecodeRune(in[i:])
			runes = append(runes, r)
			w8 = append(w8, sz)
			i += sz
		}
	}
	// positions of UTF-16 encoded files are in terms of the decoded text; C02 is checked on UTF-8 inputs
	small := len(runes) <= 300 && !(len(in) >= 2 && in[0] == 0xFF && in[1] == 0xFE)
	table := [][]int{}
	if small {
		for i, r := range runes {
			w16 := 1
			if r1, r2 := utf16.EncodeRune(r); r1 != 0xFFFD && r2 != 0xFFFD {
				w16 = 2
			}
			// what Position.Advance adds for this rune in UTF-8 mode: the length of its UTF-8 encoding
			table = append(table, []int{w8[i], w16, tr.B(r == '\n'), utf8.RuneLen(r)})
		}
	}
	evs := []tr.M{{"ev": "input", "len": len(in), "nrunes": len(runes), "runes": table, "small": tr.B(small), "bom": tr.B(len(in) >= 2 && in[0] == 0xFF && in[1] == 0xFE)}}
	type ep struct {
		name string
		f    func(utf16 bool) (any, error)
	}
	eps := []ep{
		{"Parse", func(u bool) (any, error) {
			m, err := d2parser.Parse("in.d2", bytes.NewReader(in), &d2parser.ParseOptions{UTF16Pos: u})
			if m == nil {
				return nil, err
			}
			return m, err
		}},
		{"ParseKey", func(u bool) (any, error) { k, err := d2parser.ParseKey(string(in)); return k, err }},
		{"ParseMapKey", func(u bool) (any, error) { k, err := d2parser.ParseMapKey(string(in)); return k, err }},
		{"ParseValue", func(u bool) (any, error) { v, err := d2parser.ParseValue(string(in)); return v, err }},
	}
	for _, e := range eps {
		for _, u16 := range []bool{false, true} {
			if u16 && e.name != "Parse" {
				continue
			}
			ev := tr.M{"ev": "parse", "fn": e.name, "utf16": tr.B(u16), "returned": 0, "panic": 0, "timeout": 0, "tree": 0, "nerr": 0, "errsPositioned": 1, "ms": 0, "nodes": [][]int{}, "errs": [][]int{}, "segsOK": 1, "segBad": ""}
			done := make(chan struct{})
			var res any
			var err error
			var pan any
			t0 := time.Now()
			go func() {
				defer close(done)
				defer func() { pan = recover() }()
				res, err = e.f(u16)
			}()
			select {
			case <-done:
				ev["returned"] = 1
			case <-time.After(20 * time.Second):
				ev["timeout"] = 1
			}
			ev["ms"] = int(time.Since(t0).Milliseconds())
			if pan != nil {
				ev["panic"] = 1
				ev["msg"] = firstN(fmt.Sprint(pan), 160)
			}
			if ev["returned"] == 1 && pan == nil {
				hasTree := res != nil && !(reflect.ValueOf(res).Kind() == reflect.Ptr && reflect.ValueOf(res).IsNil())
				ev["tree"] = tr.B(hasTree)
				if err != nil {
					var pe *d2parser.ParseError
					if asParseError(err, &pe) {
						ev["nerr"] = len(pe.Errors)
						errs := [][]int{}
						for _, x := range pe.Errors {
							errs = append(errs, append(posArr(x.Range.Start), posArr(x.Range.End)...))
						}
						if len(errs) > 100 {
							errs = errs[:100]
						}
						ev["errs"] = errs
					} else {
						ev["nerr"] = 1
						ev["errsPositioned"] = tr.B(e.name != "Parse") // the single-item entry points wrap their error
					}
				}
				if hasTree && small && e.name == "Parse" {
					var nodes []nodeRange
					walk(reflect.ValueOf(res), 0, &nodes, 0)
					arr := [][]int{}
					for _, n := range nodes {
						arr = append(arr, append(append(posArr(n.r.Start), posArr(n.r.End)...), n.parent))
					}
					ev["nodes"] = arr
					// the segment clause is about error-free inputs (a broken quote has no well-defined text)
					if !u16 && err == nil && len(in) >= 2 && !(in[0] == 0xFF && in[1] == 0xFE) {
						if bad := segCheck(res.(*d2ast.Map), in); bad != "" {
							ev["segsOK"] = 0
							ev["segBad"] = firstN(bad, 120)
						}
					}
				}
			}
			evs = append(evs, ev)
		}
	}
	return evs
}

func asParseError(err error, pe **d2parser.ParseError) bool {
	for err != nil {
		if p, ok := err.(*d2parser.ParseError); ok {
			*pe = p
			return true
		}
		u, ok := err.(interface{ Unwrap() error })
		if !ok {
			return false
		}
		err = u.Unwrap()
	}
	return false
}

// segCheck: the source text covered by a key segment's range parses back to that segment's value.
func segCheck(m *d2ast.Map, src []byte) string {
	bad := ""
	var visitKP func(kp *d2ast.KeyPath)
	visitKP = func(kp *d2ast.KeyPath) {
		if kp == nil {
			return
		}
		for _, sb := range kp.Path {
			s := sb.Unbox()
			if s == nil {
				continue
			}
			r := s.GetRange()
			if r.Start.Byte < 0 || r.End.Byte > len(src) || r.Start.Byte > r.End.Byte {
				continue // reported by the range checks
			}
			if _, isBlock := s.(*d2ast.BlockString); isBlock {
				continue
			}
			txt := string(src[r.Start.Byte:r.End.Byte])
			k2, err := d2parser.ParseKey(txt)
			if err != nil || k2 == nil || len(k2.Path) != 1 || k2.Path[0].Unbox().ScalarString() != s.ScalarString() {
				if bad == "" {
					bad = fmt.Sprintf("%q covers %q", s.ScalarString(), txt)
				}
			}
		}
	}
	var visitMap func(m *d2ast.Map, depth int)
	visitMap = func(m *d2ast.Map, depth int) {
		if m == nil || depth > 200 {
			return
		}
		for _, n := range m.Nodes {
			if n.MapKey == nil {
				continue
			}
			visitKP(n.MapKey.Key)
			for _, e := range n.MapKey.Edges {
				visitKP(e.Src)
				visitKP(e.Dst)
			}
			visitKP(n.MapKey.EdgeKey)
			if n.MapKey.Value.Map != nil {
				visitMap(n.MapKey.Value.Map, depth+1)
			}
		}
	}
	visitMap(m, 0)
	return bad
}
