package main

import (
	"bytes"
	"context"
	"encoding/json"
	"fmt"
	"os"
	"os/exec"
	"path/filepath"
	"regexp"
	"sort"
	"strconv"
	"strings"
	"time"

	"oss.terrastruct.com/d2/d2format"
	"oss.terrastruct.com/d2/d2graph"
	"oss.terrastruct.com/d2/d2layouts/d2dagrelayout"
	"oss.terrastruct.com/d2/d2lib"
	"oss.terrastruct.com/d2/d2parser"
	"oss.terrastruct.com/d2/d2target"
	"oss.terrastruct.com/d2/lib/textmeasure"

	"verifharness/internal/tr"
)

// Family fs (C48, C34): run the real d2 binary (built from /repo by the runner, path in -arg d2=)
// under strace inside a nested sandbox directory; the file-system system calls that touch the
// sandbox are the trace, TraceFSWrite.tla replays them on the FSOps model.

type fsInput struct {
	Mode    string     `json:"mode"`              // fmt | render | boards
	Size    int        `json:"size,omitempty"`    // fmt/render: number of extra lines in the source
	Existed bool       `json:"existed,omitempty"` // render: out.svg exists beforehand
	Symlink bool       `json:"symlink,omitempty"` // render/fmt: the file is reached through a symbolic link
	KillAt  int        `json:"killAt,omitempty"`  // >0: SIGKILL at the KillAt-th file syscall (strace injection)
	Boards  []fsBoard  `json:"boards,omitempty"`  // boards: the board tree
	Links   [][]string `json:"links,omitempty"`
	Bare    bool       `json:"bare,omitempty"` // boards: the root board declares nothing but boards
}

type fsBoard struct {
	Kind     string    `json:"kind"`
	Name     string    `json:"name"`
	Children []fsBoard `json:"children,omitempty"`
}

func init() { register("fs", driveFS) }

const fsSyscalls = "openat,open,creat,write,pwrite64,writev,close,rename,renameat,renameat2,unlink,unlinkat,mkdir,mkdirat,rmdir,chmod,fchmod,fchmodat,ftruncate,truncate,link,linkat,symlink,symlinkat"

func driveFS(c *Ctx) error {
	d2bin := c.Args["d2"]
	if d2bin == "" {
		return fmt.Errorf("fs: need -arg d2=<path to d2 binary>")
	}
	if _, err := exec.LookPath("strace"); err != nil {
		return fmt.Errorf("fs: strace not found")
	}
	var inputs []fsInput
	if c.Replay != nil {
		var in fsInput
		if err := json.Unmarshal(c.Replay, &in); err != nil {
			return err
		}
		inputs = []fsInput{in}
	} else {
		modes := c.Args["modes"]
		if modes == "" {
			modes = "fmt,render,boards"
		}
		for _, m := range strings.Split(modes, ",") {
			switch m {
			case "fmt":
				sizes := []int{0, 1, 200}
				if c.Thorough() {
					sizes = append(sizes, 3, 40, 3000, 40000)
				}
				for _, s := range sizes {
					inputs = append(inputs, fsInput{Mode: "fmt", Size: s})
				}
			case "render":
				sizes := []int{0, 3}
				if c.Thorough() {
					sizes = append(sizes, 12, 40)
				}
				for _, s := range sizes {
					inputs = append(inputs, fsInput{Mode: "render", Size: s, Existed: true}, fsInput{Mode: "render", Size: s, Existed: false})
				}
				inputs = append(inputs, fsInput{Mode: "render", Size: 1, Existed: true, Symlink: true}, fsInput{Mode: "fmt", Size: 2, Symlink: true})
			case "boards":
				inputs = append(inputs, boardInputs(c)...)
			}
		}
	}
	for _, in := range inputs {
		if err := fsRun(c, d2bin, in, true); err != nil {
			return err
		}
	}
	return nil
}

// ---------------------------------------------------------------- board trees

var boardNames = []string{"a", "b", "index", "layers", "a.b", "a/b", "..", "../x", "x y", ".", "x/index", "scenarios", "...", "a.", "a ", " ", "A", "a%2Fb", ".hidden"}
var boardKinds = []string{"layers", "scenarios", "steps"}

func boardInputs(c *Ctx) []fsInput {
	var res []fsInput
	add := func(bs ...fsBoard) { res = append(res, fsInput{Mode: "boards", Boards: bs}) }
	L := func(k, n string, ch ...fsBoard) fsBoard { return fsBoard{Kind: k, Name: n, Children: ch} }
	// fixed, always: ordinary names, every kind, mixed kinds, nesting
	add(L("layers", "a"), L("layers", "b"))
	add(L("layers", "a"), L("scenarios", "b"), L("steps", "a"))
	add(L("layers", "a", L("layers", "b"), L("steps", "a")), L("layers", "b"))
	add(L("steps", "a"), L("steps", "b"), L("steps", "a.b"))
	add(L("layers", "layers", L("layers", "layers")), L("scenarios", "layers"))
	add(L("layers", "x y", L("scenarios", "a.b")))
	// the tricky names
	add(L("layers", "index"), L("layers", "a"))
	add(L("layers", "a/b"), L("layers", "a", L("layers", "b")))
	add(L("layers", "../x"))
	add(L("layers", ".."), L("layers", "a"))
	add(L("layers", "a", L("layers", "x")), L("layers", "a/x"))
	add(L("layers", "..."), L("layers", "a"))
	add(L("layers", "a."), L("layers", "a"), L("layers", "a "))
	add(L("scenarios", " "), L("scenarios", ".hidden"), L("steps", "A"), L("steps", "a"))
	add(L("layers", "a%2Fb"), L("layers", "a/b"))
	// a board named like the directory itself, as a leaf and with boards below it, also under a root that declares only boards
	add(L("layers", "."), L("layers", "a"))
	add(L("layers", ".", L("layers", "x")), L("layers", "a"))
	add(L("layers", "a", L("scenarios", ".")))
	bare := func(bs ...fsBoard) { res = append(res, fsInput{Mode: "boards", Boards: bs, Bare: true}) }
	bare(L("layers", "a"), L("layers", "b"))
	bare(L("layers", "."), L("layers", "a"))
	bare(L("layers", "a"), L("layers", ".", L("layers", "x")))
	bare(L("layers", "index"), L("layers", ".."))
	n := 14
	if c.Thorough() {
		n = 400
	}
	for i := 0; i < n; i++ {
		var bs []fsBoard
		used := map[string]bool{}
		for j, m := 0, 1+c.Rng.Intn(3); j < m; j++ {
			b := fsBoard{Kind: boardKinds[c.Rng.Intn(3)], Name: boardNames[c.Rng.Intn(len(boardNames))]}
			if used[b.Kind+"\x00"+b.Name] {
				continue
			}
			used[b.Kind+"\x00"+b.Name] = true
			if c.Rng.Intn(3) == 0 {
				u2 := map[string]bool{}
				for k, m2 := 0, 1+c.Rng.Intn(2); k < m2; k++ {
					cb := fsBoard{Kind: boardKinds[c.Rng.Intn(3)], Name: boardNames[c.Rng.Intn(len(boardNames))]}
					if !u2[cb.Kind+"\x00"+cb.Name] {
						u2[cb.Kind+"\x00"+cb.Name] = true
						b.Children = append(b.Children, cb)
					}
				}
			}
			bs = append(bs, b)
		}
		res = append(res, fsInput{Mode: "boards", Boards: bs})
	}
	return res
}

func boardScript(bs []fsBoard, indent string, tag string) string {
	var sb strings.Builder
	fmt.Fprintf(&sb, "%sn%s\n", indent, tag)
	for _, kind := range boardKinds {
		var of []fsBoard
		for _, b := range bs {
			if b.Kind == kind {
				of = append(of, b)
			}
		}
		if len(of) == 0 {
			continue
		}
		fmt.Fprintf(&sb, "%s%s: {\n", indent, kind)
		for i, b := range of {
			fmt.Fprintf(&sb, "%s  %q: {\n", indent, b.Name)
			sb.WriteString(boardScript(b.Children, indent+"    ", fmt.Sprintf("%s%c%d", tag, kind[0], i)))
			fmt.Fprintf(&sb, "%s  }\n", indent)
		}
		fmt.Fprintf(&sb, "%s}\n", indent)
	}
	return sb.String()
}

func countBoards(d *d2target.Diagram) (all, rendered int) {
	all = 1
	if !d.IsFolderOnly {
		rendered = 1
	}
	for _, l := range [][]*d2target.Diagram{d.Layers, d.Scenarios, d.Steps} {
		for _, ch := range l {
			a, r := countBoards(ch)
			all += a
			rendered += r
		}
	}
	return
}

// ---------------------------------------------------------------- one run

var sandboxLevels = []string{"L1", "L2", "L3", "L4", "L5", "work"}

func fsRun(c *Ctx, d2bin string, in fsInput, withKills bool) error {
	top, err := os.MkdirTemp("", "vfs-")
	if err != nil {
		return err
	}
	defer os.RemoveAll(top)
	top, _ = filepath.EvalSymlinks(top)
	dir := top
	for _, l := range sandboxLevels {
		dir = filepath.Join(dir, l)
		if err := os.MkdirAll(dir, 0o755); err != nil {
			return err
		}
		os.WriteFile(filepath.Join(dir, "SENTINEL"), []byte("sentinel "+l+"\n"), 0o644)
		os.MkdirAll(filepath.Join(dir, "sibling"), 0o755)
		os.WriteFile(filepath.Join(dir, "sibling", "keep.txt"), []byte("keep\n"), 0o644)
	}
	work := dir
	var args []string
	var target string
	var old, expected []byte
	alt := "" // the file a symbolic link at target points to
	existed := true
	nboards := 1
	outdir := []string{}
	switch in.Mode {
	case "fmt":
		var sb strings.Builder
		sb.WriteString("a->b\n")
		for i := 0; i < in.Size; i++ {
			fmt.Fprintf(&sb, "x%d   ->  y%d  :  {style.opacity:0.4}\n", i, i)
		}
		old = []byte(sb.String())
		target = filepath.Join(work, "f.d2")
		if in.Symlink {
			os.MkdirAll(filepath.Join(work, "store"), 0o755)
			alt = filepath.Join(work, "store", "real.d2")
			os.WriteFile(alt, old, 0o640)
			os.Symlink(filepath.Join("store", "real.d2"), target)
		} else {
			os.WriteFile(target, old, 0o640)
		}
		m, err := d2parser.Parse("f.d2", bytes.NewReader(old), nil)
		if err != nil {
			return err
		}
		expected = []byte(d2format.Format(m))
		args = []string{"fmt", "f.d2"}
	case "render":
		var sb strings.Builder
		sb.WriteString("a -> b\n")
		for i := 0; i < in.Size; i++ {
			fmt.Fprintf(&sb, "x%d -> y%d\n", i, i%3)
		}
		os.WriteFile(filepath.Join(work, "in.d2"), []byte(sb.String()), 0o644)
		target = filepath.Join(work, "out.svg")
		existed = in.Existed
		if existed {
			old = []byte("<svg>OLD CONTENT</svg>\n")
			if in.Symlink {
				os.MkdirAll(filepath.Join(work, "store"), 0o755)
				alt = filepath.Join(work, "store", "real.svg")
				os.WriteFile(alt, old, 0o644)
				os.Symlink(filepath.Join("store", "real.svg"), target)
			} else {
				os.WriteFile(target, old, 0o644)
			}
		}
		args = []string{"in.d2", "out.svg"}
	case "boards":
		script := boardScript(in.Boards, "", "r")
		if in.Bare {
			script = strings.TrimPrefix(script, "nr\n")
		}
		os.WriteFile(filepath.Join(work, "in.d2"), []byte(script), 0o644)
		target = filepath.Join(work, "out.svg")
		existed = false
		args = []string{"in.d2", "out.svg"}
		d, err := compileScript(script)
		if err != nil {
			// not a compilable board tree (e.g. duplicate names after normalisation): skip
			return nil
		}
		_, nboards = countBoards(d)
		rel, _ := filepath.Rel(top, filepath.Join(work, "out"))
		outdir = strings.Split(rel, string(filepath.Separator))
	default:
		return fmt.Errorf("fs: unknown mode %q", in.Mode)
	}
	before := snapshot(top)

	stLog := filepath.Join(top, "strace.log")
	run := func(killSys string, killAt int) (int, []byte, error) {
		a := []string{"-f", "-y", "-s", "0", "-e", "trace=" + fsSyscalls, "-o", stLog}
		if killAt > 0 {
			a = append(a, "-e", fmt.Sprintf("inject=%s:signal=SIGKILL:when=%d", killSys, killAt))
		}
		a = append(a, d2bin)
		a = append(a, args...)
		ctx, cancel := context.WithTimeout(context.Background(), 120*time.Second)
		defer cancel()
		cmd := exec.CommandContext(ctx, "strace", a...)
		cmd.Dir = work
		cmd.Env = append(os.Environ(), "GOMAXPROCS=1", "D2_LAYOUT=dagre", "HOME="+top, "NO_COLOR=1")
		out, err := cmd.CombinedOutput()
		code := 0
		if err != nil {
			if ee, ok := err.(*exec.ExitError); ok {
				code = ee.ExitCode()
			} else {
				return 0, out, err
			}
		}
		return code, out, nil
	}

	code, out, err := run("", 0)
	if err != nil {
		return fmt.Errorf("strace run failed: %v\n%s", err, out)
	}
	calls, err := parseStrace(stLog, top)
	if err != nil {
		return err
	}
	os.Remove(stLog)
	final, ferr := os.ReadFile(target)
	if in.Mode == "render" {
		expected = final
	}
	rel := func(p string) string {
		r, err := filepath.Rel(top, p)
		if err != nil {
			return p
		}
		return r
	}
	altRel := ""
	if alt != "" {
		altRel = rel(alt)
	}
	start := tr.M{"ev": "start", "mode": in.Mode, "target": rel(target), "alt": altRel, "existed": tr.B(existed), "oldLen": len(old),
		"newLen": len(expected), "outdir": outdir, "nboards": nboards}
	evs := []tr.M{start}
	nsys := 0
	for _, s := range calls {
		evs = append(evs, s.event())
		nsys++
	}
	after := snapshot(top)
	changed, missing := diffSnap(before, after)
	chg := [][]string{}
	for _, p := range changed {
		chg = append(chg, strings.Split(p, string(filepath.Separator)))
	}
	mis := [][]string{}
	for _, p := range missing {
		mis = append(mis, strings.Split(p, string(filepath.Separator)))
	}
	evs = append(evs, tr.M{"ev": "exit", "code": code, "finalIsNew": tr.B(ferr == nil && bytes.Equal(final, expected)),
		"finalExists": tr.B(ferr == nil), "changed": chg, "missing": mis})
	var nt []string
	if code == 0 && nsys > 0 {
		if in.Mode == "boards" {
			nt = append(nt, "C34")
		} else {
			nt = append(nt, "C48")
		}
	}
	c.W.Add(in, evs, nt...)
	if in.Mode == "boards" {
		c.W.Sample("C34", tr.M{"boards": in.Boards, "files_written": chg})
	} else {
		c.W.Sample("C48", tr.M{"mode": in.Mode, "size": in.Size, "syscalls": summarize(calls)})
	}

	// crash runs: kill the real process at the k-th file syscall and read the file back
	if withKills && in.Mode != "boards" && in.KillAt == 0 && c.Replay == nil {
		// candidate kill points: the per-thread ordinals at which the sandbox calls happened in the
		// uninjected run (strace's when= counts per thread); the achieved point is read back from the log
		type kpT struct {
			sys string
			ord int
		}
		cand := map[kpT]bool{}
		for _, s := range calls {
			if s.Ord > 0 {
				cand[kpT{s.Sys, s.Ord}] = true
			}
		}
		var ks []kpT
		for k := range cand {
			ks = append(ks, k)
		}
		sort.Slice(ks, func(i, j int) bool {
			return ks[i].sys+fmt.Sprint(1000+ks[i].ord) < ks[j].sys+fmt.Sprint(1000+ks[j].ord)
		})
		reps := 1
		if c.Thorough() {
			reps = 3
		}
		achieved := map[int]bool{}
		for _, k0 := range ks {
			for rep := 0; rep < reps; rep++ {
				k := k0.ord
				os.RemoveAll(work)
				os.MkdirAll(work, 0o755)
				if existed {
					mode := os.FileMode(0o644)
					if in.Mode == "fmt" {
						mode = 0o640
					}
					os.WriteFile(target, old, mode)
				}
				if in.Mode == "render" {
					var sb strings.Builder
					sb.WriteString("a -> b\n")
					for i := 0; i < in.Size; i++ {
						fmt.Fprintf(&sb, "x%d -> y%d\n", i, i%3)
					}
					os.WriteFile(filepath.Join(work, "in.d2"), []byte(sb.String()), 0o644)
				}
				kcode, _, err := run(k0.sys, k)
				if err != nil {
					return err
				}
				kcalls, err := parseStrace(stLog, top)
				if err != nil {
					return err
				}
				killed := straceKilled(stLog)
				os.Remove(stLog)
				if !killed {
					continue
				}
				achieved[len(kcalls)] = true
				got, gerr := os.ReadFile(target)
				kin := in
				kin.KillAt = k
				kev := []tr.M{start}
				for _, s := range kcalls {
					kev = append(kev, s.event())
				}
				kev = append(kev, tr.M{"ev": "killed", "code": kcode, "exists": tr.B(gerr == nil), "len": len(got),
					"isOld": tr.B(gerr == nil && existed && bytes.Equal(got, old)), "isNew": tr.B(gerr == nil && bytes.Equal(got, expected))})
				c.W.Add(kin, kev, "C48")
			}
		}
		kp, _ := c.W.Extra["kill_points_achieved"].(int)
		c.W.Extra["kill_points_achieved"] = kp + len(achieved)
		kt, _ := c.W.Extra["kill_points_total"].(int)
		c.W.Extra["kill_points_total"] = kt + len(calls) + 1
	}
	return nil
}

func summarize(calls []sysCall) []string {
	var s []string
	for _, c := range calls {
		x := c.Call + " " + c.Path
		if c.To != "" {
			x += " -> " + c.To
		}
		if c.Call == "write" {
			x += fmt.Sprintf(" (%d bytes)", c.N)
		}
		s = append(s, x)
	}
	if len(s) > 14 {
		s = append(s[:14], "...")
	}
	return s
}

func compileScript(script string) (*d2target.Diagram, error) {
	ruler, err := textmeasure.NewRuler()
	if err != nil {
		return nil, err
	}
	layout := func(ctx context.Context, g *d2graph.Graph) error { return d2dagrelayout.DefaultLayout(ctx, g) }
	d, _, err := d2lib.Compile(quietCtx(), script, &d2lib.CompileOptions{Ruler: ruler, LayoutResolver: func(string) (d2graph.LayoutGraph, error) { return layout, nil }}, nil)
	return d, err
}

// ---------------------------------------------------------------- snapshots

func snapshot(top string) map[string]string {
	m := map[string]string{}
	filepath.Walk(top, func(p string, info os.FileInfo, err error) error {
		if err != nil || info.IsDir() {
			return nil
		}
		r, _ := filepath.Rel(top, p)
		if r == "strace.log" {
			return nil
		}
		b, _ := os.ReadFile(p)
		m[r] = fmt.Sprintf("%d:%x", len(b), hashBytes(b))
		return nil
	})
	return m
}

func hashBytes(b []byte) uint64 {
	var h uint64 = 1469598103934665603
	for _, x := range b {
		h ^= uint64(x)
		h *= 1099511628211
	}
	return h
}

func diffSnap(before, after map[string]string) (changed, missing []string) {
	for p, v := range after {
		if before[p] != v {
			changed = append(changed, p)
		}
	}
	for p := range before {
		if _, ok := after[p]; !ok {
			missing = append(missing, p)
		}
	}
	sort.Strings(changed)
	sort.Strings(missing)
	return
}

// ---------------------------------------------------------------- strace parsing

type sysCall struct {
	Call  string // open write close rename unlink rmdir mkdir chmod truncate link
	Path  string // relative to sandbox top
	To    string
	N     int
	Creat bool
	Excl  bool
	Trunc bool
	Wr    bool
	Mode  int
	Dir   bool
	Ord   int    // ordinal of this call among the calls of the same syscall name in its thread
	Sys   string // raw syscall name
}

func (s sysCall) event() tr.M {
	segs := strings.Split(s.Path, string(filepath.Separator))
	e := tr.M{"ev": "sys", "call": s.Call, "path": s.Path, "segs": segs}
	switch s.Call {
	case "open":
		e["creat"], e["excl"], e["trunc"], e["mode"] = tr.B(s.Creat), tr.B(s.Excl), tr.B(s.Trunc), s.Mode
	case "write", "truncate":
		e["n"] = s.N
	case "rename", "link":
		e["to"] = s.To
		e["tosegs"] = strings.Split(s.To, string(filepath.Separator))
	case "chmod":
		e["mode"] = s.Mode
	}
	return e
}

var reLine = regexp.MustCompile(`^(\d+)\s+(.*)$`)
var reCall = regexp.MustCompile(`^(\w+)\((.*)\)\s+= (-?\d+)(<[^>]*>)?`)
var reName = regexp.MustCompile(`^(\w+)\(`)
var injectable = map[string]bool{"openat": true, "write": true, "renameat": true, "fchmodat": true, "fchmod": true, "unlinkat": true}
var reResumed = regexp.MustCompile(`^<\.\.\. (\w+) resumed>(.*)$`)

func straceKilled(logPath string) bool {
	b, _ := os.ReadFile(logPath)
	return bytes.Contains(b, []byte("+++ killed by SIGKILL +++"))
}

func parseStrace(logPath, top string) ([]sysCall, error) {
	b, err := os.ReadFile(logPath)
	if err != nil {
		return nil, err
	}
	pending := map[string]string{}
	ords := map[string]int{}
	pendOrd := map[string]int{}
	var res []sysCall
	for _, line := range strings.Split(string(b), "\n") {
		m := reLine.FindStringSubmatch(line)
		if m == nil {
			continue
		}
		pid, rest := m[1], m[2]
		ord := 0
		if r := reResumed.FindStringSubmatch(rest); r != nil {
			rest = pending[pid] + r[2]
			ord = pendOrd[pid]
			delete(pending, pid)
		} else if nm := reName.FindStringSubmatch(rest); nm != nil && injectable[nm[1]] {
			ords[pid+"/"+nm[1]]++
			ord = ords[pid+"/"+nm[1]]
		}
		if strings.HasSuffix(rest, "<unfinished ...>") {
			pending[pid] = strings.TrimSuffix(rest, " <unfinished ...>")
			pendOrd[pid] = ord
			continue
		}
		cm := reCall.FindStringSubmatch(rest)
		if cm == nil {
			continue
		}
		ret, _ := strconv.Atoi(cm[3])
		if ret < 0 {
			continue
		}
		args := splitArgs(cm[2])
		retPath := strings.Trim(cm[4], "<>")
		sc, ok := toSysCall(cm[1], args, ret, retPath)
		if !ok {
			continue
		}
		in := func(p string) (string, bool) {
			p = strings.TrimSuffix(p, " (deleted)")
			if p == top || strings.HasPrefix(p, top+"/") {
				r, _ := filepath.Rel(top, p)
				return r, true
			}
			return p, false
		}
		p1, ok1 := in(sc.Path)
		if !ok1 {
			if sc.To != "" {
				if _, ok2 := in(sc.To); !ok2 {
					continue
				}
			} else {
				continue
			}
		}
		sc.Path = p1
		sc.Ord = ord
		sc.Sys = cm[1]
		if sc.To != "" {
			sc.To, _ = in(sc.To)
		}
		if sc.Path == "strace.log" {
			continue
		}
		res = append(res, sc)
	}
	return res, nil
}

func splitArgs(s string) []string {
	var res []string
	depth, inq, start := 0, false, 0
	for i := 0; i < len(s); i++ {
		ch := s[i]
		switch {
		case inq:
			if ch == '\\' {
				i++
			} else if ch == '"' {
				inq = false
			}
		case ch == '"':
			inq = true
		case ch == '<' || ch == '(' || ch == '[' || ch == '{':
			depth++
		case ch == '>' || ch == ')' || ch == ']' || ch == '}':
			depth--
		case ch == ',' && depth == 0:
			res = append(res, strings.TrimSpace(s[start:i]))
			start = i + 1
		}
	}
	res = append(res, strings.TrimSpace(s[start:]))
	return res
}

func fdPath(a string) string {
	i, j := strings.Index(a, "<"), strings.LastIndex(a, ">")
	if i < 0 || j < i {
		return ""
	}
	return a[i+1 : j]
}

func unq(a string) string {
	s, err := strconv.Unquote(a)
	if err != nil {
		return strings.Trim(a, `"`)
	}
	return s
}

func at(dirArg, pathArg string) string {
	p := unq(pathArg)
	if filepath.IsAbs(p) {
		return filepath.Clean(p)
	}
	return filepath.Join(fdPath(dirArg), p)
}

func octal(a string) int {
	v, _ := strconv.ParseInt(strings.TrimSpace(a), 8, 32)
	return int(v)
}

func toSysCall(name string, a []string, ret int, retPath string) (sysCall, bool) {
	switch name {
	case "openat", "open", "creat":
		var p, flags, mode string
		switch name {
		case "openat":
			p, flags = at(a[0], a[1]), a[2]
			if len(a) > 3 {
				mode = a[3]
			}
		case "open":
			p, flags = unq(a[0]), a[1]
			if len(a) > 2 {
				mode = a[2]
			}
		default:
			p, flags, mode = unq(a[0]), "O_WRONLY|O_CREAT|O_TRUNC", a[1]
		}
		if retPath != "" {
			p = retPath
		}
		wr := strings.Contains(flags, "O_WRONLY") || strings.Contains(flags, "O_RDWR")
		cr := strings.Contains(flags, "O_CREAT")
		if !wr && !cr {
			return sysCall{}, false
		}
		return sysCall{Call: "open", Path: p, Wr: wr, Creat: cr, Excl: strings.Contains(flags, "O_EXCL"), Trunc: strings.Contains(flags, "O_TRUNC"), Mode: octal(mode)}, true
	case "write", "pwrite64", "writev":
		p := fdPath(a[0])
		if p == "" || !filepath.IsAbs(p) {
			return sysCall{}, false
		}
		return sysCall{Call: "write", Path: p, N: ret}, true
	case "close":
		return sysCall{}, false
	case "rename":
		return sysCall{Call: "rename", Path: filepath.Clean(unq(a[0])), To: filepath.Clean(unq(a[1]))}, true
	case "renameat", "renameat2":
		return sysCall{Call: "rename", Path: at(a[0], a[1]), To: at(a[2], a[3])}, true
	case "link":
		return sysCall{Call: "link", Path: filepath.Clean(unq(a[0])), To: filepath.Clean(unq(a[1]))}, true
	case "linkat":
		return sysCall{Call: "link", Path: at(a[0], a[1]), To: at(a[2], a[3])}, true
	case "symlink":
		return sysCall{Call: "link", Path: unq(a[0]), To: filepath.Clean(unq(a[1]))}, true
	case "symlinkat":
		return sysCall{Call: "link", Path: unq(a[0]), To: at(a[1], a[2])}, true
	case "unlink":
		return sysCall{Call: "unlink", Path: filepath.Clean(unq(a[0]))}, true
	case "rmdir":
		return sysCall{Call: "rmdir", Path: filepath.Clean(unq(a[0]))}, true
	case "unlinkat":
		c := "unlink"
		if len(a) > 2 && strings.Contains(a[2], "AT_REMOVEDIR") {
			c = "rmdir"
		}
		return sysCall{Call: c, Path: at(a[0], a[1])}, true
	case "mkdir":
		return sysCall{Call: "mkdir", Path: filepath.Clean(unq(a[0]))}, true
	case "mkdirat":
		return sysCall{Call: "mkdir", Path: at(a[0], a[1])}, true
	case "chmod":
		return sysCall{Call: "chmod", Path: filepath.Clean(unq(a[0])), Mode: octal(a[1])}, true
	case "fchmodat":
		return sysCall{Call: "chmod", Path: at(a[0], a[1]), Mode: octal(a[2])}, true
	case "fchmod":
		return sysCall{Call: "chmod", Path: fdPath(a[0]), Mode: octal(a[1])}, true
	case "truncate":
		n, _ := strconv.Atoi(a[1])
		return sysCall{Call: "truncate", Path: filepath.Clean(unq(a[0])), N: n}, true
	case "ftruncate":
		n, _ := strconv.Atoi(a[1])
		return sysCall{Call: "truncate", Path: fdPath(a[0]), N: n}, true
	}
	return sysCall{}, false
}
