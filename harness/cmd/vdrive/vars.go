package main

import (
	"encoding/json"
	"fmt"
	"math/rand"
	"sort"
	"strings"

	"oss.terrastruct.com/d2/d2compiler"

	"verifharness/internal/proj"
	"verifharness/internal/tr"
)

// Family vars (C13): abstract programs - a tree of scopes (the file, containers, layers, scenarios) with
// variable definitions, and use sites made of literal pieces and references - are written out as D2,
// compiled by the real compiler together with their textually substituted twins, and the text found at
// every use site is logged. D2Vars.tla / TraceD2Vars.tla compute what it has to be.

type varScope struct {
	Parent int               `json:"parent"` // 1-based index, 0 for the file scope itself
	Kind   string            `json:"kind"`   // file | container | layer | scenario
	Defs   map[string]string `json:"defs"`
}
type varPiece struct {
	T string `json:"t"` // lit | var
	V string `json:"v"`
}
type varUse struct {
	Scope  int        `json:"scope"`
	Site   string     `json:"site"`  // label | tooltip | edge
	Quote  string     `json:"quote"` // none | double | single
	Pieces []varPiece `json:"pieces"`
}
type varsInput struct {
	Seed   int64      `json:"seed"`
	Scopes []varScope `json:"scopes,omitempty"`
	Uses   []varUse   `json:"uses,omitempty"`
}

func init() { register("vars", driveVars) }

var varNames = []string{"x", "y", "z", "n.m", "n.k"}
var varValues = []string{"outer", "two words", "5", "0.5", "with-dash", "Cap", "ünï", "x1", "a_b", "42", "inner v", "007", "true-ish", "v"}

func genVars(seed int64) varsInput {
	r := rand.New(rand.NewSource(seed*7907 + 11))
	in := varsInput{Seed: seed}
	ns := 1 + r.Intn(5)
	for i := 1; i <= ns; i++ {
		sc := varScope{Defs: map[string]string{}}
		if i == 1 {
			sc.Kind, sc.Parent = "file", 0
		} else {
			sc.Parent = 1 + r.Intn(i-1)
			pk := in.Scopes[sc.Parent-1].Kind
			switch k := r.Intn(4); {
			case k == 0 && (pk == "file" || pk == "layer"):
				sc.Kind = "layer"
			case k == 1 && pk == "file":
				sc.Kind = "scenario"
			default:
				sc.Kind = "container"
			}
		}
		for _, n := range varNames {
			if r.Intn(100) < 35 {
				sc.Defs[n] = varValues[r.Intn(len(varValues))]
			}
		}
		in.Scopes = append(in.Scopes, sc)
	}
	undefinedAt := -1
	nu := 1 + r.Intn(6)
	if r.Intn(100) < 15 {
		undefinedAt = r.Intn(nu)
	}
	for k := 0; k < nu; k++ {
		u := varUse{Scope: 1 + r.Intn(ns), Site: []string{"label", "label", "tooltip", "edge"}[r.Intn(4)], Quote: []string{"none", "none", "double", "single"}[r.Intn(4)]}
		name := func() string {
			if k == undefinedAt {
				return "nope"
			}
			return varNames[r.Intn(len(varNames))]
		}
		pre := []string{"pre ", "-", "0.", "a", "v=", "A B "}
		mid := []string{" and ", "-", ".", " ", "0"}
		post := []string{" post", "-", ".x", "0", "!", " Z"}
		switch r.Intn(5) {
		case 0:
			u.Pieces = []varPiece{{"var", name()}}
		case 1:
			u.Pieces = []varPiece{{"lit", pre[r.Intn(len(pre))]}, {"var", name()}}
		case 2:
			u.Pieces = []varPiece{{"var", name()}, {"lit", post[r.Intn(len(post))]}}
		case 3:
			u.Pieces = []varPiece{{"lit", pre[r.Intn(len(pre))]}, {"var", name()}, {"lit", post[r.Intn(len(post))]}}
		default:
			u.Pieces = []varPiece{{"var", name()}, {"lit", mid[r.Intn(len(mid))]}, {"var", varNames[r.Intn(len(varNames))]}}
		}
		if u.Quote == "single" && k == undefinedAt {
			u.Quote = "double"
		}
		in.Uses = append(in.Uses, u)
	}
	return in
}

func (in varsInput) resolve(scope int, name string) (string, bool) {
	for i := scope; i > 0; i = in.Scopes[i-1].Parent {
		if v, ok := in.Scopes[i-1].Defs[name]; ok {
			return v, true
		}
	}
	return "", false
}

// render writes the program; with twin set every resolvable reference outside single quotes is replaced by its value
func (in varsInput) render(twin bool) string {
	var sb strings.Builder
	var body func(i int, ind string)
	body = func(i int, ind string) {
		sc := in.Scopes[i-1]
		if len(sc.Defs) > 0 {
			fmt.Fprintf(&sb, "%svars: {\n", ind)
			keys := make([]string, 0, len(sc.Defs))
			for k := range sc.Defs {
				keys = append(keys, k)
			}
			sort.Strings(keys)
			nested := map[string][]string{}
			for _, k := range keys {
				if a, b, ok := strings.Cut(k, "."); ok {
					nested[a] = append(nested[a], b)
				} else {
					fmt.Fprintf(&sb, "%s  %s: %s\n", ind, k, sc.Defs[k])
				}
			}
			for _, a := range []string{"n"} {
				if len(nested[a]) > 0 {
					fmt.Fprintf(&sb, "%s  %s: {\n", ind, a)
					for _, b := range nested[a] {
						fmt.Fprintf(&sb, "%s    %s: %s\n", ind, b, sc.Defs[a+"."+b])
					}
					fmt.Fprintf(&sb, "%s  }\n", ind)
				}
			}
			fmt.Fprintf(&sb, "%s}\n", ind)
		}
		for k, u := range in.Uses {
			if u.Scope != i {
				continue
			}
			var t strings.Builder
			for _, p := range u.Pieces {
				if p.T == "lit" {
					t.WriteString(p.V)
					continue
				}
				if v, ok := in.resolve(u.Scope, p.V); ok && twin && u.Quote != "single" {
					t.WriteString(v)
				} else {
					t.WriteString("${" + p.V + "}")
				}
			}
			text := t.String()
			switch u.Quote {
			case "double":
				text = "\"" + text + "\""
			case "single":
				text = "'" + text + "'"
			}
			switch u.Site {
			case "label":
				fmt.Fprintf(&sb, "%su%d: %s\n", ind, k, text)
			case "tooltip":
				fmt.Fprintf(&sb, "%su%d.tooltip: %s\n", ind, k, text)
			case "edge":
				fmt.Fprintf(&sb, "%su%d -> u%d: %s\n", ind, k, k, text)
			}
		}
		var layers, scenarios []int
		for j := i + 1; j <= len(in.Scopes); j++ {
			if in.Scopes[j-1].Parent != i {
				continue
			}
			switch in.Scopes[j-1].Kind {
			case "container":
				fmt.Fprintf(&sb, "%sc%d: {\n", ind, j)
				body(j, ind+"  ")
				fmt.Fprintf(&sb, "%s}\n", ind)
			case "layer":
				layers = append(layers, j)
			case "scenario":
				scenarios = append(scenarios, j)
			}
		}
		for _, grp := range []struct {
			kw string
			js []int
		}{{"layers", layers}, {"scenarios", scenarios}} {
			if len(grp.js) == 0 {
				continue
			}
			fmt.Fprintf(&sb, "%s%s: {\n", ind, grp.kw)
			for _, j := range grp.js {
				fmt.Fprintf(&sb, "%s  b%d: {\n", ind, j)
				body(j, ind+"    ")
				fmt.Fprintf(&sb, "%s  }\n", ind)
			}
			fmt.Fprintf(&sb, "%s}\n", ind)
		}
	}
	body(1, "")
	return sb.String()
}

// where a use site is found: board path and the absolute ID of its object
func (in varsInput) locate(k int) (board []string, abs string) {
	var cont []string
	for i := in.Uses[k].Scope; i > 0; i = in.Scopes[i-1].Parent {
		sc := in.Scopes[i-1]
		switch sc.Kind {
		case "container":
			cont = append([]string{fmt.Sprintf("c%d", i)}, cont...)
		case "layer":
			board = append([]string{"layers", fmt.Sprintf("b%d", i)}, board...)
		case "scenario":
			board = append([]string{"scenarios", fmt.Sprintf("b%d", i)}, board...)
		}
		if sc.Kind == "layer" || sc.Kind == "scenario" {
			// containers collected so far are inside this board; anything further out belongs to outer boards
			for j := sc.Parent; j > 0; j = in.Scopes[j-1].Parent {
				if in.Scopes[j-1].Kind == "layer" {
					board = append([]string{"layers", fmt.Sprintf("b%d", j)}, board...)
				}
			}
			break
		}
	}
	return board, strings.Join(append(cont, fmt.Sprintf("u%d", k)), ".")
}

func varsObserve(in varsInput, text string) (got []string, errMsg string, panicked bool) {
	defer func() {
		if p := recover(); p != nil {
			panicked, errMsg = true, firstN(fmt.Sprint(p), 200)
		}
	}()
	g, _, err := d2compiler.Compile("v.d2", strings.NewReader(text), nil)
	if err != nil {
		return nil, firstN(err.Error(), 300), false
	}
	boards := proj.Boards(g)
	for k, u := range in.Uses {
		bp, abs := in.locate(k)
		val := "~site-not-found~"
		for _, b := range boards {
			if strings.Join(b.Path, "/") != strings.Join(bp, "/") {
				continue
			}
			for _, o := range b.Objs {
				if o.Key == strings.ToLower(abs) {
					switch u.Site {
					case "label":
						val = o.Label
					case "tooltip":
						val = o.Attrs["tooltip"]
					}
				}
			}
			if u.Site == "edge" {
				for _, e := range b.Edges {
					if e.Src == strings.ToLower(abs) && e.Dst == e.Src {
						val = e.Label
					}
				}
			}
		}
		got = append(got, val)
	}
	return got, "", false
}

func driveVars(c *Ctx) error {
	var inputs []varsInput
	if c.Replay != nil {
		var in varsInput
		if err := json.Unmarshal(c.Replay, &in); err != nil {
			return err
		}
		if len(in.Scopes) == 0 {
			in = genVars(in.Seed)
		}
		inputs = []varsInput{in}
	} else {
		n, space := 1500, 12000
		fmt.Sscanf(c.Args["n"], "%d", &n)
		lo, hi := 0, space
		if !c.Thorough() {
			lo = int((c.Seed*7919)%int64(space/n)) * n
			hi = lo + n
		}
		for i := lo; i < hi; i++ {
			inputs = append(inputs, genVars(int64(i)+1))
		}
	}
	for _, in := range inputs {
		text := in.render(false)
		got, msg, pan := varsObserve(in, text)
		twin, tmsg, _ := varsObserve(in, in.render(true))
		scopes := []tr.M{}
		for _, s := range in.Scopes {
			d := tr.M{}
			for k, v := range s.Defs {
				d[k] = v
			}
			scopes = append(scopes, tr.M{"parent": s.Parent, "defs": d})
		}
		uses := []tr.M{}
		rescued := 0
		for k, u := range in.Uses {
			ps := []tr.M{}
			for _, p := range u.Pieces {
				ps = append(ps, tr.M{"t": p.T, "v": p.V})
			}
			// is the use inherited by a scenario that redefines one of the names it refers to?
			// (the scenario compiles the same AST string again with its own vars)
			reres := 0
			for j, sc := range in.Scopes {
				if sc.Kind != "scenario" {
					continue
				}
				inherited := false
				for a := sc.Parent; a > 0; a = in.Scopes[a-1].Parent {
					if a == u.Scope {
						inherited = true
					}
				}
				_ = j
				if !inherited && u.Scope != sc.Parent {
					// scenarios inherit the whole base board: every use of the file scope and of its containers
					for a := u.Scope; a > 0; a = in.Scopes[a-1].Parent {
						if a == sc.Parent {
							inherited = true
						}
						if k := in.Scopes[a-1].Kind; k == "layer" || k == "scenario" {
							break
						}
					}
				}
				if inherited {
					for _, p := range u.Pieces {
						if _, ok := sc.Defs[p.V]; ok && p.T == "var" {
							reres = 1
						}
					}
				}
			}
			if reres == 1 && u.Quote != "single" {
				for _, p := range u.Pieces {
					if _, ok := in.resolve(u.Scope, p.V); !ok && p.T == "var" {
						rescued = 1 // undefined where it is written, defined in a scenario that inherits the declaration
					}
				}
			}
			m := tr.M{"scope": u.Scope, "site": u.Site, "quote": u.Quote, "pieces": ps, "got": "", "twin": "", "reresolved": reres}
			if k < len(got) {
				m["got"] = got[k]
			}
			if k < len(twin) {
				m["twin"] = twin[k]
			}
			uses = append(uses, m)
		}
		ev := tr.M{"ev": "prog", "names": append(append([]string{}, varNames...), "nope"), "scopes": scopes, "uses": uses, "err": tr.B(msg != "" && !pan), "panic": tr.B(pan), "msg": msg,
			"errNamesVar": tr.B(namesUnresolved(in, msg)), "twinErr": tr.B(tmsg != ""), "text": firstN(text, 700), "rescued": rescued}
		c.W.Add(tr.M{"seed": in.Seed}, []tr.M{ev}, "C13")
		c.W.Sample("C13", tr.M{"seed": in.Seed, "program": firstN(text, 500)})
	}
	return nil
}

// namesUnresolved: does the error message name a variable that some use site cannot resolve?
func namesUnresolved(in varsInput, msg string) bool {
	for _, u := range in.Uses {
		if u.Quote == "single" {
			continue
		}
		for _, p := range u.Pieces {
			if p.T == "var" {
				if _, ok := in.resolve(u.Scope, p.V); !ok && strings.Contains(msg, "\""+p.V+"\"") {
					return true
				}
			}
		}
	}
	return false
}
