package main

import (
	"bytes"
	"compress/zlib"
	"context"
	"encoding/base64"
	"encoding/binary"
	"encoding/json"
	"encoding/xml"
	"fmt"
	"io"
	"math/rand"
	"regexp"
	"sort"
	"strings"

	"oss.terrastruct.com/d2/d2graph"
	"oss.terrastruct.com/d2/d2layouts/d2dagrelayout"
	"oss.terrastruct.com/d2/d2lib"
	"oss.terrastruct.com/d2/d2renderers/d2fonts"
	"oss.terrastruct.com/d2/d2renderers/d2svg"

	"verifharness/internal/tr"
)

// Family fonts (C47): diagrams whose labels, connection and arrowhead labels, class and table fields, code and
// markdown use text from many Unicode blocks, with text transforms and themes, are rendered by the real
// pipeline; every embedded WOFF font is decoded (WOFF 1: zlib per table) and its character map read, and the
// characters the SVG draws in that font are collected from the SVG itself. TraceD2Fonts.tla holds the property.

type fontsInput struct {
	Seed int64  `json:"seed"`
	Text string `json:"text,omitempty"`
}

func init() { register("fonts", driveFonts) }

var fontWords = []string{"Hello", "naïve café", "Zürich Straße", "ÅÄÖ åäö", "Ελληνικά", "Кириллица", "łódź ŻÓŁW", "ǅ ǆ ǈ", "ﬁ ﬂ ligature", "€ £ ¥ ¢", "→ ← ↔ ⇒", "± × ÷ ≠ ≤ ≥", "“quoted” ‘single’", "dash – — …",
	"ß ẞ", "ı İ i I", "ŉ ǰ", "Ω µ π", "½ ¼ ¾", "© ® ™", "日本語", "😀", "x²", "á", "ﬆ", "ǉ", "Ǳ ǲ ǳ", "tab\there", "UPPER lower MiXeD", "0123456789", "~!@#%^&*()_+", "ÿ Ÿ", "ǎ Ǎ", "ṡ Ṡ", "ӕ Ӕ", "ә Ә"}

func genFontsText(seed int64) string {
	r := rand.New(rand.NewSource(seed*2711 + 17))
	w := func() string {
		s := fontWords[r.Intn(len(fontWords))]
		if r.Intn(3) == 0 {
			s += " " + fontWords[r.Intn(len(fontWords))]
		}
		return "\"" + strings.ReplaceAll(strings.ReplaceAll(s, "\\", "\\\\"), "\"", "\\\"") + "\""
	}
	raw := func() string { return fontWords[r.Intn(len(fontWords))] }
	var sb strings.Builder
	n := 1 + r.Intn(4)
	for i := 0; i < n; i++ {
		fmt.Fprintf(&sb, "o%d: %s {\n", i, w())
		switch r.Intn(7) {
		case 0:
			fmt.Fprintf(&sb, "  style.text-transform: %s\n", []string{"uppercase", "lowercase", "capitalize"}[r.Intn(3)])
		case 1:
			sb.WriteString("  style.bold: true\n")
		case 2:
			sb.WriteString("  style.italic: true\n")
		case 3:
			sb.WriteString("  style.font: mono\n")
		case 4:
			fmt.Fprintf(&sb, "  tooltip: %s\n", w())
		}
		if r.Intn(4) == 0 {
			fmt.Fprintf(&sb, "  style.text-transform: %s\n", []string{"uppercase", "lowercase", "capitalize"}[r.Intn(3)])
		}
		sb.WriteString("}\n")
	}
	if r.Intn(2) == 0 {
		fmt.Fprintf(&sb, "o0 -> o%d: %s {\n", r.Intn(n), w())
		if r.Intn(2) == 0 {
			fmt.Fprintf(&sb, "  source-arrowhead.label: %s\n", w())
		}
		if r.Intn(2) == 0 {
			fmt.Fprintf(&sb, "  target-arrowhead.label: %s\n", w())
		}
		if r.Intn(3) == 0 {
			fmt.Fprintf(&sb, "  style.text-transform: %s\n", []string{"uppercase", "lowercase", "capitalize"}[r.Intn(3)])
		}
		if r.Intn(3) == 0 {
			sb.WriteString("  style.italic: true\n")
		}
		sb.WriteString("}\n")
	}
	switch r.Intn(5) {
	case 0:
		fmt.Fprintf(&sb, "cls: %s {\n  shape: class\n  +%s: %s\n  -%s(): %s\n}\n", w(), w(), w(), w(), w())
	case 1:
		fmt.Fprintf(&sb, "tbl: %s {\n  shape: sql_table\n  %s: %s {constraint: primary_key}\n  %s: int\n}\n", w(), w(), w(), w())
	case 2:
		fmt.Fprintf(&sb, "cd: |go\n  // %s\n  x := \"%s\"\n|\n", raw(), strings.ReplaceAll(raw(), "\"", ""))
	case 3:
		fmt.Fprintf(&sb, "md: |md\n  # %s\n  plain %s, *em %s*, **strong %s**, `code %s`\n|\n", raw(), raw(), raw(), raw(), strings.ReplaceAll(raw(), "`", ""))
	}
	return sb.String()
}

// ---- WOFF 1 -> sfnt tables -> cmap

func woffTables(b []byte) (map[string][]byte, error) {
	if len(b) < 44 || string(b[:4]) != "wOFF" {
		return nil, fmt.Errorf("not a WOFF 1 file (%q)", b[:min(4, len(b))])
	}
	n := int(binary.BigEndian.Uint16(b[12:14]))
	tables := map[string][]byte{}
	for i := 0; i < n; i++ {
		e := b[44+20*i:]
		if len(e) < 20 {
			return nil, fmt.Errorf("truncated table directory")
		}
		tag := string(e[:4])
		off, cl, ol := int(binary.BigEndian.Uint32(e[4:8])), int(binary.BigEndian.Uint32(e[8:12])), int(binary.BigEndian.Uint32(e[12:16]))
		if off+cl > len(b) {
			return nil, fmt.Errorf("table %s outside the file", tag)
		}
		data := b[off : off+cl]
		if cl != ol {
			zr, err := zlib.NewReader(bytes.NewReader(data))
			if err != nil {
				return nil, fmt.Errorf("table %s: %v", tag, err)
			}
			d, err := io.ReadAll(zr)
			if err != nil {
				return nil, fmt.Errorf("table %s: %v", tag, err)
			}
			data = d
		}
		tables[tag] = data
	}
	return tables, nil
}

func sfntTables(b []byte) (map[string][]byte, error) {
	if len(b) < 12 {
		return nil, fmt.Errorf("short font")
	}
	n := int(binary.BigEndian.Uint16(b[4:6]))
	tables := map[string][]byte{}
	for i := 0; i < n; i++ {
		e := b[12+16*i:]
		if len(e) < 16 {
			return nil, fmt.Errorf("truncated table directory")
		}
		off, ln := int(binary.BigEndian.Uint32(e[8:12])), int(binary.BigEndian.Uint32(e[12:16]))
		if off+ln > len(b) {
			return nil, fmt.Errorf("table outside the file")
		}
		tables[string(e[:4])] = b[off : off+ln]
	}
	return tables, nil
}

// cmapLookup returns a function code point -> glyph index (0: no glyph), reading formats 4, 6 and 12
func cmapLookup(cmap []byte) (func(rune) int, error) {
	if len(cmap) < 4 {
		return nil, fmt.Errorf("short cmap")
	}
	n := int(binary.BigEndian.Uint16(cmap[2:4]))
	var subs [][]byte
	for i := 0; i < n; i++ {
		e := cmap[4+8*i:]
		if len(e) < 8 {
			break
		}
		off := int(binary.BigEndian.Uint32(e[4:8]))
		if off < len(cmap) {
			subs = append(subs, cmap[off:])
		}
	}
	if len(subs) == 0 {
		return nil, fmt.Errorf("cmap without subtables")
	}
	look := func(t []byte, r rune) int {
		if len(t) < 6 {
			return 0
		}
		switch binary.BigEndian.Uint16(t[:2]) {
		case 4:
			segX2 := int(binary.BigEndian.Uint16(t[6:8]))
			ends, starts, deltas, ranges := t[14:], t[16+segX2:], t[16+2*segX2:], t[16+3*segX2:]
			if r > 0xFFFF || len(ranges) < segX2 {
				return 0
			}
			for i := 0; i < segX2/2; i++ {
				end, start := rune(binary.BigEndian.Uint16(ends[2*i:])), rune(binary.BigEndian.Uint16(starts[2*i:]))
				if r > end {
					continue
				}
				if r < start {
					return 0
				}
				delta, ro := int(int16(binary.BigEndian.Uint16(deltas[2*i:]))), int(binary.BigEndian.Uint16(ranges[2*i:]))
				if ro == 0 {
					return (int(r) + delta) & 0xFFFF
				}
				p := 2*i + ro + 2*int(r-start)
				if p+2 > len(ranges) {
					return 0
				}
				g := int(binary.BigEndian.Uint16(ranges[p:]))
				if g == 0 {
					return 0
				}
				return (g + delta) & 0xFFFF
			}
		case 6:
			first, cnt := rune(binary.BigEndian.Uint16(t[6:8])), int(binary.BigEndian.Uint16(t[8:10]))
			if r >= first && int(r-first) < cnt && 10+2*int(r-first)+2 <= len(t) {
				return int(binary.BigEndian.Uint16(t[10+2*int(r-first):]))
			}
		case 12:
			if len(t) < 16 {
				return 0
			}
			ng := int(binary.BigEndian.Uint32(t[12:16]))
			for i := 0; i < ng && 16+12*i+12 <= len(t); i++ {
				g := t[16+12*i:]
				s, e, gid := rune(binary.BigEndian.Uint32(g[:4])), rune(binary.BigEndian.Uint32(g[4:8])), int(binary.BigEndian.Uint32(g[8:12]))
				if r >= s && r <= e {
					return gid + int(r-s)
				}
			}
		}
		return 0
	}
	return func(r rune) int {
		for _, t := range subs {
			if g := look(t, r); g != 0 {
				return g
			}
		}
		return 0
	}, nil
}

var reFontFace = regexp.MustCompile(`@font-face\s*\{\s*font-family:\s*d2-\d+-font-([a-z-]+);\s*src:\s*url\("data:application/font-woff;base64,([A-Za-z0-9+/=]+)"\)`)

var fontOfStyle = map[string]d2fonts.Font{
	"regular":     d2fonts.SourceSansPro.Font(0, d2fonts.FONT_STYLE_REGULAR),
	"bold":        d2fonts.SourceSansPro.Font(0, d2fonts.FONT_STYLE_BOLD),
	"semibold":    d2fonts.SourceSansPro.Font(0, d2fonts.FONT_STYLE_SEMIBOLD),
	"italic":      d2fonts.SourceSansPro.Font(0, d2fonts.FONT_STYLE_ITALIC),
	"mono":        d2fonts.SourceCodePro.Font(0, d2fonts.FONT_STYLE_REGULAR),
	"mono-bold":   d2fonts.SourceCodePro.Font(0, d2fonts.FONT_STYLE_BOLD),
	"mono-italic": d2fonts.SourceCodePro.Font(0, d2fonts.FONT_STYLE_ITALIC),
}

// drawnByStyle walks the SVG: text of <text> elements goes to the font of their class (inherited by tspans),
// markdown inside foreignObject to regular, and to bold / italic / semibold / mono inside strong, em, headings, code
func drawnByStyle(svg []byte) (map[string]map[rune]bool, error) {
	res := map[string]map[rune]bool{}
	add := func(style, s string) {
		if res[style] == nil {
			res[style] = map[rune]bool{}
		}
		for _, r := range s {
			if r != '\n' && r != '\r' && r != '\t' {
				res[style][r] = true
			}
		}
	}
	dec := xml.NewDecoder(bytes.NewReader(svg))
	dec.Strict = false
	dec.AutoClose = xml.HTMLAutoClose
	dec.Entity = xml.HTMLEntity
	type frame struct{ style string }
	var stack []frame
	cur := func() string {
		if len(stack) == 0 {
			return ""
		}
		return stack[len(stack)-1].style
	}
	for {
		tok, err := dec.Token()
		if err == io.EOF {
			break
		}
		if err != nil {
			return res, err
		}
		switch t := tok.(type) {
		case xml.StartElement:
			st := cur()
			cls := ""
			for _, a := range t.Attr {
				if a.Name.Local == "class" {
					cls = " " + a.Value + " "
				}
			}
			switch t.Name.Local {
			case "text":
				st = ""
				for _, c := range []string{"text-mono-bold", "text-mono-italic", "text-mono", "text-bold", "text-italic", "text"} {
					if strings.Contains(cls, " "+c+" ") {
						st = strings.TrimPrefix(strings.TrimPrefix(c, "text-"), "text")
						if st == "" {
							st = "regular"
						}
						break
					}
				}
			case "foreignObject":
				st = "md"
			case "style", "script", "defs":
				st = ""
			case "strong", "b", "th":
				if strings.HasPrefix(st, "md") {
					st = "md-bold"
				}
			case "em", "i":
				if strings.HasPrefix(st, "md") {
					st = "md-italic"
				}
			case "h1", "h2", "h3", "h4", "h5", "h6":
				if strings.HasPrefix(st, "md") {
					st = "md-semibold"
				}
			case "code", "pre", "kbd":
				if strings.HasPrefix(st, "md") {
					st = "md-mono"
				}
			}
			stack = append(stack, frame{st})
		case xml.EndElement:
			if len(stack) > 0 {
				stack = stack[:len(stack)-1]
			}
		case xml.CharData:
			switch st := cur(); {
			case st == "":
			case st == "md":
				add("regular", string(t))
			case strings.HasPrefix(st, "md-"):
				add(strings.TrimPrefix(st, "md-"), string(t))
			default:
				add(st, string(t))
			}
		}
	}
	return res, nil
}

func driveFonts(c *Ctx) error {
	var inputs []fontsInput
	if c.Replay != nil {
		var in fontsInput
		if err := json.Unmarshal(c.Replay, &in); err != nil {
			return err
		}
		inputs = []fontsInput{in}
	} else {
		n, space := 150, 1200
		fmt.Sscanf(c.Args["n"], "%d", &n)
		lo, hi := 0, space
		if !c.Thorough() {
			lo = int((c.Seed*7919)%int64(space/n)) * n
			hi = lo + n
		}
		for i := lo; i < hi; i++ {
			inputs = append(inputs, fontsInput{Seed: int64(i) + 1})
		}
	}
	fullCmap := map[string]func(rune) int{}
	for st, f := range fontOfStyle {
		if tb, err := sfntTables(d2fonts.FontFaces.Get(f)); err == nil {
			if lk, err := cmapLookup(tb["cmap"]); err == nil {
				fullCmap[st] = lk
			}
		}
	}
	for _, in := range inputs {
		text := in.Text
		if text == "" {
			text = genFontsText(in.Seed)
		}
		rev := tr.M{"ev": "render", "text": firstN(text, 600), "err": 0, "panic": 0, "msg": "", "styles": []tr.M{}}
		var evs []tr.M
		func() {
			defer func() {
				if p := recover(); p != nil {
					rev["panic"], rev["msg"] = 1, firstN(fmt.Sprint(p), 200)
				}
			}()
			themeID := []int64{0, 1, 3, 5, 100, 200, 300}[int(in.Seed)%7]
			ro := &d2svg.RenderOpts{ThemeID: &themeID}
			d, _, err := d2lib.Compile(quietCtx(), text, &d2lib.CompileOptions{Ruler: ruler(), LayoutResolver: func(string) (d2graph.LayoutGraph, error) {
				return func(ctx context.Context, g *d2graph.Graph) error { return d2dagrelayout.DefaultLayout(ctx, g) }, nil
			}}, ro)
			if err != nil {
				rev["err"], rev["msg"] = 1, firstN(err.Error(), 200)
				return
			}
			svg, err := d2svg.Render(d, ro)
			if err != nil {
				rev["err"], rev["msg"] = 1, firstN(err.Error(), 200)
				return
			}
			drawn, _ := drawnByStyle(svg)
			embedded := map[string]bool{}
			for _, m := range reFontFace.FindAllSubmatch(svg, -1) {
				st := string(m[1])
				embedded[st] = true
				fe := tr.M{"ev": "font", "style": st, "decoded": 0, "msg": "", "drawn": []int{}, "inSubset": []int{}, "inFull": []int{}, "text": firstN(text, 400)}
				raw, err := base64.StdEncoding.DecodeString(string(m[2]))
				var lk func(rune) int
				if err == nil {
					var tb map[string][]byte
					if tb, err = woffTables(raw); err == nil {
						lk, err = cmapLookup(tb["cmap"])
					}
				}
				if err != nil {
					fe["msg"] = firstN(err.Error(), 160)
					evs = append(evs, fe)
					continue
				}
				fe["decoded"] = 1
				var dr, is, ifu []int
				for r := range drawn[st] {
					dr = append(dr, int(r))
					if lk(r) != 0 {
						is = append(is, int(r))
					}
					if f := fullCmap[st]; f != nil && f(r) != 0 {
						ifu = append(ifu, int(r))
					}
				}
				sort.Ints(dr)
				sort.Ints(is)
				sort.Ints(ifu)
				fe["drawn"], fe["inSubset"], fe["inFull"] = nzi(dr), nzi(is), nzi(ifu)
				evs = append(evs, fe)
			}
			styles := []tr.M{}
			for st, set := range drawn {
				// only characters the full font has count as "drawn in that font"
				n := 0
				for r := range set {
					if f := fullCmap[st]; f != nil && f(r) != 0 && r != ' ' && r != 0xA0 {
						n++
					}
				}
				styles = append(styles, tr.M{"style": st, "ndrawn": n, "embedded": tr.B(embedded[st])})
			}
			sort.Slice(styles, func(i, j int) bool { return styles[i]["style"].(string) < styles[j]["style"].(string) })
			rev["styles"] = styles
		}()
		evs = append([]tr.M{rev}, evs...)
		c.W.Add(in, evs, "C47")
		c.W.Sample("C47", tr.M{"seed": in.Seed, "text": firstN(text, 300)})
	}
	return nil
}

func nzi(a []int) []int {
	if a == nil {
		return []int{}
	}
	return a
}
