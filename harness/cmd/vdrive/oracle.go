package main

import (
	"encoding/json"
	"fmt"
	"math/rand"
	"sort"
	"strings"

	"oss.terrastruct.com/d2/d2compiler"
	"oss.terrastruct.com/d2/d2format"
	"oss.terrastruct.com/d2/d2graph"
	"oss.terrastruct.com/d2/d2oracle"
	"oss.terrastruct.com/d2/d2parser"

	"verifharness/internal/proj"
	"verifharness/internal/tr"
)

// Family oracle (C36-C41): edit histories through the public d2oracle API on generated diagrams in
// which every object carries a unique tooltip (T<n>) and every connection a unique label (E<n>), so
// that elements can be followed across renames and moves. After each edit the driver logs the
// identity-keyed snapshots before and after, the predicted ID deltas, and whether the resulting text
// compiles to the returned graph and is formatter-stable. TraceD2Oracle.tla holds the properties.

type oracleInput struct {
	Seed   int64 `json:"seed"`
	Edits  int   `json:"edits"`
	Boards bool  `json:"boards,omitempty"`
}

func init() { register("oracle", driveOracle) }

type snapObj struct {
	Lab    string     `json:"lab"`
	ID     string     `json:"id"`
	Name   string     `json:"name"`
	Parent string     `json:"parent"`
	Label  string     `json:"label"`
	Shape  string     `json:"shape"`
	Attrs  [][]string `json:"attrs"`
}
type snapEdge struct {
	Lab   string     `json:"lab"`
	ID    string     `json:"id"`
	Src   string     `json:"src"`
	Dst   string     `json:"dst"`
	SA    int        `json:"sa"`
	DA    int        `json:"da"`
	Idx   int        `json:"idx"`
	Attrs [][]string `json:"attrs"`
}
type snap struct {
	Objs  []snapObj  `json:"objs"`
	Edges []snapEdge `json:"edges"`
}

func labOf(o *d2graph.Object) string {
	if o.Tooltip != nil && strings.HasPrefix(o.Tooltip.Value, "T") {
		return o.Tooltip.Value
	}
	return "id:" + strings.ToLower(o.AbsID())
}

func snapshot2(g *d2graph.Graph) snap {
	s := snap{Objs: []snapObj{}, Edges: []snapEdge{}}
	b := proj.Graph(g, nil)
	for i, o := range g.Objects {
		par := ""
		if o.Parent != nil && o.Parent != g.Root {
			par = labOf(o.Parent)
		}
		attrs := map[string]string{}
		for k, v := range b.Objs[i].Attrs {
			if k != "tooltip" {
				attrs[k] = v
			}
		}
		s.Objs = append(s.Objs, snapObj{Lab: labOf(o), ID: o.AbsID(), Name: o.IDVal, Parent: par, Label: o.Label.Value, Shape: o.Shape.Value, Attrs: kvPairs(attrs)})
	}
	seenE := map[string]int{}
	for i, e := range g.Edges {
		lab := e.Label.Value
		if !strings.HasPrefix(lab, "E") {
			lab = "id:" + strings.ToLower(e.AbsID())
		}
		seenE[lab]++
		if seenE[lab] > 1 {
			lab = fmt.Sprintf("%s#%d", lab, seenE[lab])
		}
		s.Edges = append(s.Edges, snapEdge{Lab: lab, ID: e.AbsID(), Src: labOf(e.Src), Dst: labOf(e.Dst), SA: tr.B(e.SrcArrow), DA: tr.B(e.DstArrow), Idx: e.Index, Attrs: kvPairs(b.Edges[i].Attrs)})
	}
	return s
}

// boardDigests lists every board with its digest and its relation to the addressed board:
// "self", "inherits" (a board nested in it, or a later step of the same parent), "other".
func boardDigests(g *d2graph.Graph, bp []string) [][]string {
	res := [][]string{}
	for _, b := range proj.Boards(g) {
		names := []string{}
		for i := 1; i < len(b.Path); i += 2 {
			names = append(names, b.Path[i])
		}
		rel := "other"
		switch {
		case len(names) == len(bp) && strings.Join(names, "/") == strings.Join(bp, "/"):
			rel = "self"
		case len(names) > len(bp) && strings.Join(names[:len(bp)], "/") == strings.Join(bp, "/"):
			rel = "inherits"
		case len(bp) > 0 && len(names) == len(bp) && strings.Join(names[:len(bp)-1], "/") == strings.Join(bp[:len(bp)-1], "/") && len(b.Path) >= 2 && b.Path[len(b.Path)-2] == "steps":
			rel = "inherits" // a sibling step: later steps include the earlier ones
		case len(bp) > 0 && len(names) > len(bp) && strings.Join(names[:len(bp)-1], "/") == strings.Join(bp[:len(bp)-1], "/") && len(b.Path) >= 2*len(bp) && b.Path[2*len(bp)-2] == "steps":
			rel = "inherits"
		}
		res = append(res, []string{strings.Join(b.Path, "/"), proj.Digest([]proj.Board{b}), rel})
	}
	return res
}

var oracleValues = []string{"plain", "two words", "null", "NULL", "true", "suspend", "a.b", "x -> y", "quo\"te", "it's", "42", "0.5", "", " lead", "ünï", "#hash", "semi;colon", "{brace}", "$dollar", "${x}", "a: b", "|pipe|", "*", "&amp;", "layers", "shape"}
var oracleShapes = []string{"circle", "oval", "diamond", "hexagon", "cloud", "rectangle"}

func oracleProgram(r *rand.Rand, boards bool) string {
	var sb strings.Builder
	n := 2 + r.Intn(6)
	ids := []string{}
	tcount := 0
	var rec func(prefix, ind string, depth int, budget *int)
	rec = func(prefix, ind string, depth int, budget *int) {
		names := []string{"a", "b", "c", "d", "e", "f"}
		r.Shuffle(len(names), func(i, j int) { names[i], names[j] = names[j], names[i] })
		k := 1 + r.Intn(3)
		for i := 0; i < k && *budget > 0; i++ {
			*budget--
			tcount++
			id := names[i]
			if prefix != "" {
				id = prefix + "." + names[i]
			}
			ids = append(ids, id)
			fmt.Fprintf(&sb, "%s%s: ", ind, names[i])
			if r.Intn(2) == 0 {
				fmt.Fprintf(&sb, "lbl%d ", tcount)
			}
			fmt.Fprintf(&sb, "{\n%s  tooltip: T%d\n", ind, tcount)
			if r.Intn(3) == 0 {
				fmt.Fprintf(&sb, "%s  shape: %s\n", ind, oracleShapes[r.Intn(len(oracleShapes))])
			}
			if r.Intn(3) == 0 {
				fmt.Fprintf(&sb, "%s  style.opacity: 0.%d\n", ind, 1+r.Intn(9))
			}
			if r.Intn(4) == 0 {
				fmt.Fprintf(&sb, "%s  width: %d\n", ind, 50+r.Intn(200))
			}
			if r.Intn(5) == 0 {
				fmt.Fprintf(&sb, "%s  link: https://example.com/%d\n", ind, tcount)
			}
			if r.Intn(5) == 0 {
				fmt.Fprintf(&sb, "%s  style.stroke: blue\n", ind)
			}
			if depth < 3 && *budget > 0 && r.Intn(3) == 0 {
				rec(id, ind+"  ", depth+1, budget)
			}
			fmt.Fprintf(&sb, "%s}\n", ind)
		}
	}
	budget := n
	rec("", "", 1, &budget)
	ne := r.Intn(5)
	for i := 0; i < ne && len(ids) > 0; i++ {
		a, b := ids[r.Intn(len(ids))], ids[r.Intn(len(ids))]
		if strings.HasPrefix(a, b+".") || strings.HasPrefix(b, a+".") {
			continue
		}
		arrows := []string{"->", "->", "<-", "--", "<->"}
		fmt.Fprintf(&sb, "%s %s %s: E%d", a, arrows[r.Intn(len(arrows))], b, i+1)
		if r.Intn(3) == 0 {
			fmt.Fprintf(&sb, " {style.stroke: red}")
		}
		sb.WriteString("\n")
	}
	if boards {
		sb.WriteString("layers: {\n  l1: {\n    p: {tooltip: T91}\n    q: {tooltip: T92}\n    p -> q: E91\n  }\n  l2: {\n    r: {tooltip: T93}\n  }\n}\n")
		sb.WriteString("scenarios: {\n  s1: {\n    u: {tooltip: T94}\n    steps: {\n      1: {v: {tooltip: T95}}\n      2: {w: {tooltip: T96}}\n    }\n  }\n  s2: {\n    z: {tooltip: T97}\n  }\n}\n")
	}
	return sb.String()
}

func driveOracle(c *Ctx) error {
	var inputs []oracleInput
	if c.Replay != nil {
		var in oracleInput
		if err := json.Unmarshal(c.Replay, &in); err != nil {
			return err
		}
		inputs = []oracleInput{in}
	} else {
		n, space := 250, 3000
		fmt.Sscanf(c.Args["n"], "%d", &n)
		boards := c.Args["boards"] == "1"
		lo, hi := 0, space
		if !c.Thorough() {
			lo = int((c.Seed*7919)%int64(space/n)) * n
			hi = lo + n
		}
		for i := lo; i < hi; i++ {
			inputs = append(inputs, oracleInput{Seed: int64(i) + 1, Edits: 1 + i%8, Boards: boards})
		}
	}
	for _, in := range inputs {
		evs, nt := oracleRun(in)
		c.W.Add(in, evs, nt...)
		for _, p := range nt {
			c.W.Sample(p, tr.M{"seed": in.Seed, "program": firstN(evs[0]["text"].(string), 400), "ops": opsList(evs)})
		}
	}
	return nil
}

func opsList(evs []tr.M) []string {
	var r []string
	for _, e := range evs {
		if e["ev"] == "edit" {
			r = append(r, fmt.Sprint(e["op"], " ", e["key"], " ", e["arg"]))
		}
	}
	return r
}

func oracleRun(in oracleInput) (evs []tr.M, nt []string) {
	r := rand.New(rand.NewSource(in.Seed*977 + 5))
	text := oracleProgram(r, in.Boards)
	g, _, err := d2compiler.Compile("o.d2", strings.NewReader(text), nil)
	evs = append(evs, tr.M{"ev": "init", "text": text, "ok": tr.B(err == nil)})
	if err != nil {
		evs[0]["msg"] = firstN(err.Error(), 200)
		return evs, nil
	}
	ntset := map[string]bool{}
	curText := text
	fresh := 0
	boardPaths := [][]string{nil}
	if in.Boards {
		boardPaths = [][]string{nil, {"l1"}, {"l2"}, {"s1"}, {"s1", "1"}, {"s1", "2"}, {"s2"}}
	}
	for step := 0; step < in.Edits; step++ {
		bp := boardPaths[r.Intn(len(boardPaths))]
		bg := d2oracle.GetBoardGraph(g, bp)
		if bg == nil {
			break
		}
		before := snapshot2(bg)
		digBefore := boardDigests(g, bp)
		ev := tr.M{"ev": "edit", "board": nz2(bp), "before": before, "op": "", "key": "", "arg": "", "arg2": "", "flag": 0, "ok": 0, "err": "", "newKey": "", "target": "", "tag": "", "deltas": [][]string{}, "hasDeltas": 0,
			"compiles": 0, "sameAsReturned": 0, "fmtFixed": 0, "targetInBase": 0}
		var g2 *d2graph.Graph
		var eerr error
		pickObj := func() *snapObj {
			if len(before.Objs) == 0 {
				return nil
			}
			return &before.Objs[r.Intn(len(before.Objs))]
		}
		pickEdge := func() *snapEdge {
			if len(before.Edges) == 0 {
				return nil
			}
			return &before.Edges[r.Intn(len(before.Edges))]
		}
		op := []string{"create", "create-edge", "set-label", "set-style", "set-shape", "delete", "delete-edge", "delete-attr", "rename", "move", "move", "reconnect", "set-edge"}[r.Intn(13)]
		func() {
			defer func() {
				if p := recover(); p != nil {
					ev["op"] = op
					ev["err"] = "PANIC: " + firstN(fmt.Sprint(p), 160)
					ev["panic"] = 1
				}
			}()
			switch op {
			case "create":
				fresh++
				key := fmt.Sprintf("n%d", fresh)
				if o := pickObj(); o != nil && r.Intn(2) == 0 {
					key = o.ID + "." + key
				} else if r.Intn(4) == 0 {
					key = fmt.Sprintf("m%d.%s", fresh, key)
				}
				ev["op"], ev["key"] = "create", key
				var nk string
				g2, nk, eerr = d2oracle.Create(g, bp, key)
				ev["newKey"] = nk
			case "create-edge":
				a, b := pickObj(), pickObj()
				if a == nil || b == nil || strings.HasPrefix(a.ID, b.ID+".") || strings.HasPrefix(b.ID, a.ID+".") {
					return
				}
				key := a.ID + " -> " + b.ID
				ev["op"], ev["key"], ev["arg"], ev["arg2"] = "create-edge", key, a.Lab, b.Lab
				var nk string
				g2, nk, eerr = d2oracle.Create(g, bp, key)
				ev["newKey"] = nk
			case "set-label", "set-style", "set-shape":
				o := pickObj()
				if o == nil {
					return
				}
				var tag *string
				val := oracleValues[r.Intn(len(oracleValues))]
				key := o.ID
				switch op {
				case "set-style":
					key = o.ID + ".style.opacity"
					val = fmt.Sprintf("0.%d", 1+r.Intn(9))
					ev["tag"] = "style.opacity"
				case "set-shape":
					key = o.ID + ".shape"
					val = oracleShapes[r.Intn(len(oracleShapes))]
					ev["tag"] = "shape"
				default:
					ev["tag"] = "label"
				}
				ev["op"], ev["key"], ev["arg"], ev["target"] = op, key, val, o.Lab
				g2, eerr = d2oracle.Set(g, bp, key, tag, &val)
			case "set-edge":
				e := pickEdge()
				if e == nil {
					return
				}
				val := []string{"red", "blue", "\"#00ff00\""}[r.Intn(3)]
				val = strings.Trim(val, "\"")
				ev["op"], ev["key"], ev["arg"], ev["target"], ev["tag"] = op, e.ID+".style.stroke", val, e.Lab, "style.stroke"
				g2, eerr = d2oracle.Set(g, bp, e.ID+".style.stroke", nil, &val)
			case "delete":
				o := pickObj()
				if o == nil {
					return
				}
				ev["op"], ev["key"], ev["target"] = op, o.ID, o.Lab
				if d, err := d2oracle.DeleteIDDeltas(g, bp, o.ID); err == nil {
					ev["deltas"], ev["hasDeltas"] = deltaPairs(d), 1
				}
				g2, eerr = d2oracle.Delete(g, bp, o.ID)
			case "delete-edge":
				e := pickEdge()
				if e == nil {
					return
				}
				ev["op"], ev["key"], ev["target"] = op, e.ID, e.Lab
				if d, err := d2oracle.DeleteIDDeltas(g, bp, e.ID); err == nil {
					ev["deltas"], ev["hasDeltas"] = deltaPairs(d), 1
				}
				g2, eerr = d2oracle.Delete(g, bp, e.ID)
			case "delete-attr":
				o := pickObj()
				if o == nil {
					return
				}
				// the attributes d2oracle.Delete handles: style keywords, width/height, link, near, icon, top/left
				attr := []string{"style.opacity", "width", "link", "style.stroke"}[r.Intn(4)]
				ev["op"], ev["key"], ev["target"], ev["tag"] = op, o.ID+"."+attr, o.Lab, attr
				g2, eerr = d2oracle.Delete(g, bp, o.ID+"."+attr)
			case "rename":
				o := pickObj()
				if o == nil {
					return
				}
				fresh++
				nn := fmt.Sprintf("r%d", fresh)
				if r.Intn(3) == 0 { // collide with a sibling
					for _, s := range before.Objs {
						if s.Parent == o.Parent && s.Lab != o.Lab {
							nn = s.Name
							break
						}
					}
				} else if r.Intn(4) == 0 {
					nn = []string{"x y", "a.b", "null", "1", "ünï"}[r.Intn(5)]
				}
				ev["op"], ev["key"], ev["arg"], ev["target"] = op, o.ID, nn, o.Lab
				if d, err := d2oracle.RenameIDDeltas(g, bp, o.ID, nn); err == nil {
					ev["deltas"], ev["hasDeltas"] = deltaPairs(d), 1
				}
				var nk string
				g2, nk, eerr = d2oracle.Rename(g, bp, o.ID, nn)
				ev["newKey"] = nk
			case "move":
				o := pickObj()
				if o == nil {
					return
				}
				dest := o.Name
				ev["arg2"] = ""
				if c2 := pickObj(); c2 != nil && r.Intn(3) != 0 && c2.ID != o.ID && !strings.HasPrefix(c2.ID, o.ID+".") {
					dest = c2.ID + "." + o.Name
					ev["arg2"] = c2.Lab
				} else if r.Intn(3) == 0 {
					fresh++
					dest = fmt.Sprintf("box%d.%s", fresh, o.Name)
				}
				if dest == o.ID {
					return
				}
				incl := r.Intn(2) == 0
				ev["op"], ev["key"], ev["arg"], ev["flag"], ev["target"] = op, o.ID, dest, tr.B(incl), o.Lab
				if len(bp) == 0 {
					if d, err := d2oracle.MoveIDDeltas(g, o.ID, dest, incl); err == nil {
						ev["deltas"], ev["hasDeltas"] = deltaPairs(d), 1
					}
				}
				g2, eerr = d2oracle.Move(g, bp, o.ID, dest, incl)
			case "reconnect":
				e := pickEdge()
				o := pickObj()
				if e == nil || o == nil {
					return
				}
				var src, dst *string
				if r.Intn(2) == 0 {
					src = &o.ID
					ev["arg"] = o.Lab
				} else {
					dst = &o.ID
					ev["arg2"] = o.Lab
				}
				ev["op"], ev["key"], ev["target"] = op, e.ID, e.Lab
				if d, err := d2oracle.ReconnectEdgeIDDeltas(g, bp, e.ID, src, dst); err == nil {
					ev["deltas"], ev["hasDeltas"] = deltaPairs(d), 1
				}
				g2, eerr = d2oracle.ReconnectEdge(g, bp, e.ID, src, dst)
			}
		}()
		if ev["op"] == "" {
			continue
		}
		// is the element the edit names (or the destination container of a move) inherited from the base board?
		if len(bp) > 0 {
			base := snapshot2(g)
			inBase := map[string]bool{}
			// the boards this one inherits from: the root and every enclosing scenario/step
			for k := 0; k < len(bp); k++ {
				if ag := d2oracle.GetBoardGraph(g, bp[:k]); ag != nil {
					as := snapshot2(ag)
					for _, o := range as.Objs {
						inBase[o.Lab] = true
					}
					for _, e := range as.Edges {
						inBase[e.Lab] = true
					}
					if k > 0 {
						base.Objs = append(base.Objs, as.Objs...)
					}
				}
			}
			t, _ := ev["target"].(string)
			a2, _ := ev["arg2"].(string)
			a1, _ := ev["arg"].(string)
			if inBase[t] || (ev["op"] == "move" && inBase[a2]) || (ev["op"] == "reconnect" && (inBase[a1] || inBase[a2])) || (ev["op"] == "create-edge" && (inBase[a1] || inBase[a2])) {
				ev["targetInBase"] = 1
			}
			if k, _ := ev["key"].(string); ev["op"] == "create" && strings.Contains(k, ".") {
				for _, o := range base.Objs {
					if strings.HasPrefix(strings.ToLower(k), strings.ToLower(o.ID)+".") {
						ev["targetInBase"] = 1
					}
				}
			}
		}
		if eerr != nil || g2 == nil {
			if eerr != nil {
				ev["err"] = firstN(eerr.Error(), 160)
			}
			ev["after"] = before
			ev["boardsBefore"], ev["boardsAfter"] = digBefore, boardDigests(g, bp)
			evs = append(evs, ev)
			if in.Boards {
				ntset["C41"] = true
			}
			// a refused edit may have modified the graph it was given before failing: continue from a fresh
			// compile of the last good text (the properties speak about edits applied to a diagram that compiles)
			if gg, _, err := d2compiler.Compile("o.d2", strings.NewReader(curText), nil); err == nil {
				g = gg
			}
			continue
		}
		ev["ok"] = 1
		bg2 := d2oracle.GetBoardGraph(g2, bp)
		if bg2 == nil {
			bg2 = g2
		}
		ev["after"] = snapshot2(bg2)
		ev["boardsBefore"], ev["boardsAfter"] = digBefore, boardDigests(g2, bp)
		// C36: the text compiles to the returned graph and is formatter-stable
		out := d2format.Format(g2.AST)
		if g3, _, err := d2compiler.Compile("o.d2", strings.NewReader(out), nil); err == nil {
			ev["compiles"] = 1
			a, b := proj.Digest(proj.Boards(g2)), proj.Digest(proj.Boards(g3))
			ev["sameAsReturned"] = tr.B(a == b)
			if a != b {
				ev["diff"] = firstN(firstDiff(a, b), 200)
			}
		}
		if m, err := d2parser.Parse("o.d2", strings.NewReader(out), nil); err == nil {
			ev["fmtFixed"] = tr.B(d2format.Format(m) == out)
		}
		ev["text"] = firstN(out, 600)
		evs = append(evs, ev)
		g = g2
		// give every object the edit created a tooltip of its own (identity for the following edits; not an event)
		for pass := 0; pass < 6; pass++ {
			bgx := d2oracle.GetBoardGraph(g, bp)
			tagged := false
			for _, o := range bgx.Objects {
				if o.Tooltip == nil || !strings.HasPrefix(o.Tooltip.Value, "T") {
					fresh++
					tv := fmt.Sprintf("T%d", 1000+fresh)
					if g4, err := d2oracle.Set(g, bp, o.AbsID()+".tooltip", nil, &tv); err == nil {
						g = g4
						tagged = true
						break
					}
				}
			}
			if !tagged {
				for _, e := range bgx.Edges {
					if !strings.HasPrefix(e.Label.Value, "E") {
						fresh++
						lv := fmt.Sprintf("E%d", 1000+fresh)
						if g4, err := d2oracle.Set(g, bp, e.AbsID(), nil, &lv); err == nil {
							g = g4
							tagged = true
							break
						}
					}
				}
			}
			if !tagged {
				break
			}
		}
		curText = d2format.Format(g.AST)
		ntset["C36"] = true
		switch op {
		case "create", "create-edge", "set-label", "set-style", "set-shape", "set-edge":
			ntset["C37"] = true
		case "delete", "delete-edge", "delete-attr":
			ntset["C38"] = true
		case "rename", "move":
			ntset["C39"] = true
		}
		if ev["hasDeltas"] == 1 {
			ntset["C40"] = true
		}
		if in.Boards {
			ntset["C41"] = true
		}
	}
	for k := range ntset {
		nt = append(nt, k)
	}
	sort.Strings(nt)
	return evs, nt
}

func deltaPairs(d map[string]string) [][]string {
	ks := make([]string, 0, len(d))
	for k := range d {
		ks = append(ks, k)
	}
	sort.Strings(ks)
	res := [][]string{}
	for _, k := range ks {
		res = append(res, []string{k, d[k]})
	}
	return res
}

func nz2(a []string) []string {
	if a == nil {
		return []string{}
	}
	return a
}
