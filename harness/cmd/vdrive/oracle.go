package main

import (
	"encoding/json"
	"fmt"
	"math/rand"
	"os"
	"sort"
	"strings"

	"oss.terrastruct.com/d2/d2compiler"
	"oss.terrastruct.com/d2/d2format"
	"oss.terrastruct.com/d2/d2graph"
	"oss.terrastruct.com/d2/d2oracle"
	"oss.terrastruct.com/d2/d2parser"

	"verifharness/internal/proj"
	"verifharness/internal/tr"
)

// Family oracle (C36-C41): edit histories through the public d2oracle API on generated diagrams in
// which every object carries a unique tooltip (T<n>) and every connection a unique label (E<n>), so
// that elements can be followed across renames and moves. After each edit the driver logs the
// identity-keyed snapshots before and after, the predicted ID deltas, and whether the resulting text
// compiles to the returned graph and is formatter-stable. TraceD2Oracle.tla holds the properties.

type oracleInput struct {
	Seed   int64 `json:"seed"`
	Edits  int   `json:"edits"`
	Boards bool  `json:"boards,omitempty"`
	Gen    int   `json:"gen,omitempty"`    // 0/1: one block per object, everything tagged; 2: oracleProgram2
	Script int   `json:"script,omitempty"` // 1-based index into oracleScripts: a written program and edit list
	ImpUpd int   `json:"impupd,omitempty"` // >0: import-update history #ImpUpd (oracleimports.go)
}

func init() { register("oracle", driveOracle) }

type snapObj struct {
	Lab    string     `json:"lab"`
	ID     string     `json:"id"`
	Name   string     `json:"name"`
	Parent string     `json:"parent"`
	Label  string     `json:"label"`
	Shape  string     `json:"shape"`
	Attrs  [][]string `json:"attrs"`
}
type snapEdge struct {
	Lab   string     `json:"lab"`
	ID    string     `json:"id"`
	Src   string     `json:"src"`
	Dst   string     `json:"dst"`
	SA    int        `json:"sa"`
	DA    int        `json:"da"`
	Idx   int        `json:"idx"`
	Attrs [][]string `json:"attrs"`
}
type snap struct {
	Objs  []snapObj  `json:"objs"`
	Edges []snapEdge `json:"edges"`
}

func hasTag(o *d2graph.Object) bool {
	return o.Tooltip != nil && strings.HasPrefix(o.Tooltip.Value, "T")
}

// labelsOf gives every object of a board its identity: the tooltip tag when it has one; else, for an
// object that only exists as the end of tagged connections, the smallest "<connection tag>:src|dst";
// else its lower-cased absolute ID (an implicit container: the driver never applies an edit that is
// meant to change such an ID).
func labelsOf(g *d2graph.Graph) map[*d2graph.Object]string {
	m := map[*d2graph.Object]string{}
	for _, o := range g.Objects {
		if hasTag(o) {
			m[o] = o.Tooltip.Value
		}
	}
	for _, e := range g.Edges {
		if !strings.HasPrefix(e.Label.Value, "E") {
			continue
		}
		for _, end := range []struct {
			o *d2graph.Object
			s string
		}{{e.Src, ":src"}, {e.Dst, ":dst"}} {
			if hasTag(end.o) {
				continue
			}
			c := e.Label.Value + end.s
			if cur, ok := m[end.o]; !ok || c < cur {
				m[end.o] = c
			}
		}
	}
	for _, o := range g.Objects {
		if _, ok := m[o]; !ok {
			m[o] = "id:" + strings.ToLower(o.AbsID())
		}
	}
	m[g.Root] = ""
	return m
}

func snapshot2(g *d2graph.Graph) snap {
	s := snap{Objs: []snapObj{}, Edges: []snapEdge{}}
	b := proj.Graph(g, nil)
	labs := labelsOf(g)
	labOf := func(o *d2graph.Object) string { return labs[o] }
	for i, o := range g.Objects {
		par := ""
		if o.Parent != nil && o.Parent != g.Root {
			par = labOf(o.Parent)
		}
		attrs := map[string]string{}
		for k, v := range b.Objs[i].Attrs {
			if k != "tooltip" {
				attrs[k] = v
			}
		}
		s.Objs = append(s.Objs, snapObj{Lab: labOf(o), ID: o.AbsID(), Name: o.IDVal, Parent: par, Label: o.Label.Value, Shape: o.Shape.Value, Attrs: kvPairs(attrs)})
	}
	seenE := map[string]int{}
	for i, e := range g.Edges {
		lab := e.Label.Value
		if !strings.HasPrefix(lab, "E") {
			lab = "id:" + strings.ToLower(e.AbsID())
		}
		seenE[lab]++
		if seenE[lab] > 1 {
			lab = fmt.Sprintf("%s#%d", lab, seenE[lab])
		}
		s.Edges = append(s.Edges, snapEdge{Lab: lab, ID: e.AbsID(), Src: labOf(e.Src), Dst: labOf(e.Dst), SA: tr.B(e.SrcArrow), DA: tr.B(e.DstArrow), Idx: e.Index, Attrs: kvPairs(b.Edges[i].Attrs)})
	}
	return s
}

// boardDigests lists every board with its digest and its relation to the addressed board:
// "self", "inherits" (a board nested in it, or a later step of the same parent), "other".
func boardDigests(g *d2graph.Graph, bp []string) [][]string {
	res := [][]string{}
	for _, b := range proj.Boards(g) {
		names := []string{}
		for i := 1; i < len(b.Path); i += 2 {
			names = append(names, b.Path[i])
		}
		rel := "other"
		switch {
		case len(names) == len(bp) && strings.Join(names, "/") == strings.Join(bp, "/"):
			rel = "self"
		case len(names) > len(bp) && strings.Join(names[:len(bp)], "/") == strings.Join(bp, "/"):
			rel = "inherits"
		case len(bp) > 0 && len(names) == len(bp) && strings.Join(names[:len(bp)-1], "/") == strings.Join(bp[:len(bp)-1], "/") && len(b.Path) >= 2 && b.Path[len(b.Path)-2] == "steps":
			rel = "inherits" // a sibling step: later steps include the earlier ones
		case len(bp) > 0 && len(names) > len(bp) && strings.Join(names[:len(bp)-1], "/") == strings.Join(bp[:len(bp)-1], "/") && len(b.Path) >= 2*len(bp) && b.Path[2*len(bp)-2] == "steps":
			rel = "inherits"
		}
		res = append(res, []string{strings.Join(b.Path, "/"), proj.Digest([]proj.Board{b}), rel})
	}
	return res
}

var oracleValues = []string{"plain", "two words", "null", "NULL", "true", "suspend", "a.b", "x -> y", "quo\"te", "it's", "42", "0.5", "", " lead", "ünï", "#hash", "semi;colon", "{brace}", "$dollar", "${x}", "a: b", "|pipe|", "*", "&amp;", "layers", "shape", "Class", "Label", "LINK", "Near", "Steps", "True", "Suspend", "Null", "_", "1e3", "007", "+5", "0x1F", "a\\nb", "tab\there", "\\", "trailing ", "-", "--", "->", "a - b", "@x", "...@x", "[x]", "(x)", "x)", "'single'", "`tick`", "<lt", "line\nbreak"}
var oracleShapes = []string{"circle", "oval", "diamond", "hexagon", "cloud", "rectangle"}

func oracleProgram(r *rand.Rand, boards bool) string {
	var sb strings.Builder
	n := 2 + r.Intn(6)
	ids := []string{}
	tcount := 0
	var rec func(prefix, ind string, depth int, budget *int)
	rec = func(prefix, ind string, depth int, budget *int) {
		names := []string{"a", "b", "c", "d", "e", "f"}
		r.Shuffle(len(names), func(i, j int) { names[i], names[j] = names[j], names[i] })
		k := 1 + r.Intn(3)
		for i := 0; i < k && *budget > 0; i++ {
			*budget--
			tcount++
			id := names[i]
			if prefix != "" {
				id = prefix + "." + names[i]
			}
			ids = append(ids, id)
			fmt.Fprintf(&sb, "%s%s: ", ind, names[i])
			if r.Intn(2) == 0 {
				fmt.Fprintf(&sb, "lbl%d ", tcount)
			}
			fmt.Fprintf(&sb, "{\n%s  tooltip: T%d\n", ind, tcount)
			if r.Intn(3) == 0 {
				fmt.Fprintf(&sb, "%s  shape: %s\n", ind, oracleShapes[r.Intn(len(oracleShapes))])
			}
			if r.Intn(3) == 0 {
				fmt.Fprintf(&sb, "%s  style.opacity: 0.%d\n", ind, 1+r.Intn(9))
			}
			if r.Intn(4) == 0 {
				fmt.Fprintf(&sb, "%s  width: %d\n", ind, 50+r.Intn(200))
			}
			if r.Intn(5) == 0 {
				fmt.Fprintf(&sb, "%s  link: https://example.com/%d\n", ind, tcount)
			}
			if r.Intn(5) == 0 {
				fmt.Fprintf(&sb, "%s  style.stroke: blue\n", ind)
			}
			if depth < 3 && *budget > 0 && r.Intn(3) == 0 {
				rec(id, ind+"  ", depth+1, budget)
			}
			fmt.Fprintf(&sb, "%s}\n", ind)
		}
	}
	budget := n
	rec("", "", 1, &budget)
	ne := r.Intn(5)
	for i := 0; i < ne && len(ids) > 0; i++ {
		a, b := ids[r.Intn(len(ids))], ids[r.Intn(len(ids))]
		if strings.HasPrefix(a, b+".") || strings.HasPrefix(b, a+".") {
			continue
		}
		arrows := []string{"->", "->", "<-", "--", "<->"}
		fmt.Fprintf(&sb, "%s %s %s: E%d", a, arrows[r.Intn(len(arrows))], b, i+1)
		if r.Intn(3) == 0 {
			fmt.Fprintf(&sb, " {style.stroke: red}")
		}
		sb.WriteString("\n")
	}
	if boards {
		sb.WriteString("layers: {\n  l1: {\n    p: {tooltip: T91}\n    q: {tooltip: T92}\n    p -> q: E91\n  }\n  l2: {\n    r: {tooltip: T93}\n  }\n}\n")
		sb.WriteString("scenarios: {\n  s1: {\n    u: {tooltip: T94}\n    steps: {\n      1: {v: {tooltip: T95}}\n      2: {w: {tooltip: T96}}\n    }\n  }\n  s2: {\n    z: {tooltip: T97}\n  }\n}\n")
	}
	return sb.String()
}

func driveOracle(c *Ctx) error {
	var inputs []oracleInput
	if c.Replay != nil {
		var in oracleInput
		if err := json.Unmarshal(c.Replay, &in); err != nil {
			return err
		}
		inputs = []oracleInput{in}
	} else {
		n, space := 250, 3000
		fmt.Sscanf(c.Args["n"], "%d", &n)
		boards := c.Args["boards"] == "1"
		lo, hi := 0, space
		if !c.Thorough() {
			lo = int((c.Seed*7919)%int64(space/n)) * n
			hi = lo + n
		}
		for i := lo; i < hi; i++ {
			inputs = append(inputs, oracleInput{Seed: int64(i) + 1, Edits: 1 + i%8, Boards: boards})
		}
		for i := lo; i < hi; i++ {
			inputs = append(inputs, oracleInput{Seed: int64(i) + 1, Edits: 1 + i%6, Boards: boards, Gen: 2})
		}
		if !boards {
			for i := range oracleScripts {
				inputs = append(inputs, oracleInput{Seed: 1, Script: i + 1})
			}
			// import updates (file renamed, directory renamed, import removed) on programs that import from several directories
			k := 120
			if c.Thorough() {
				k = 1200
			}
			for i := 1; i <= k; i++ {
				inputs = append(inputs, oracleInput{Seed: int64(i), ImpUpd: i})
			}
		}
	}
	for _, in := range inputs {
		if in.ImpUpd > 0 {
			c.W.Add(in, []tr.M{importUpdateEvent(int64(in.ImpUpd))}, "C36")
			continue
		}
		evs, nt := oracleRun(in)
		c.W.Add(in, evs, nt...)
		for _, p := range nt {
			c.W.Sample(p, tr.M{"seed": in.Seed, "program": firstN(evs[0]["text"].(string), 400), "ops": opsList(evs)})
		}
	}
	return nil
}

func opsList(evs []tr.M) []string {
	var r []string
	for _, e := range evs {
		if e["ev"] == "edit" {
			r = append(r, fmt.Sprint(e["op"], " ", e["key"], " ", e["arg"]))
		}
	}
	return r
}

func oracleRun(in oracleInput) (evs []tr.M, nt []string) {
	r := rand.New(rand.NewSource(in.Seed*977 + 5))
	text := oracleProgram(r, in.Boards)
	if in.Gen == 2 {
		text = oracleProgram2(r, in.Boards)
	}
	var script *oracleScript
	if in.Script > 0 && in.Script <= len(oracleScripts) {
		script = &oracleScripts[in.Script-1]
		text = script.Text
		in.Edits = len(script.Ops)
		in.Gen = 2
	}
	g, _, err := d2compiler.Compile("o.d2", strings.NewReader(text), nil)
	for try := 0; err != nil && in.Gen == 2 && try < 8; try++ {
		// a few generated combinations are not valid D2 (an attribute the shape does not take, ...): next draw
		text = oracleProgram2(r, in.Boards)
		g, _, err = d2compiler.Compile("o.d2", strings.NewReader(text), nil)
	}
	evs = append(evs, tr.M{"ev": "init", "text": text, "ok": tr.B(err == nil)})
	if err != nil {
		evs[0]["msg"] = firstN(err.Error(), 200)
		return evs, nil
	}
	ntset := map[string]bool{}
	curText := text
	// objects the generated program leaves without a tag (ends of connections, implicit containers) stay
	// untagged; objects that edits create are tagged before the next edit
	keepUntagged := map[string]bool{}
	for _, b := range proj.Boards(g) {
		names := []string{}
		for i := 1; i < len(b.Path); i += 2 {
			names = append(names, b.Path[i])
		}
		if bg := d2oracle.GetBoardGraph(g, names); bg != nil {
			for _, o := range bg.Objects {
				if !hasTag(o) {
					keepUntagged[strings.ToLower(o.AbsID())] = true
				}
			}
		}
	}
	fresh := 0
	boardPaths := [][]string{nil}
	if in.Boards {
		boardPaths = [][]string{nil, {"l1"}, {"l2"}, {"s1"}, {"s1", "1"}, {"s1", "2"}, {"s2"}}
	}
	for step := 0; step < in.Edits; step++ {
		bp := boardPaths[r.Intn(len(boardPaths))]
		var sc *scriptOp
		if script != nil {
			sc = &script.Ops[step]
			bp = sc.Board
		}
		bg := d2oracle.GetBoardGraph(g, bp)
		if bg == nil {
			break
		}
		before := snapshot2(bg)
		digBefore := boardDigests(g, bp)
		ev := tr.M{"ev": "edit", "board": nz2(bp), "before": before, "op": "", "key": "", "arg": "", "arg2": "", "flag": 0, "ok": 0, "err": "", "newKey": "", "target": "", "tag": "", "deltas": [][]string{}, "hasDeltas": 0,
			"compiles": 0, "sameAsReturned": 0, "fmtFixed": 0, "targetInBase": 0}
		var g2 *d2graph.Graph
		var eerr error
		// generator 2 aims the first edit of a history: which kind of object it prefers as its target
		focus := ""
		if in.Gen == 2 && step == 0 {
			focus = []string{"container", "untagged", "container", "nested", "", ""}[in.Seed%6]
		}
		pickObj := func() *snapObj {
			if len(before.Objs) == 0 {
				return nil
			}
			if sc != nil {
				for i := range before.Objs {
					if strings.EqualFold(before.Objs[i].ID, sc.Key) {
						return &before.Objs[i]
					}
				}
				return nil
			}
			if focus != "" {
				var cand []int
				for i, o := range before.Objs {
					kids := false
					for _, x := range before.Objs {
						if x.Parent == o.Lab {
							kids = true
						}
					}
					switch {
					case focus == "container" && kids, focus == "untagged" && !strings.HasPrefix(o.Lab, "T"), focus == "nested" && strings.Count(o.ID, ".") >= 2:
						cand = append(cand, i)
					}
				}
				if len(cand) > 0 {
					return &before.Objs[cand[r.Intn(len(cand))]]
				}
			}
			return &before.Objs[r.Intn(len(before.Objs))]
		}
		pickEdge := func() *snapEdge {
			if len(before.Edges) == 0 {
				return nil
			}
			if sc != nil {
				for i := range before.Edges {
					if before.Edges[i].ID == sc.Key {
						return &before.Edges[i]
					}
				}
				return nil
			}
			return &before.Edges[r.Intn(len(before.Edges))]
		}
		op := []string{"create", "create-edge", "set-label", "set-style", "set-shape", "delete", "delete-edge", "delete-attr", "rename", "move", "move", "reconnect", "set-edge"}[r.Intn(13)]
		if in.Gen == 2 {
			ops2 := []string{"create", "create-edge", "set-label", "set-attr", "set-attr", "set-shape", "set-edge", "delete", "delete", "delete-edge", "delete-attr", "delete-edge-attr",
				"rename", "rename", "move", "move", "move", "reconnect"}
			op = ops2[r.Intn(len(ops2))]
			if step == 0 && in.Seed%6 < 4 {
				op = []string{"delete", "move", "move", "move"}[in.Seed%6]
			}
		}
		if sc != nil {
			op = sc.Op
		}
		isT := func(lab string) bool { return strings.HasPrefix(lab, "T") }
		// an edit that is meant to change the ID of an object identified by its ID, or to remove the connection
		// an object is identified by, is not applied: the identity could not be followed across it
		idBelow := func(o *snapObj) bool {
			lo := strings.ToLower(o.ID)
			for _, x := range before.Objs {
				if lx := strings.ToLower(x.ID); strings.HasPrefix(x.Lab, "id:") && (lx == lo || strings.HasPrefix(lx, lo+".")) {
					return true
				}
			}
			return false
		}
		untaggedEnd := func(e *snapEdge) bool { return !isT(e.Src) || !isT(e.Dst) }
		attachedToUntagged := func(o *snapObj) bool {
			for i := range before.Edges {
				e := &before.Edges[i]
				if (e.Src == o.Lab || e.Dst == o.Lab) && untaggedEnd(e) && !(e.Src == o.Lab && e.Dst == o.Lab) {
					return true
				}
			}
			return false
		}
		func() {
			defer func() {
				if p := recover(); p != nil {
					ev["op"] = op
					ev["err"] = "PANIC: " + firstN(fmt.Sprint(p), 160)
					ev["panic"] = 1
				}
			}()
			switch op {
			case "create":
				fresh++
				key := fmt.Sprintf("n%d", fresh)
				if o := pickObj(); o != nil && r.Intn(2) == 0 {
					key = o.ID + "." + key
				} else if r.Intn(4) == 0 {
					key = fmt.Sprintf("m%d.%s", fresh, key)
				}
				if sc != nil {
					key = sc.Key // a written history names the key itself (e.g. one that is taken on the addressed board)
				}
				ev["op"], ev["key"] = "create", key
				var nk string
				g2, nk, eerr = d2oracle.Create(g, bp, key)
				ev["newKey"] = nk
			case "create-edge":
				a, b := pickObj(), pickObj()
				if a == nil || b == nil || strings.HasPrefix(a.ID, b.ID+".") || strings.HasPrefix(b.ID, a.ID+".") {
					return
				}
				key := a.ID + " -> " + b.ID
				ev["op"], ev["key"], ev["arg"], ev["arg2"] = "create-edge", key, a.Lab, b.Lab
				var nk string
				g2, nk, eerr = d2oracle.Create(g, bp, key)
				ev["newKey"] = nk
			case "set-label", "set-style", "set-shape":
				o := pickObj()
				if o == nil {
					return
				}
				var tag *string
				val := oracleValues[r.Intn(len(oracleValues))]
				if sc != nil {
					val = sc.Arg
				}
				key := o.ID
				switch op {
				case "set-style":
					key = o.ID + ".style.opacity"
					val = fmt.Sprintf("0.%d", 1+r.Intn(9))
					ev["tag"] = "style.opacity"
				case "set-shape":
					key = o.ID + ".shape"
					val = oracleShapes[r.Intn(len(oracleShapes))]
					ev["tag"] = "shape"
				default:
					ev["tag"] = "label"
				}
				ev["op"], ev["key"], ev["arg"], ev["target"] = op, key, val, o.Lab
				g2, eerr = d2oracle.Set(g, bp, key, tag, &val)
			case "set-attr":
				o := pickObj()
				if o == nil {
					return
				}
				a := oracleObjAttrs[r.Intn(len(oracleObjAttrs))]
				val := a.vals[r.Intn(len(a.vals))]
				if sc != nil {
					a.key, val, _ = strings.Cut(sc.Arg, "=")
				}
				ev["op"], ev["key"], ev["arg"], ev["target"], ev["tag"] = op, o.ID+"."+a.key, val, o.Lab, projKey(a.key)
				g2, eerr = d2oracle.Set(g, bp, o.ID+"."+a.key, nil, &val)
			case "set-edge":
				e := pickEdge()
				if e == nil {
					return
				}
				attr := "style.stroke"
				val := []string{"red", "blue", "\"#00ff00\""}[r.Intn(3)]
				val = strings.Trim(val, "\"")
				if in.Gen == 2 {
					a := oracleEdgeAttrs[r.Intn(len(oracleEdgeAttrs))]
					attr, val = a.key, a.vals[r.Intn(len(a.vals))]
				}
				ev["op"], ev["key"], ev["arg"], ev["target"], ev["tag"] = op, e.ID+"."+attr, val, e.Lab, projKey(attr)
				g2, eerr = d2oracle.Set(g, bp, e.ID+"."+attr, nil, &val)
			case "delete-edge-attr":
				e := pickEdge()
				if e == nil || len(e.Attrs) == 0 {
					return
				}
				attr := d2Key(e.Attrs[r.Intn(len(e.Attrs))][0])
				if attr == "" {
					return
				}
				ev["op"], ev["key"], ev["target"], ev["tag"] = op, e.ID+"."+attr, e.Lab, projKey(attr)
				g2, eerr = d2oracle.Delete(g, bp, e.ID+"."+attr)
			case "delete":
				o := pickObj()
				if o == nil {
					return
				}
				if idBelow(o) || attachedToUntagged(o) {
					return
				}
				ev["op"], ev["key"], ev["target"] = op, o.ID, o.Lab
				if d, err := d2oracle.DeleteIDDeltas(g, bp, o.ID); err == nil {
					ev["deltas"], ev["hasDeltas"] = deltaPairs(d), 1
				}
				g2, eerr = d2oracle.Delete(g, bp, o.ID)
			case "delete-edge":
				e := pickEdge()
				if e == nil {
					return
				}
				if untaggedEnd(e) {
					return
				}
				ev["op"], ev["key"], ev["target"] = op, e.ID, e.Lab
				if d, err := d2oracle.DeleteIDDeltas(g, bp, e.ID); err == nil {
					ev["deltas"], ev["hasDeltas"] = deltaPairs(d), 1
				}
				g2, eerr = d2oracle.Delete(g, bp, e.ID)
			case "delete-attr":
				o := pickObj()
				if o == nil {
					return
				}
				// the attributes d2oracle.Delete handles: style keywords, width/height, link, near, icon, top/left
				attr := []string{"style.opacity", "width", "link", "style.stroke"}[r.Intn(4)]
				if in.Gen == 2 && len(o.Attrs) > 0 && r.Intn(4) != 0 {
					// d2oracle.Delete handles style.*, near, icon, width, height, top, left and link; other reserved keys are ignored by design
					attr = d2Key(o.Attrs[r.Intn(len(o.Attrs))][0])
					if !(strings.HasPrefix(attr, "style.") || attr == "near" || attr == "icon" || attr == "width" || attr == "height" || attr == "top" || attr == "left" || attr == "link") {
						return
					}
				}
				if sc != nil {
					attr = sc.Arg
				}
				ev["op"], ev["key"], ev["target"], ev["tag"] = op, o.ID+"."+attr, o.Lab, projKey(attr)
				g2, eerr = d2oracle.Delete(g, bp, o.ID+"."+attr)
			case "rename":
				o := pickObj()
				if o == nil {
					return
				}
				if idBelow(o) {
					return
				}
				fresh++
				nn := fmt.Sprintf("r%d", fresh)
				if r.Intn(3) == 0 { // collide with a sibling
					for _, s := range before.Objs {
						if s.Parent == o.Parent && s.Lab != o.Lab {
							nn = s.Name
							break
						}
					}
				} else if r.Intn(4) == 0 {
					nn = []string{"x y", "a.b", "null", "1", "ünï"}[r.Intn(5)]
				}
				if sc != nil {
					nn = sc.Arg
				}
				ev["op"], ev["key"], ev["arg"], ev["target"] = op, o.ID, nn, o.Lab
				if d, err := d2oracle.RenameIDDeltas(g, bp, o.ID, nn); err == nil {
					ev["deltas"], ev["hasDeltas"] = deltaPairs(d), 1
				}
				var nk string
				g2, nk, eerr = d2oracle.Rename(g, bp, o.ID, nn)
				ev["newKey"] = nk
			case "move":
				o := pickObj()
				if o == nil {
					return
				}
				if idBelow(o) {
					return
				}
				dest := o.Name
				ev["arg2"] = ""
				if c2 := pickObj(); c2 != nil && r.Intn(3) != 0 && c2.ID != o.ID && !strings.HasPrefix(c2.ID, o.ID+".") {
					dest = c2.ID + "." + o.Name
					ev["arg2"] = c2.Lab
				} else if r.Intn(3) == 0 {
					fresh++
					dest = fmt.Sprintf("box%d.%s", fresh, o.Name)
				}
				if dest == o.ID {
					return
				}
				incl := r.Intn(2) == 0
				if sc != nil {
					dest, incl = sc.Arg, sc.Flag
					ev["arg2"] = ""
					if i := strings.LastIndex(dest, "."); i >= 0 {
						for _, x := range before.Objs {
							if strings.EqualFold(x.ID, dest[:i]) {
								ev["arg2"] = x.Lab
							}
						}
					}
				}
				ev["op"], ev["key"], ev["arg"], ev["flag"], ev["target"] = op, o.ID, dest, tr.B(incl), o.Lab
				if len(bp) == 0 {
					if d, err := d2oracle.MoveIDDeltas(g, o.ID, dest, incl); err == nil {
						ev["deltas"], ev["hasDeltas"] = deltaPairs(d), 1
					}
				}
				g2, eerr = d2oracle.Move(g, bp, o.ID, dest, incl)
			case "reconnect":
				e := pickEdge()
				o := pickObj()
				if e == nil || o == nil || untaggedEnd(e) || !isT(o.Lab) {
					return
				}
				var src, dst *string
				if r.Intn(2) == 0 {
					src = &o.ID
					ev["arg"] = o.Lab
				} else {
					dst = &o.ID
					ev["arg2"] = o.Lab
				}
				ev["op"], ev["key"], ev["target"] = op, e.ID, e.Lab
				if d, err := d2oracle.ReconnectEdgeIDDeltas(g, bp, e.ID, src, dst); err == nil {
					ev["deltas"], ev["hasDeltas"] = deltaPairs(d), 1
				}
				g2, eerr = d2oracle.ReconnectEdge(g, bp, e.ID, src, dst)
			}
		}()
		if ev["op"] == "" {
			continue
		}
		// is the element the edit names (or the destination container of a move) inherited from the base board?
		if len(bp) > 0 {
			base := snapshot2(g)
			inBase := map[string]bool{}
			// the boards this one inherits from: the root and every enclosing scenario/step
			for k := 0; k < len(bp); k++ {
				if ag := d2oracle.GetBoardGraph(g, bp[:k]); ag != nil {
					as := snapshot2(ag)
					for _, o := range as.Objs {
						inBase[o.Lab] = true
					}
					for _, e := range as.Edges {
						inBase[e.Lab] = true
					}
					if k > 0 {
						base.Objs = append(base.Objs, as.Objs...)
					}
				}
			}
			t, _ := ev["target"].(string)
			a2, _ := ev["arg2"].(string)
			a1, _ := ev["arg"].(string)
			if inBase[t] || (ev["op"] == "move" && inBase[a2]) || (ev["op"] == "reconnect" && (inBase[a1] || inBase[a2])) || (ev["op"] == "create-edge" && (inBase[a1] || inBase[a2])) {
				ev["targetInBase"] = 1
			}
			if k, _ := ev["key"].(string); ev["op"] == "create" && strings.Contains(k, ".") {
				for _, o := range base.Objs {
					if strings.HasPrefix(strings.ToLower(k), strings.ToLower(o.ID)+".") {
						ev["targetInBase"] = 1
					}
				}
			}
		}
		if eerr != nil || g2 == nil {
			if eerr != nil {
				ev["err"] = firstN(eerr.Error(), 160)
			}
			ev["after"] = before
			ev["boardsBefore"], ev["boardsAfter"] = digBefore, boardDigests(g, bp)
			evs = append(evs, ev)
			if in.Boards {
				ntset["C41"] = true
			}
			// a refused edit may have modified the graph it was given before failing: continue from a fresh
			// compile of the last good text (the properties speak about edits applied to a diagram that compiles)
			if gg, _, err := d2compiler.Compile("o.d2", strings.NewReader(curText), nil); err == nil {
				g = gg
			}
			continue
		}
		ev["ok"] = 1
		bg2 := d2oracle.GetBoardGraph(g2, bp)
		if bg2 == nil {
			bg2 = g2
		}
		ev["after"] = snapshot2(bg2)
		ev["boardsBefore"], ev["boardsAfter"] = digBefore, boardDigests(g2, bp)
		// C36: the text compiles to the returned graph and is formatter-stable
		out := d2format.Format(g2.AST)
		if g3, _, err := d2compiler.Compile("o.d2", strings.NewReader(out), nil); err == nil {
			ev["compiles"] = 1
			a, b := proj.Digest(proj.Boards(g2)), proj.Digest(proj.Boards(g3))
			ev["sameAsReturned"] = tr.B(a == b)
			if a != b {
				ev["diff"] = firstN(firstDiff(a, b), 200)
			}
		}
		if m, err := d2parser.Parse("o.d2", strings.NewReader(out), nil); err == nil {
			ev["fmtFixed"] = tr.B(d2format.Format(m) == out)
		}
		ev["text"] = firstN(out, 600)
		if os.Getenv("VERIF_FULLTEXT") != "" {
			ev["text"] = out
		}
		evs = append(evs, ev)
		g = g2
		// give every object the edit created a tooltip of its own (identity for the following edits; not an event)
		for pass := 0; pass < 6; pass++ {
			bgx := d2oracle.GetBoardGraph(g, bp)
			tagged := false
			for _, o := range bgx.Objects {
				if !hasTag(o) && !keepUntagged[strings.ToLower(o.AbsID())] {
					fresh++
					tv := fmt.Sprintf("T%d", 1000+fresh)
					if g4, err := d2oracle.Set(g, bp, o.AbsID()+".tooltip", nil, &tv); err == nil {
						g = g4
						tagged = true
						break
					}
				}
			}
			if !tagged {
				for _, e := range bgx.Edges {
					if !strings.HasPrefix(e.Label.Value, "E") {
						fresh++
						lv := fmt.Sprintf("E%d", 1000+fresh)
						if g4, err := d2oracle.Set(g, bp, e.AbsID(), nil, &lv); err == nil {
							g = g4
							tagged = true
							break
						}
					}
				}
			}
			if !tagged {
				break
			}
		}
		curText = d2format.Format(g.AST)
		ntset["C36"] = true
		switch op {
		case "create", "create-edge", "set-label", "set-style", "set-shape", "set-edge", "set-attr":
			ntset["C37"] = true
		case "delete", "delete-edge", "delete-attr", "delete-edge-attr":
			ntset["C38"] = true
		case "rename", "move":
			ntset["C39"] = true
		}
		if ev["hasDeltas"] == 1 {
			ntset["C40"] = true
		}
		if in.Boards {
			ntset["C41"] = true
		}
	}
	for k := range ntset {
		nt = append(nt, k)
	}
	sort.Strings(nt)
	return evs, nt
}

// projKey maps a D2 attribute key to the name the projection (the JSON tags of d2graph.Style) uses;
// d2Key is its inverse, "" for projected facts that are not plain attribute keys.
func camel(k string) string {
	parts := strings.Split(k, "-")
	for i := 1; i < len(parts); i++ {
		if parts[i] != "" {
			parts[i] = strings.ToUpper(parts[i][:1]) + parts[i][1:]
		}
	}
	return strings.Join(parts, "")
}

func kebab(k string) string {
	var sb strings.Builder
	for _, c := range k {
		if c >= 'A' && c <= 'Z' {
			sb.WriteByte('-')
			sb.WriteRune(c - 'A' + 'a')
		} else {
			sb.WriteRune(c)
		}
	}
	return sb.String()
}

func projKey(k string) string {
	for _, pre := range []string{"source-arrowhead.", "target-arrowhead."} {
		if strings.HasPrefix(k, pre+"style.") {
			return pre + camel(strings.TrimPrefix(k, pre+"style."))
		}
	}
	if strings.HasPrefix(k, "style.") {
		return "style." + camel(strings.TrimPrefix(k, "style."))
	}
	return k
}

func d2Key(k string) string {
	switch {
	case strings.HasPrefix(k, "iconstyle."), k == "language", k == "constraint", k == "class", k == "label.near", k == "icon.near", k == "tooltip.near", k == "sql.columns", k == "class.members", k == "tooltip":
		return ""
	case strings.HasPrefix(k, "style."):
		return "style." + kebab(strings.TrimPrefix(k, "style."))
	}
	for _, pre := range []string{"source-arrowhead.", "target-arrowhead."} {
		if strings.HasPrefix(k, pre) {
			rest := strings.TrimPrefix(k, pre)
			if rest == "label" || rest == "shape" {
				return k
			}
			return pre + "style." + kebab(rest)
		}
	}
	return k
}

func deltaPairs(d map[string]string) [][]string {
	ks := make([]string, 0, len(d))
	for k := range d {
		ks = append(ks, k)
	}
	sort.Strings(ks)
	res := [][]string{}
	for _, k := range ks {
		res = append(res, []string{k, d[k]})
	}
	return res
}

func nz2(a []string) []string {
	if a == nil {
		return []string{}
	}
	return a
}
