package main

// Written histories of the oracle family: the reproducers of the defects this family found (repaired ones
// stay as regressions, recorded ones are the witnesses the known-findings file names) and a few
// situations the generators reach rarely. Every object a script edits carries a tag or is the end of a
// tagged connection, as in the generated programs.

type scriptOp struct {
	Op, Key, Arg string
	Flag         bool
	Board        []string
}

type oracleScript struct {
	Name string
	Text string
	Ops  []scriptOp
}

var oracleScripts = []oracleScript{
	{"delete-object-declared-by-flat-field", "x: {tooltip: T1}\nteam.a -> x: E1\nteam.b.shape: circle\nteam.b.tooltip: T2\n",
		[]scriptOp{{Op: "delete", Key: "team.b"}}},
	{"delete-object-that-is-the-only-declaration-of-its-parent", "x: {tooltip: T1}\nzone.b.style.opacity: 0.4\nzone.b.tooltip: T2\n",
		[]scriptOp{{Op: "delete", Key: "zone.b"}}},
	{"delete-end-of-connection-declared-with-flat-field", "d: {tooltip: T1}\nteam.r2 -> d: E3\nteam.r2.tooltip: T2\n",
		[]scriptOp{{Op: "delete", Key: "team.r2"}}},
	{"move-into-container-split-from-flat-key-with-label", "a: {tooltip: T1; b: {tooltip: T2; shape: circle}}\nteam.r3: hash {tooltip: T3}\n",
		[]scriptOp{{Op: "move", Key: "a.b", Arg: "team.b"}}},
	{"move-between-containers-of-the-same-name", "a: {tooltip: T1; b: {tooltip: T2}}\nb: {\n  tooltip: T3\n  b: {\n    tooltip: T4\n    d: {tooltip: T5}\n    e: {tooltip: T6}\n    d -> d: E1\n    d -> e: E2\n  }\n}\n",
		[]scriptOp{{Op: "move", Key: "b.b.d", Arg: "a.b.d", Flag: true}}},
	{"move-with-collision-and-root-connection", "a: {tooltip: T1}\nd: {\n  tooltip: T2\n  a: {\n    tooltip: T3\n    d: {\n      tooltip: T4\n      a: {tooltip: T5}\n    }\n  }\n}\nd.a.d.a <-> a.a: E3\n",
		[]scriptOp{{Op: "move", Key: "d.a", Arg: "a.a", Flag: true}}},
	{"delete-field-of-object-with-quoted-id", "'null'.style.italic: false\n'null'.tooltip: T1\n\"a.b\".style.bold: true\n\"a.b\".tooltip: T2\nc.tooltip: T3\nC.style.underline: true\n",
		[]scriptOp{{Op: "delete-attr", Key: "'null'", Arg: "style.italic"}, {Op: "delete-attr", Key: "\"a.b\"", Arg: "style.bold"}, {Op: "delete-attr", Key: "c", Arg: "style.underline"}}},
	{"set-label-spelled-like-keyword-or-boolean", "x: {tooltip: T1}\ny: {tooltip: T2}\nx -> y: E1\n",
		[]scriptOp{{Op: "set-label", Key: "x", Arg: "Label"}, {Op: "set-label", Key: "y", Arg: "True"}, {Op: "set-label", Key: "x", Arg: "NULL"}, {Op: "set-label", Key: "y", Arg: "FALSE"}, {Op: "set-label", Key: "x", Arg: "Near"}}},
	{"move-out-of-subcontainer-declared-by-the-moved-key", "a: {tooltip: T1}\nteam.x -> a: E1\nteam.x.n1: {tooltip: T2}\n",
		[]scriptOp{{Op: "move", Key: "team.x.n1", Arg: "team.n1"}}},
	{"delete-container-above-parent-reference", "b: {\n  tooltip: T1\n  d: {tooltip: T2}\n  a: {\n    tooltip: T3\n    a: {\n      tooltip: T4\n      d: {tooltip: T5}\n      _._.d -- d: E1\n    }\n  }\n}\n",
		[]scriptOp{{Op: "delete", Key: "b"}}},
	{"move-container-above-parent-reference-in-nested-map", "c: {\n  tooltip: T1\n  d: {tooltip: T2}\n  b: {\n    tooltip: T3\n    c: {\n      tooltip: T4\n      _._.d <- _._.d: E1\n    }\n  }\n}\n",
		[]scriptOp{{Op: "move", Key: "c.b", Arg: "b", Flag: true}}},
	{"set-underline-next-to-italic", "note: Remember {tooltip: T1; style.italic: true}\ndone: {tooltip: T2}\nnote -> done: E1 {style.italic: true}\n",
		[]scriptOp{{Op: "set-attr", Key: "note", Arg: "style.underline=false"}, {Op: "set-attr", Key: "note", Arg: "style.bold=true"}, {Op: "set-attr", Key: "done", Arg: "style.italic=true"}}},
	{"delete-container-whose-child-collides-as-connection-end", "db: Database {tooltip: T1}\napi: {\n  tooltip: T2\n  handler -> db: E1\n  handler: Handler {tooltip: T3}\n}\n",
		[]scriptOp{{Op: "delete", Key: "api"}}},
	{"move-source-written-with-dotted-key", "server: Server {tooltip: T1}\nteam.alice -> server: E1\n",
		[]scriptOp{{Op: "move", Key: "team.alice", Arg: "alice", Flag: true}}},
	{"move-source-written-with-dotted-key-without-descendants", "server: Server {tooltip: T1}\nteam.alice -> server: E1\n",
		[]scriptOp{{Op: "move", Key: "team.alice", Arg: "alice"}}},
	{"move-out-of-nested-parent-with-collision", "p: {\n  tooltip: T1\n  q: {\n    tooltip: T2\n    x: {tooltip: T3}\n    c: {\n      tooltip: T4\n      x: {tooltip: T5}\n      y: {tooltip: T6}\n      x -> y: E1\n    }\n  }\n}\nz: {tooltip: T7}\n",
		[]scriptOp{{Op: "move", Key: "p.q.c", Arg: "z.c"}}},
	{"delete-attribute-that-a-descendant-sets-through-a-flat-key", "a: {tooltip: T1}\na.style.fill: red\na.b.style.fill: blue\na.b.tooltip: T2\na.width: 120\na.b.width: 80\na.link: https://example.com/a\na.b.link: https://example.com/b\n",
		[]scriptOp{{Op: "delete-attr", Key: "a", Arg: "style.fill"}, {Op: "delete-attr", Key: "a", Arg: "width"}, {Op: "delete-attr", Key: "a", Arg: "link"}}},
	{"create-with-a-key-taken-on-the-nested-board-only", "x: {tooltip: T1}\nlayers: {\n  l1: {\n    y: Why {tooltip: T2}\n    q: {tooltip: T3}\n    y -> q: E1\n  }\n}\n",
		[]scriptOp{{Op: "create", Key: "y", Board: []string{"l1"}}, {Op: "create", Key: "q", Board: []string{"l1"}}, {Op: "create", Key: "x", Board: []string{"l1"}}}},
	{"create-with-a-key-taken-on-the-root-board", "x: Ex {tooltip: T1}\ny: {tooltip: T2}\nx -> y: E1\n",
		[]scriptOp{{Op: "create", Key: "x"}, {Op: "create", Key: "Y"}, {Op: "create", Key: "x"}}},
}
