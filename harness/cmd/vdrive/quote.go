package main

import (
	"encoding/json"
	"fmt"
	"strings"
	"unicode"

	"oss.terrastruct.com/d2/d2ast"
	"oss.terrastruct.com/d2/d2compiler"
	"oss.terrastruct.com/d2/d2format"
	"oss.terrastruct.com/d2/d2graph"
	"oss.terrastruct.com/d2/d2oracle"
	"oss.terrastruct.com/d2/d2parser"

	"verifharness/internal/tr"
)

// Family quote (C05, C06).
//   rt  events: a string s goes through the code that generates D2 syntax for it - as a key segment
//       (d2format.Format of RawString(s, true)), as a value (RawString(s, false)), through the editing API
//       (d2oracle.Set of a label, d2oracle.Create of a key) - and is parsed back / compiled by the real parser.
//   ids events: a program whose object names are such strings is compiled; every object's ID and absolute ID
//       and every connection's ID are parsed back with the real parser.
// TraceD2Quote.tla holds the properties; the strings are logged as sequences of code points so that TLC
// compares exactly what was given with exactly what came back.

type quoteInput struct {
	Kind string   `json:"kind"` // "rt" | "ids"
	S    string   `json:"s,omitempty"`
	Hex  string   `json:"hex,omitempty"`
	Seed int64    `json:"seed,omitempty"`
	Ns   []string `json:"ns,omitempty"` // ids: the names
}

func init() { register("quote", driveQuote) }

var quoteAlphabet = []string{"a", "B", " ", ".", "-", ">", "<", ":", ";", "\"", "'", "\\", "\n", "\t", "#", "{", "}", "[", "]", "(", ")", "|", "$", "*", "&", "!", "@", "_", "0", "é", "日", "😀", "%", "`", "/", "?", "=", ","}
var quoteWords = []string{"null", "NULL", "Null", "nUll", "true", "TRUE", "True", "false", "FALSE", "False", "suspend", "Suspend", "SUSPEND", "unsuspend", "Unsuspend", "UNSUSPEND",
	"label", "Label", "LABEL", "shape", "Shape", "style", "Style", "near", "Near", "class", "Class", "classes", "vars", "Vars", "layers", "Layers", "scenarios", "steps", "Steps", "link", "Link", "icon", "tooltip",
	"width", "Width", "height", "direction", "constraint", "grid-rows", "source-arrowhead", "target-arrowhead", "opacity", "fill", "stroke", "3d", "_", "__", "*", "**", "***", "&", "!&",
	"0", "1", "-1", "+1", "007", "1.5", "1e3", "0x1F", "1_000", ".5", "5.", "NaN", "Inf", "-0", "1/2",
	"a.b", "a -> b", "a->b", "a <- b", "a -- b", "a <-> b", "(a -> b)[0]", "a: b", "a; b", "a {", "a }", "{}", "[]", "[a]", "a|b", "|md x|", "${x}", "$x", "$", "...@x", "@x", "@", "...", "..", ".",
	"a\\nb", "a\\\\b", "\\", "\\\\", "\\n", "a\\", "\\a", "\"", "\"\"", "'", "''", "'\"", "\"'", "a\"b", "a'b", "a'b\"c", "a\nb", "a\n", "\na", "\n", "a\tb", "\t", " ", "  ", " a", "a ", " a ", "a  b",
	"#", "# a", "a # b", "a#b", "-", "--", "->", "a-", "-a", "a--b", "a-b", "a - b", "<", ">", "<-", "<>", "*a", "a*", "a*b", "é", "日本語", "😀", "ünï cödé", "\u00a0", "\u2028", "\ufeff", "a\u00a0b", "\x00", "a\x00b", "\x7f", "\u202e",
	"top-left", "center", "x y z", "very long " + strings.Repeat("word ", 30)}

func runes(s string) []int {
	r := []int{}
	for _, c := range s {
		r = append(r, int(c))
	}
	return r
}

func scalarKind(v d2ast.Value) string {
	switch v.(type) {
	case *d2ast.Null:
		return "null"
	case *d2ast.Suspension:
		return "suspension"
	case *d2ast.Boolean:
		return "boolean"
	case *d2ast.Number:
		return "number"
	case *d2ast.UnquotedString, *d2ast.DoubleQuotedString, *d2ast.SingleQuotedString, *d2ast.BlockString:
		return "string"
	case *d2ast.Array:
		return "array"
	case *d2ast.Map:
		return "map"
	case *d2ast.Import:
		return "import"
	}
	return fmt.Sprintf("%T", v)
}

func formOf(s d2ast.String) string {
	switch s.(type) {
	case *d2ast.UnquotedString:
		return "unquoted"
	case *d2ast.DoubleQuotedString:
		return "double"
	case *d2ast.SingleQuotedString:
		return "single"
	case *d2ast.BlockString:
		return "block"
	}
	return "?"
}

func driveQuote(c *Ctx) error {
	var inputs []quoteInput
	if c.Replay != nil {
		var in quoteInput
		if err := json.Unmarshal(c.Replay, &in); err != nil {
			return err
		}
		inputs = []quoteInput{in}
	} else {
		seen := map[string]bool{}
		add := func(s string) {
			if !seen[s] && validUTF8NoSurrogates(s) {
				seen[s] = true
				inputs = append(inputs, quoteInput{Kind: "rt", S: s})
			}
		}
		add("")
		for _, w := range quoteWords {
			add(w)
		}
		depth := 2
		if c.Thorough() {
			depth = 3
		}
		var rec func(cur string, d int)
		rec = func(cur string, d int) {
			if d > 0 {
				add(cur)
			}
			if d == depth {
				return
			}
			for _, a := range quoteAlphabet {
				rec(cur+a, d+1)
			}
		}
		rec("", 0)
		n := 1500
		if c.Thorough() {
			n = 12000
		}
		for k := 0; k < n; k++ {
			var sb strings.Builder
			for j := 1 + c.Rng.Intn(8); j > 0; j-- {
				switch c.Rng.Intn(5) {
				case 0:
					sb.WriteString(quoteWords[c.Rng.Intn(len(quoteWords))])
				default:
					sb.WriteString(quoteAlphabet[c.Rng.Intn(len(quoteAlphabet))])
				}
			}
			add(sb.String())
		}
		// programs whose names are such strings
		m := 300
		if c.Thorough() {
			m = 2500
		}
		pool := append(append([]string{}, quoteWords...), quoteAlphabet...)
		for k := 0; k < m; k++ {
			ns := []string{}
			for j := 2 + c.Rng.Intn(5); j > 0; j-- {
				s := pool[c.Rng.Intn(len(pool))]
				if c.Rng.Intn(3) == 0 {
					s += pool[c.Rng.Intn(len(pool))]
				}
				if c.Rng.Intn(6) == 0 && len(ns) > 0 { // the same name in another letter case
					s = swapCase(ns[c.Rng.Intn(len(ns))])
				}
				if s != "" && validUTF8NoSurrogates(s) {
					ns = append(ns, s)
				}
			}
			inputs = append(inputs, quoteInput{Kind: "ids", Seed: int64(k), Ns: ns})
		}
	}
	for _, in := range inputs {
		var evs []tr.M
		var nt []string
		if only := c.Args["only"]; only != "" && only != in.Kind {
			continue
		}
		if in.Kind == "rt" {
			if in.Hex != "" && in.S == "" {
				fmt.Sscanf(in.Hex, "%x", &in.S)
			}
			evs, nt = quoteRT(in.S), []string{"C05"}
			in.Hex = fmt.Sprintf("%x", in.S)
		} else {
			evs = quoteIDs(in)
			if evs[0]["ok"] == 1 {
				nt = []string{"C06"}
			}
		}
		c.W.Add(in, evs, nt...)
		if len(in.S) > 2 || len(in.Ns) > 0 {
			for _, p := range nt {
				c.W.Sample(p, tr.M{"s": in.S, "names": in.Ns})
			}
		}
	}
	return nil
}

func validUTF8NoSurrogates(s string) bool {
	for _, r := range s {
		if r == unicode.ReplacementChar {
			return false
		}
	}
	return true
}

func swapCase(s string) string {
	var sb strings.Builder
	for _, r := range s {
		if unicode.IsUpper(r) {
			sb.WriteRune(unicode.ToLower(r))
		} else {
			sb.WriteRune(unicode.ToUpper(r))
		}
	}
	return sb.String()
}

func guardQ(ev tr.M, f func()) {
	defer func() {
		if p := recover(); p != nil {
			ev["panic"] = 1
			ev["msg"] = firstN(fmt.Sprint(p), 160)
		}
	}()
	f()
}

func quoteRT(s string) []tr.M {
	var evs []tr.M
	mk := func(via string) tr.M {
		return tr.M{"ev": "rt", "via": via, "s": runes(s), "back": []int{}, "kind": "", "form": "", "text": "", "ok": 0, "panic": 0, "msg": "", "applies": 1}
	}
	// a key segment
	ev := mk("key")
	guardQ(ev, func() {
		str := d2ast.RawString(s, true)
		ev["form"] = formOf(str)
		text := d2format.Format(&d2ast.KeyPath{Path: []*d2ast.StringBox{d2ast.MakeValueBox(str).StringBox()}})
		ev["text"] = text
		kp, err := d2parser.ParseKey(text)
		if err != nil {
			ev["msg"] = firstN(err.Error(), 160)
			return
		}
		ev["ok"] = 1
		ev["segments"] = len(kp.Path)
		if len(kp.Path) >= 1 {
			ev["back"] = runes(kp.Path[0].Unbox().ScalarString())
			ev["kind"] = "string"
		}
	})
	if s == "" {
		ev["applies"] = 0 // an empty key is not a key
	}
	evs = append(evs, ev)
	// a value
	ev = mk("value")
	guardQ(ev, func() {
		str := d2ast.RawString(s, false)
		ev["form"] = formOf(str)
		text := d2format.Format(str)
		ev["text"] = text
		v, err := d2parser.ParseValue(text)
		if err != nil {
			ev["msg"] = firstN(err.Error(), 160)
			return
		}
		ev["ok"] = 1
		ev["kind"] = scalarKind(v)
		if sc, ok := v.(d2ast.Scalar); ok {
			ev["back"] = runes(sc.ScalarString())
		}
	})
	if s == "" {
		ev["applies"] = 0 // ParseValue reports an empty value for ""; the label path below covers it
	}
	evs = append(evs, ev)
	// the editing API: a label set to s, a key created from the generated syntax of s
	ev = mk("set-label")
	guardQ(ev, func() {
		g, _, err := d2compiler.Compile("q.d2", strings.NewReader("x\n"), nil)
		if err != nil {
			ev["msg"] = err.Error()
			return
		}
		g2, err := d2oracle.Set(g, nil, "x", nil, &s)
		if err != nil {
			ev["msg"] = firstN(err.Error(), 160)
			return
		}
		text := d2format.Format(g2.AST)
		ev["text"] = firstN(text, 300)
		g3, _, err := d2compiler.Compile("q.d2", strings.NewReader(text), nil)
		if err != nil {
			ev["msg"] = firstN(err.Error(), 160)
			return
		}
		ev["ok"] = 1
		for _, o := range g3.Objects {
			if o.AbsID() == "x" {
				ev["back"] = runes(o.Label.Value)
				ev["kind"] = "string"
			}
		}
	})
	evs = append(evs, ev)
	ev = mk("create-key")
	guardQ(ev, func() {
		g, _, err := d2compiler.Compile("q.d2", strings.NewReader("x\n"), nil)
		if err != nil {
			ev["msg"] = err.Error()
			return
		}
		key := d2format.Format(&d2ast.KeyPath{Path: []*d2ast.StringBox{d2ast.MakeValueBox(d2ast.RawString(s, true)).StringBox()}})
		g2, nk, err := d2oracle.Create(g, nil, key)
		if err != nil {
			ev["msg"] = firstN(err.Error(), 160)
			ev["applies"] = 0 // reserved keywords, "_" and the like are not object names: a refusal is not a quoting matter
			return
		}
		ev["text"] = firstN(d2format.Format(g2.AST), 300)
		ev["ok"] = 1
		for _, o := range g2.Objects {
			if o.AbsID() == nk {
				ev["back"] = runes(o.IDVal)
				ev["kind"] = "string"
			}
		}
		if _, kw := d2ast.ReservedKeywords[strings.ToLower(s)]; kw || strings.EqualFold(s, "x") {
			ev["applies"] = 0 // collides with the existing object or is a reserved keyword: Create appends a number
		}
	})
	if s == "" {
		ev["applies"] = 0
	}
	evs = append(evs, ev)
	return evs
}

// quoteIDs compiles a program over the given names: top-level objects, each with a child named like the next
// one, and connections between them (some parallel).
func quoteIDs(in quoteInput) []tr.M {
	var sb strings.Builder
	key := func(s string) string {
		return d2format.Format(&d2ast.KeyPath{Path: []*d2ast.StringBox{d2ast.MakeValueBox(d2ast.RawString(s, true)).StringBox()}})
	}
	ks := []string{}
	for _, n := range in.Ns {
		ks = append(ks, key(n))
	}
	for i, k := range ks {
		fmt.Fprintf(&sb, "%s: {\n  %s\n}\n", k, ks[(i+1)%len(ks)])
	}
	for i := range ks {
		a, b := ks[i], ks[(i+1)%len(ks)]
		fmt.Fprintf(&sb, "%s -> %s\n", a, b)
		if i%2 == 0 {
			fmt.Fprintf(&sb, "%s -> %s\n%s.%s <- %s\n", a, b, a, b, b)
		}
	}
	text := sb.String()
	ev := tr.M{"ev": "ids", "text": firstN(text, 600), "ok": 0, "panic": 0, "msg": "", "objs": []tr.M{}, "edges": []tr.M{}}
	guardQ(ev, func() {
		g, _, err := d2compiler.Compile("q.d2", strings.NewReader(text), nil)
		if err != nil {
			ev["msg"] = firstN(err.Error(), 200)
			return
		}
		ev["ok"] = 1
		seg := func(id string) [][]int {
			res := [][]int{}
			kp, err := d2parser.ParseKey(id)
			if err != nil || kp == nil {
				return [][]int{{-1}}
			}
			for _, p := range kp.Path {
				res = append(res, runes(p.Unbox().ScalarString()))
			}
			return res
		}
		namePath := func(o *d2graph.Object) [][]int {
			var p [][]int
			for x := o; x != nil && x != g.Root; x = x.Parent {
				p = append([][]int{runes(x.IDVal)}, p...)
			}
			return p
		}
		objs := []tr.M{}
		for _, o := range g.Objects {
			objs = append(objs, tr.M{"abs": o.AbsID(), "fold": strings.ToLower(o.AbsID()), "absParsed": seg(o.AbsID()), "idParsed": seg(o.ID), "names": namePath(o), "name": runes(o.IDVal)})
		}
		edges := []tr.M{}
		for _, e := range g.Edges {
			m := tr.M{"abs": e.AbsID(), "parses": 0, "index": e.Index, "parsedIndex": -1, "src": namePath(e.Src), "dst": namePath(e.Dst), "parsedSrc": [][]int{}, "parsedDst": [][]int{}, "sa": tr.B(e.SrcArrow), "da": tr.B(e.DstArrow), "psa": -1, "pda": -1}
			mk, err := d2parser.ParseMapKey(e.AbsID())
			if err == nil && mk != nil && len(mk.Edges) == 1 && mk.EdgeIndex != nil && mk.EdgeIndex.Int != nil {
				m["parses"] = 1
				m["parsedIndex"] = *mk.EdgeIndex.Int
				pre := [][]int{}
				if mk.Key != nil {
					for _, p := range mk.Key.Path {
						pre = append(pre, runes(p.Unbox().ScalarString()))
					}
				}
				full := func(kp *d2ast.KeyPath) [][]int {
					r := append([][]int{}, pre...)
					for _, p := range kp.Path {
						r = append(r, runes(p.Unbox().ScalarString()))
					}
					return r
				}
				m["parsedSrc"], m["parsedDst"] = full(mk.Edges[0].Src), full(mk.Edges[0].Dst)
				m["psa"], m["pda"] = tr.B(mk.Edges[0].SrcArrow == "<"), tr.B(mk.Edges[0].DstArrow == ">")
			}
			edges = append(edges, m)
		}
		ev["objs"], ev["edges"] = objs, edges
	})
	return []tr.M{ev}
}
