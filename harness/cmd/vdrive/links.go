package main

import (
	"encoding/base64"
	"encoding/json"
	"fmt"
	"math/rand"
	"os"
	"os/exec"
	"path/filepath"
	"regexp"
	"strings"
	"sync"
	"testing/fstest"

	"oss.terrastruct.com/d2/d2compiler"
	"oss.terrastruct.com/d2/d2graph"
	"oss.terrastruct.com/d2/d2parser"

	"verifharness/internal/tr"
)

// Family links (C35): trees of boards whose objects link to boards - relative, with underscores, absolute, to
// missing boards, to the board itself, from inside containers. The stored link of every object (real compiler)
// and, for a share of the programs, the href the real CLI wrote into the board's SVG file are logged.
// TraceD2Links.tla resolves the links and derives the files itself.

type linkObj struct {
	Obj  string   `json:"obj"`
	Toks []string `json:"toks"`
	Box  bool     `json:"box"` // declared inside a container
}
type linkBoard struct {
	Imported bool        `json:"imported,omitempty"` // the board's content lives in a file of its own: name: @file
	Kind     string      `json:"kind"`
	Name     string      `json:"name"`
	Links    []linkObj   `json:"links"`
	Kids     []linkBoard `json:"kids"`
}
type linksInput struct {
	Seed int64      `json:"seed"`
	Root *linkBoard `json:"root,omitempty"`
	CLI  bool       `json:"cli"`
}

func init() { register("links", driveLinks) }

func genLinks(seed int64) linksInput {
	r := rand.New(rand.NewSource(seed*4447 + 3))
	var all [][]string // every board path generated so far (flat)
	nobj := 0
	var mk func(kind, name string, path []string, depth int) linkBoard
	mk = func(kind, name string, path []string, depth int) linkBoard {
		b := linkBoard{Kind: kind, Name: name, Imported: depth > 0 && r.Intn(4) == 0}
		all = append(all, path)
		if depth < 2 {
			for _, kw := range []string{"layers", "scenarios", "steps"} {
				p := 30
				if depth == 0 {
					p = 55
				}
				if r.Intn(100) >= p {
					continue
				}
				for j := 1 + r.Intn(2); j > 0; j-- {
					nm := fmt.Sprintf("%s%d", kw[:1], len(b.Kids)+1)
					b.Kids = append(b.Kids, mk(kw, nm, append(append([]string{}, path...), kw, nm), depth+1))
				}
			}
		}
		return b
	}
	root := mk("", "", []string{}, 0)
	// links are drawn once the whole tree is known
	var fill func(b *linkBoard, path []string)
	fill = func(b *linkBoard, path []string) {
		for n := r.Intn(4); n > 0; n-- {
			nobj++
			var toks []string
			target := all[r.Intn(len(all))]
			switch r.Intn(8) {
			case 0: // absolute
				toks = append([]string{"root"}, target...)
			case 1: // a child or deeper, relative
				if len(b.Kids) > 0 {
					k := b.Kids[r.Intn(len(b.Kids))]
					toks = []string{k.Kind, k.Name}
					if len(k.Kids) > 0 && r.Intn(2) == 0 {
						toks = append(toks, k.Kids[0].Kind, k.Kids[0].Name)
					}
				} else {
					toks = []string{"layers", "nope"}
				}
			case 2: // a missing board
				toks = []string{[]string{"layers", "scenarios", "steps"}[r.Intn(3)], "nope"}
			case 3: // climb, then down to the target's tail: may or may not exist
				ups := 1 + r.Intn(3)
				for u := 0; u < ups; u++ {
					toks = append(toks, "_")
				}
				if len(target) >= 2 && r.Intn(3) != 0 {
					toks = append(toks, target[len(target)-2:]...)
				}
			case 4: // the board itself, spelled by climbing one level and coming back
				if len(path) >= 2 {
					toks = append([]string{"_"}, path[len(path)-2:]...)
				} else {
					toks = []string{"_"}
				}
			case 5: // the board itself, absolute
				toks = append([]string{"root"}, path...)
			default: // climb to the common ancestor of this board and a random one, then down
				c := 0
				for c+1 < len(path) && c+1 < len(target) && path[c] == target[c] && path[c+1] == target[c+1] {
					c += 2
				}
				for u := (len(path) - c) / 2; u > 0; u-- {
					toks = append(toks, "_")
				}
				toks = append(toks, target[c:]...)
				if len(toks) == 0 {
					toks = []string{"_"}
				}
			}
			b.Links = append(b.Links, linkObj{Obj: fmt.Sprintf("o%d", nobj), Toks: toks, Box: r.Intn(4) == 0})
		}
		for i := range b.Kids {
			fill(&b.Kids[i], append(append([]string{}, path...), b.Kids[i].Kind, b.Kids[i].Name))
		}
	}
	fill(&root, []string{})
	return linksInput{Seed: seed, Root: &root, CLI: seed%4 == 0}
}

func markerOf(path []string) string { return "m_" + strings.Join(path, "_") }

func renderLinks(b *linkBoard, path []string, ind string, sb *strings.Builder, files map[string]string) {
	fmt.Fprintf(sb, "%s%s\n", ind, markerOf(path))
	for _, o := range b.Links {
		if o.Box {
			fmt.Fprintf(sb, "%sbox: {\n%s  %s.link: %s\n%s}\n", ind, ind, o.Obj, strings.Join(o.Toks, "."), ind)
		} else {
			fmt.Fprintf(sb, "%s%s.link: %s\n", ind, o.Obj, strings.Join(o.Toks, "."))
		}
	}
	for _, kw := range []string{"layers", "scenarios", "steps"} {
		first := true
		for i := range b.Kids {
			if b.Kids[i].Kind != kw {
				continue
			}
			if first {
				fmt.Fprintf(sb, "%s%s: {\n", ind, kw)
				first = false
			}
			kp := append(append([]string{}, path...), b.Kids[i].Kind, b.Kids[i].Name)
			if b.Kids[i].Imported {
				// links written in an imported file are relative to the board the file becomes
				fn := "imp_" + strings.Join(kp, "_")
				var fb strings.Builder
				renderLinks(&b.Kids[i], kp, "", &fb, files)
				files[fn+".d2"] = fb.String()
				fmt.Fprintf(sb, "%s  %s: @%s\n", ind, b.Kids[i].Name, fn)
				continue
			}
			fmt.Fprintf(sb, "%s  %s: {\n", ind, b.Kids[i].Name)
			renderLinks(&b.Kids[i], kp, ind+"    ", sb, files)
			fmt.Fprintf(sb, "%s  }\n", ind)
		}
		if !first {
			fmt.Fprintf(sb, "%s}\n", ind)
		}
	}
}

var reGroup = regexp.MustCompile(`<g class="([A-Za-z0-9+/=]+)"`)
var reHref = regexp.MustCompile(`<a href="([^"]*)"[^>]*><g class="([A-Za-z0-9+/=]+)"`)

func driveLinks(c *Ctx) error {
	var inputs []linksInput
	if c.Replay != nil {
		var in linksInput
		if err := json.Unmarshal(c.Replay, &in); err != nil {
			return err
		}
		if in.Root == nil {
			in = genLinks(in.Seed)
		}
		inputs = []linksInput{in}
	} else {
		n, space := 600, 4800
		fmt.Sscanf(c.Args["n"], "%d", &n)
		lo, hi := 0, space
		if !c.Thorough() {
			lo = int((c.Seed*7919)%int64(space/n)) * n
			hi = lo + n
		}
		for i := lo; i < hi; i++ {
			inputs = append(inputs, genLinks(int64(i)+1))
		}
	}
	d2bin := c.Args["d2"]
	type result struct {
		ev     tr.M
		nt     []string
		sample tr.M
	}
	results := make([]result, len(inputs))
	var wg sync.WaitGroup
	sem := make(chan struct{}, 12)
	for i, in := range inputs {
		wg.Add(1)
		sem <- struct{}{}
		go func(i int, in linksInput) {
			defer wg.Done()
			defer func() { <-sem }()
			ev, nt, sample := linksRun(in, d2bin, c.Out)
			results[i] = result{ev, nt, sample}
		}(i, in)
	}
	wg.Wait()
	for i, in := range inputs {
		c.W.Add(tr.M{"seed": in.Seed}, []tr.M{results[i].ev}, results[i].nt...)
		if results[i].sample != nil {
			c.W.Sample("C35", results[i].sample)
		}
	}
	return nil
}

func linksRun(in linksInput, d2bin, outDir string) (tr.M, []string, tr.M) {
	{
		var sb strings.Builder
		impFiles := map[string]string{}
		renderLinks(in.Root, []string{}, "", &sb, impFiles)
		text := sb.String()
		ev := tr.M{"ev": "prog", "text": firstN(text, 900), "err": 0, "panic": 0, "msg": "", "cli": 0, "boards": [][]string{}, "links": []tr.M{}}
		var boards [][]string
		type lref struct {
			board int
			o     linkObj
			abs   string
			base  []string
		}
		var lrefs []lref
		var walk func(b *linkBoard, path []string, base []string)
		walk = func(b *linkBoard, path []string, base []string) {
			boards = append(boards, path)
			me := len(boards)
			if b.Imported {
				base = path
			}
			for _, o := range b.Links {
				abs := o.Obj
				if o.Box {
					abs = "box." + o.Obj
				}
				lrefs = append(lrefs, lref{me, o, abs, base})
			}
			for i := range b.Kids {
				walk(&b.Kids[i], append(append([]string{}, path...), b.Kids[i].Kind, b.Kids[i].Name), base)
			}
		}
		walk(in.Root, []string{}, []string{})
		ev["boards"] = boards
		stored := map[string][]string{} // board path / object -> stored link segments
		func() {
			defer func() {
				if p := recover(); p != nil {
					ev["panic"], ev["msg"] = 1, firstN(fmt.Sprint(p), 200)
				}
			}()
			mfs := fstest.MapFS{}
			for fn, t := range impFiles {
				mfs[fn] = &fstest.MapFile{Data: []byte(t)}
			}
			g, _, err := d2compiler.Compile("l.d2", strings.NewReader(text), &d2compiler.CompileOptions{FS: mfs})
			if err != nil {
				ev["err"], ev["msg"] = 1, firstN(err.Error(), 300)
				return
			}
			var rec func(bg *d2graph.Graph, path []string)
			rec = func(bg *d2graph.Graph, path []string) {
				for _, o := range bg.Objects {
					segs := []string{}
					if o.Link != nil {
						if kp, err := d2parser.ParseKey(o.Link.Value); err == nil {
							for _, p := range kp.Path {
								segs = append(segs, p.Unbox().ScalarString())
							}
						} else {
							segs = []string{"<unparseable>", o.Link.Value}
						}
					}
					stored[strings.Join(path, "/")+"|"+o.AbsID()] = segs
				}
				for _, x := range bg.Layers {
					rec(x, append(append([]string{}, path...), "layers", x.Name))
				}
				for _, x := range bg.Scenarios {
					rec(x, append(append([]string{}, path...), "scenarios", x.Name))
				}
				for _, x := range bg.Steps {
					rec(x, append(append([]string{}, path...), "steps", x.Name))
				}
			}
			rec(g, []string{})
		}()
		// the CLI: write the boards to files and read objects and hrefs back
		type fileFacts struct {
			objs  map[string]bool
			hrefs map[string][]string
		}
		files := map[string]*fileFacts{}
		if in.CLI && d2bin != "" && ev["err"] == 0 && ev["panic"] == 0 {
			dir, err := os.MkdirTemp(outDir, "cli-")
			if err == nil {
				os.WriteFile(filepath.Join(dir, "in.d2"), []byte(text), 0644)
				for fn, t := range impFiles {
					os.WriteFile(filepath.Join(dir, fn), []byte(t), 0644)
				}
				cmd := exec.Command(d2bin, "in.d2", "out.svg")
				cmd.Dir = dir
				cmd.Env = append(os.Environ(), "D2_LAYOUT=dagre")
				if out, err := cmd.CombinedOutput(); err == nil {
					ev["cli"] = 1
					filepath.Walk(dir, func(p string, info os.FileInfo, err error) error {
						if err != nil || info.IsDir() || !strings.HasSuffix(p, ".svg") {
							return nil
						}
						rel, _ := filepath.Rel(dir, p)
						rel = strings.TrimSuffix(rel, ".svg")
						b, _ := os.ReadFile(p)
						ff := &fileFacts{objs: map[string]bool{}, hrefs: map[string][]string{}}
						for _, m := range reGroup.FindAllSubmatch(b, -1) {
							if id, err := base64.StdEncoding.DecodeString(string(m[1])); err == nil {
								ff.objs[string(id)] = true
							}
						}
						for _, m := range reHref.FindAllSubmatch(b, -1) {
							id, _ := base64.StdEncoding.DecodeString(string(m[2]))
							ff.hrefs[string(id)] = strings.Split(strings.TrimSuffix(string(m[1]), ".svg"), "/")
						}
						files[rel] = ff
						return nil
					})
				} else {
					ev["msg"] = firstN(string(out), 200)
				}
				os.RemoveAll(dir)
			}
		}
		// the file of a board: the one that shows its marker and no marker of a board below it (scenarios and
		// steps show their base's markers too)
		fileOfBoard := func(path []string) string {
			own := markerOf(path)
			best := ""
			for f, ff := range files {
				if !ff.objs[own] {
					continue
				}
				below := false
				for o := range ff.objs {
					if strings.HasPrefix(o, "m_") && o != own && (own == "m_" || strings.HasPrefix(o, own+"_")) {
						below = true
					}
				}
				if !below && (best == "" || f < best) {
					best = f
				}
			}
			return best
		}
		links := []tr.M{}
		for _, lr := range lrefs {
			bp := boards[lr.board-1]
			m := tr.M{"board": lr.board, "obj": lr.abs, "toks": lr.o.Toks, "base": nz2(lr.base), "stored": []string{}, "href": []string{}, "file": []string{}}
			if s, ok := stored[strings.Join(bp, "/")+"|"+lr.abs]; ok {
				m["stored"] = s
			}
			if ev["cli"] == 1 {
				if f := fileOfBoard(bp); f != "" {
					m["file"] = strings.Split(f, "/")
					if h, ok := files[f].hrefs[lr.abs]; ok {
						m["href"] = h
					}
				}
			}
			links = append(links, m)
		}
		ev["links"] = links
		nt := []string{}
		if len(lrefs) > 0 && len(boards) > 1 {
			nt = []string{"C35"}
		}
		var sample tr.M
		if len(lrefs) > 1 {
			sample = tr.M{"seed": in.Seed, "program": firstN(text, 600)}
		}
		return ev, nt, sample
	}
}
