package main

import (
	"encoding/json"
	"fmt"
	"os"
	"sort"
	"strings"

	"oss.terrastruct.com/d2/d2compiler"

	"verifharness/internal/proj"
	"verifharness/internal/tr"
)

// Family ir (C09, C10, C11): programs over the declaration alphabet specs/ir_alphabet.json (shared
// with D2IR.tla). Every line prefix of a program is compiled with the real d2compiler.Compile and
// projected; TraceD2IR.tla applies the same declarations to its own state and compares.

type irDecl struct {
	K   string   `json:"k"`
	P   []string `json:"p,omitempty"`
	S   []string `json:"s,omitempty"`
	D   []string `json:"d,omitempty"`
	SA  int      `json:"sa,omitempty"`
	DA  int      `json:"da,omitempty"`
	I   int      `json:"i,omitempty"`
	A   string   `json:"a,omitempty"`
	V   string   `json:"v,omitempty"`
	Pat string   `json:"pat,omitempty"`
	C   string   `json:"c,omitempty"`  // cdef: the class
	CS  []string `json:"cs,omitempty"` // class: the classes an object takes
	SP  string   `json:"sp,omitempty"` // eglob: pattern of the source
	DP  string   `json:"dp,omitempty"` // eglob: pattern of the destination
}

type irAlphabet struct {
	Fold  map[string]string `json:"fold"`
	Attrs []string          `json:"attrs"`
	Decls []irDecl          `json:"decls"`
}

type irInput struct {
	Prog  []int `json:"prog"`  // 1-based indices into the alphabet's decls
	Style []int `json:"style"` // rendering variant per declaration
}

func init() { register("ir", driveIR) }

func loadAlphabet(path string) (*irAlphabet, error) {
	b, err := os.ReadFile(path)
	if err != nil {
		return nil, err
	}
	var a irAlphabet
	if err := json.Unmarshal(b, &a); err != nil {
		return nil, err
	}
	return &a, nil
}

func arrow(sa, da int) string {
	switch {
	case sa == 1 && da == 1:
		return "<->"
	case sa == 1:
		return "<-"
	case da == 1:
		return "->"
	}
	return "--"
}

// nest renders `a.b.c<suffix>` either flat or as nested maps, depending on style.
func nestKey(path []string, rest string, style int) string {
	if style%3 == 1 && len(path) >= 2 {
		// a: { b.c<rest> }
		return fmt.Sprintf("%s: { %s%s }", path[0], strings.Join(path[1:], "."), rest)
	}
	if style%3 == 2 && len(path) >= 2 {
		// a.b: { c<rest> } written over several lines
		return fmt.Sprintf("%s: {\n  %s%s\n}", strings.Join(path[:len(path)-1], "."), path[len(path)-1], rest)
	}
	return strings.Join(path, ".") + rest
}

func (d irDecl) render(style int) string {
	val := func(v string) string {
		if v == "" {
			return ""
		}
		return ": " + v
	}
	switch d.K {
	case "obj":
		return nestKey(d.P, val(d.V), style)
	case "attr":
		if style%2 == 1 {
			// a: { style.opacity: 0.5 } / a: { shape: circle }
			return fmt.Sprintf("%s: { %s: %s }", strings.Join(d.P, "."), d.A, d.V)
		}
		return nestKey(append(append([]string{}, d.P...), strings.Split(d.A, ".")...), ": "+d.V, style)
	case "anull":
		return strings.Join(d.P, ".") + "." + d.A + ": null"
	case "null":
		return nestKey(d.P, ": null", style)
	case "edge":
		return fmt.Sprintf("%s %s %s%s", strings.Join(d.S, "."), arrow(d.SA, d.DA), strings.Join(d.D, "."), val(d.V))
	case "eref":
		return fmt.Sprintf("(%s %s %s)[%d].%s: %s", strings.Join(d.S, "."), arrow(d.SA, d.DA), strings.Join(d.D, "."), d.I, d.A, d.V)
	case "cdef":
		switch style % 3 {
		case 1:
			return fmt.Sprintf("classes: {\n  %s: {\n    %s: %s\n  }\n}", d.C, d.A, d.V)
		case 2:
			return fmt.Sprintf("classes.%s: { %s: %s }", d.C, d.A, d.V)
		}
		return fmt.Sprintf("classes.%s.%s: %s", d.C, d.A, d.V)
	case "class":
		v := d.CS[0]
		if len(d.CS) > 1 {
			v = "[" + strings.Join(d.CS, "; ") + "]"
		}
		if style%2 == 1 {
			return fmt.Sprintf("%s: { class: %s }", strings.Join(d.P, "."), v)
		}
		return strings.Join(d.P, ".") + ".class: " + v
	case "classnull":
		return strings.Join(d.P, ".") + ".class: null"
	case "glob":
		return strings.Join(append(append([]string{}, d.P...), d.Pat, d.A), ".") + ": " + d.V
	case "gedge":
		return fmt.Sprintf("* %s *%s", arrow(d.SA, d.DA), val(d.V))
	case "eglob":
		return fmt.Sprintf("(%s %s %s)[*].%s: %s", d.SP, arrow(d.SA, d.DA), d.DP, d.A, d.V)
	case "enull":
		return fmt.Sprintf("(%s %s %s)[%d]: null", strings.Join(d.S, "."), arrow(d.SA, d.DA), strings.Join(d.D, "."), d.I)
	}
	return "# ?"
}

func kvPairs(m map[string]string) [][]string {
	ks := make([]string, 0, len(m))
	for k := range m {
		ks = append(ks, k)
	}
	sort.Strings(ks)
	res := [][]string{}
	for _, k := range ks {
		res = append(res, []string{k, m[k]})
	}
	return res
}

// irObs is what TLC compares: only mandated facts, paths as parsed back by the real parser.
func irObs(b proj.Board) tr.M {
	objs := []tr.M{}
	for _, o := range b.Objs {
		par := []string{}
		if o.Parent != "" {
			par = proj.KeyPath(o.Parent)
		}
		at := map[string]string{}
		for k, v := range o.Attrs {
			if k != "class" { // the class assignment itself is not compared, its effect on the attributes is
				at[k] = v
			}
		}
		cls := []string{}
		if c := o.Attrs["class"]; c != "" {
			cls = strings.Split(c, ";")
		}
		objs = append(objs, tr.M{"path": o.Path, "spell": o.Spell, "parent": par, "label": o.Label, "shape": o.Shape, "attrs": kvPairs(at), "cls": cls})
	}
	edges := []tr.M{}
	for _, e := range b.Edges {
		edges = append(edges, tr.M{"src": e.SrcP, "dst": e.DstP, "sa": e.SA, "da": e.DA, "idx": e.Idx, "label": e.Label, "attrs": kvPairs(e.Attrs)})
	}
	return tr.M{"objs": objs, "edges": edges}
}

func driveIR(c *Ctx) error {
	ap := c.Args["alphabet"]
	if ap == "" {
		return fmt.Errorf("ir: need -arg alphabet=<ir_alphabet.json>")
	}
	al, err := loadAlphabet(ap)
	if err != nil {
		return err
	}
	n := len(al.Decls)
	var inputs []irInput
	if c.Replay != nil {
		var in irInput
		if err := json.Unmarshal(c.Replay, &in); err != nil {
			return err
		}
		inputs = []irInput{in}
	} else {
		exhaust := 2
		samples := 2500
		maxLen := 7
		if c.Thorough() {
			exhaust = 3
			samples = 30000
			maxLen = 10
		}
		var rec func(cur []int)
		rec = func(cur []int) {
			if len(cur) > 0 {
				inputs = append(inputs, irInput{Prog: append([]int(nil), cur...)})
			}
			if len(cur) == exhaust {
				return
			}
			for i := 1; i <= n; i++ {
				rec(append(cur, i))
			}
		}
		rec(nil)
		// behaviours TLC produced on design variants (counter-examples), replayed into the real code
		if ef := c.Args["extra"]; ef != "" {
			if b, err := os.ReadFile(ef); err == nil {
				var ex []irInput
				if json.Unmarshal(b, &ex) == nil {
					inputs = append(inputs, ex...)
				}
			}
		}
		// connection histories: per bundle, k creations, one indexed deletion, creations, an indexed update
		byBundle := map[string]map[string][]int{}
		for i, d := range al.Decls {
			if d.K == "edge" || d.K == "eref" || d.K == "enull" {
				key := fmt.Sprint(foldAll(al, d.S), foldAll(al, d.D), d.SA, d.DA)
				if byBundle[key] == nil {
					byBundle[key] = map[string][]int{}
				}
				byBundle[key][d.K] = append(byBundle[key][d.K], i+1)
			}
		}
		bkeys := make([]string, 0, len(byBundle))
		for k := range byBundle {
			bkeys = append(bkeys, k)
		}
		sort.Strings(bkeys)
		for _, bk := range bkeys {
			b := byBundle[bk]
			if len(b["edge"]) == 0 || len(b["enull"]) == 0 || len(b["eref"]) == 0 {
				continue
			}
			for k := 1; k <= 3; k++ {
				for _, del := range b["enull"] {
					for more := 0; more <= 2; more++ {
						for _, ref := range b["eref"] {
							var p []int
							for x := 0; x < k; x++ {
								p = append(p, b["edge"][x%len(b["edge"])])
							}
							p = append(p, del)
							for x := 0; x < more; x++ {
								p = append(p, b["edge"][(x+1)%len(b["edge"])])
							}
							p = append(p, ref)
							inputs = append(inputs, irInput{Prog: p})
						}
					}
				}
			}
		}
		// connection-heavy and null-heavy seeded programs
		var edgeish, nullish []int
		for i, d := range al.Decls {
			switch d.K {
			case "edge", "eref", "enull", "gedge", "eglob":
				edgeish = append(edgeish, i+1)
			case "null", "anull":
				nullish = append(nullish, i+1)
			}
		}
		for k := 0; k < samples; k++ {
			ln := exhaust + 1 + c.Rng.Intn(maxLen-exhaust)
			p := make([]int, ln)
			st := make([]int, ln)
			for j := range p {
				switch r := c.Rng.Intn(10); {
				case k%3 == 0 && r < 6 && len(edgeish) > 0:
					p[j] = edgeish[c.Rng.Intn(len(edgeish))]
				case k%3 == 1 && r < 3 && len(nullish) > 0:
					p[j] = nullish[c.Rng.Intn(len(nullish))]
				default:
					p[j] = 1 + c.Rng.Intn(n)
				}
				st[j] = c.Rng.Intn(6)
			}
			inputs = append(inputs, irInput{Prog: p, Style: st})
		}
	}
	// a glob on connections is not repeated verbatim within a program (what a repetition does is KF-C12-1's subject)
	repeats := func(p []int) bool {
		seen := map[int]bool{}
		for _, di := range p {
			if di >= 1 && di <= n && (al.Decls[di-1].K == "gedge" || al.Decls[di-1].K == "eglob") {
				if seen[di] {
					return true
				}
				seen[di] = true
			}
		}
		return false
	}
	for _, in := range inputs {
		if c.Replay == nil && repeats(in.Prog) {
			continue
		}
		lines := make([]string, len(in.Prog))
		hasEdgeOp, hasNull, hasGlob := false, false, false
		for j, di := range in.Prog {
			if di < 1 || di > n {
				return fmt.Errorf("ir: declaration index %d out of range", di)
			}
			st := 0
			if j < len(in.Style) {
				st = in.Style[j]
			}
			d := al.Decls[di-1]
			lines[j] = d.render(st)
			if d.K == "eref" || d.K == "enull" {
				hasEdgeOp = true
			}
			if d.K == "null" || d.K == "anull" || d.K == "class" || d.K == "cdef" {
				hasNull = true // (counts towards C10's non-trivial programs)
			}
			if d.K == "glob" || d.K == "gedge" || d.K == "eglob" {
				hasGlob = true
			}
		}
		var evs []tr.M
		for j := range in.Prog {
			src := strings.Join(lines[:j+1], "\n") + "\n"
			ev := tr.M{"ev": "decl", "d": in.Prog[j], "text": lines[j]}
			g, _, err := d2compiler.Compile("p.d2", strings.NewReader(src), nil)
			if err != nil {
				ev["err"] = 1
				ev["msg"] = firstLine(err.Error())
				ev["obs"] = tr.M{"objs": []tr.M{}, "edges": []tr.M{}}
			} else {
				ev["err"] = 0
				ev["msg"] = ""
				ev["obs"] = irObs(proj.Graph(g, nil))
			}
			evs = append(evs, ev)
		}
		nt := []string{}
		if len(in.Prog) >= 2 {
			nt = append(nt, "C09")
			if hasNull || len(in.Prog) >= 3 {
				nt = append(nt, "C10")
			}
			if hasEdgeOp {
				nt = append(nt, "C11")
			}
			if hasGlob {
				nt = append(nt, "C12")
			}
		}
		c.W.Add(in, evs, nt...)
		if len(in.Prog) >= 4 {
			for _, p := range []string{"C09", "C10", "C11", "C12"} {
				c.W.Sample(p, tr.M{"program": lines})
			}
		}
	}
	return nil
}

func foldAll(al *irAlphabet, p []string) []string {
	r := make([]string, len(p))
	for i, s := range p {
		r[i] = al.Fold[s]
	}
	return r
}

func firstLine(s string) string {
	if i := strings.Index(s, "\n"); i >= 0 {
		s = s[:i]
	}
	if len(s) > 160 {
		s = s[:160]
	}
	return s
}
