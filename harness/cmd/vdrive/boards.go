package main

import (
	"encoding/json"
	"fmt"
	"math/rand"
	"strings"

	"oss.terrastruct.com/d2/d2compiler"

	"verifharness/internal/proj"
	"verifharness/internal/tr"
)

// Family boards (C15): trees of boards over the declaration alphabet of the ir family. The real compiler's
// projection of every board is logged next to the tree; TraceD2Boards.tla derives what each board has to
// contain from the inheritance rule and D2IR's Apply.

type boardNode struct {
	Kind   string      `json:"kind"` // root | layer | scenario | step
	Name   string      `json:"name"`
	Decls  []int       `json:"decls"`          // own declarations (1-based alphabet indices) in source order
	Styles []int       `json:"styles"`         // how each is written
	Kids   []boardKids `json:"kids,omitempty"` // blocks of nested boards with their position among the declarations
}
type boardKids struct {
	Kind   string      `json:"kind"` // layers | scenarios | steps
	Pos    int         `json:"pos"`  // number of own declarations written before the block
	Boards []boardNode `json:"boards"`
}
type boardsInput struct {
	Seed int64      `json:"seed"`
	Root *boardNode `json:"root,omitempty"`
}

func init() { register("boards", driveBoards) }

func genBoards(seed int64, usable []int) boardsInput {
	r := rand.New(rand.NewSource(seed*6151 + 29))
	var plain, erefs []int
	for _, u := range usable {
		if u >= 31 && u <= 35 {
			erefs = append(erefs, u)
		} else {
			plain = append(plain, u)
		}
	}
	decls := func(lo, hi int) ([]int, []int) {
		n := lo + r.Intn(hi-lo+1)
		d, s := make([]int, n), make([]int, n)
		for i := range d {
			d[i], s[i] = plain[r.Intn(len(plain))], r.Intn(6)
			if r.Intn(100) < 4 && len(erefs) > 0 {
				d[i] = erefs[r.Intn(len(erefs))] // a reference the board may or may not be able to resolve
			}
		}
		if r.Intn(100) < 30 && len(erefs) > 0 {
			// a connection a -> b followed (not necessarily at once) by a reference to its bundle
			d, s = append(d, 22+r.Intn(2)), append(s, r.Intn(6))
			d, s = append(d, []int{31, 33}[r.Intn(2)]), append(s, 0)
		}
		return d, s
	}
	var mk func(kind, name string, depth int) boardNode
	mk = func(kind, name string, depth int) boardNode {
		b := boardNode{Kind: kind, Name: name}
		if kind == "root" {
			b.Decls, b.Styles = decls(2, 6)
		} else {
			b.Decls, b.Styles = decls(0, 3)
		}
		if depth >= 2 {
			return b
		}
		for _, kw := range []string{"layers", "scenarios", "steps"} {
			p := 35
			if depth == 0 {
				p = 60
			}
			if r.Intn(100) >= p {
				continue
			}
			ks := boardKids{Kind: kw, Pos: r.Intn(len(b.Decls) + 1)}
			if r.Intn(3) == 0 {
				ks.Pos = len(b.Decls)
			}
			for j := 1 + r.Intn(3); j > 0; j-- {
				ck := map[string]string{"layers": "layer", "scenarios": "scenario", "steps": "step"}[kw]
				nm := fmt.Sprintf("%s%d", ck[:1], len(ks.Boards)+1)
				if kw == "steps" {
					nm = fmt.Sprint(len(ks.Boards) + 1)
				}
				ks.Boards = append(ks.Boards, mk(ck, nm, depth+1))
			}
			b.Kids = append(b.Kids, ks)
		}
		return b
	}
	root := mk("root", "", 0)
	return boardsInput{Seed: seed, Root: &root}
}

func renderBoard(al *irAlphabet, b *boardNode, ind string, sb *strings.Builder) {
	emitKids := func(pos int) {
		for _, ks := range b.Kids {
			if ks.Pos != pos {
				continue
			}
			fmt.Fprintf(sb, "%s%s: {\n", ind, ks.Kind)
			for i := range ks.Boards {
				fmt.Fprintf(sb, "%s  %s: {\n", ind, ks.Boards[i].Name)
				renderBoard(al, &ks.Boards[i], ind+"    ", sb)
				fmt.Fprintf(sb, "%s  }\n", ind)
			}
			fmt.Fprintf(sb, "%s}\n", ind)
		}
	}
	for i, d := range b.Decls {
		emitKids(i)
		for _, l := range strings.Split(al.Decls[d-1].render(b.Styles[i]), "\n") {
			fmt.Fprintf(sb, "%s%s\n", ind, l)
		}
	}
	emitKids(len(b.Decls))
}

func driveBoards(c *Ctx) error {
	al, err := loadAlphabet(c.Args["alphabet"])
	if err != nil {
		return err
	}
	// the alphabet without the declarations whose meaning the ir family already records as deviating
	// (explicit label fields: KF-C10-1) and without indexed deletions
	var usable []int
	for i, d := range al.Decls {
		if (d.K == "attr" || d.K == "anull") && d.A == "label" || d.K == "enull" || d.K == "glob" {
			continue
		}
		usable = append(usable, i+1)
	}
	var inputs []boardsInput
	if c.Replay != nil {
		var in boardsInput
		if err := json.Unmarshal(c.Replay, &in); err != nil {
			return err
		}
		if in.Root == nil {
			in = genBoards(in.Seed, usable)
		}
		inputs = []boardsInput{in}
	} else {
		n, space := 1000, 8000
		fmt.Sscanf(c.Args["n"], "%d", &n)
		lo, hi := 0, space
		if !c.Thorough() {
			lo = int((c.Seed*7919)%int64(space/n)) * n
			hi = lo + n
		}
		for i := lo; i < hi; i++ {
			inputs = append(inputs, genBoards(int64(i)+1, usable))
		}
	}
	for _, in := range inputs {
		var sb strings.Builder
		renderBoard(al, in.Root, "", &sb)
		text := sb.String()
		ev := tr.M{"ev": "prog", "text": firstN(text, 900), "err": 0, "panic": 0, "msg": "", "boards": []tr.M{}}
		// flatten the tree: parents before children, a step knows its predecessor
		type flat struct {
			m    tr.M
			path []string
		}
		var flats []flat
		var walk func(b *boardNode, parent int, pos int, prev int, path []string) int
		walk = func(b *boardNode, parent, pos, prev int, path []string) int {
			idx := len(flats) + 1
			flats = append(flats, flat{m: tr.M{"kind": b.Kind, "parent": parent, "pos": pos, "prev": prev, "decls": append([]int{}, b.Decls...), "path": strings.Join(path, "/"), "found": 0,
				"obs": tr.M{"objs": []tr.M{}, "edges": []tr.M{}}}, path: path})
			for _, ks := range b.Kids {
				pv := 0
				for i := range ks.Boards {
					p2 := append(append([]string{}, path...), ks.Kind, ks.Boards[i].Name)
					me := walk(&ks.Boards[i], idx, ks.Pos, pv, p2)
					if ks.Kind == "steps" {
						pv = me
					}
				}
			}
			return idx
		}
		walk(in.Root, 0, 0, 0, []string{})
		func() {
			defer func() {
				if p := recover(); p != nil {
					ev["panic"], ev["msg"] = 1, firstN(fmt.Sprint(p), 200)
				}
			}()
			g, _, err := d2compiler.Compile("b.d2", strings.NewReader(text), nil)
			if err != nil {
				ev["err"], ev["msg"] = 1, firstN(err.Error(), 300)
				return
			}
			for _, b := range proj.Boards(g) {
				for i := range flats {
					if strings.Join(b.Path, "/") == flats[i].m["path"] {
						flats[i].m["found"] = 1
						flats[i].m["obs"] = irObs(b)
					}
				}
			}
		}()
		bs := []tr.M{}
		for _, f := range flats {
			bs = append(bs, f.m)
		}
		ev["boards"] = bs
		nt := []string{}
		if len(flats) > 1 {
			nt = []string{"C15"}
		}
		c.W.Add(tr.M{"seed": in.Seed}, []tr.M{ev}, nt...)
		if len(flats) > 2 {
			c.W.Sample("C15", tr.M{"seed": in.Seed, "program": firstN(text, 600)})
		}
	}
	return nil
}
