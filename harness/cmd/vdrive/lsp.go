package main

import (
	"encoding/json"
	"fmt"
	"math/rand"
	"strings"
	"time"

	"oss.terrastruct.com/d2/d2ast"
	"oss.terrastruct.com/d2/d2lsp"
	"oss.terrastruct.com/d2/d2parser"

	"verifharness/internal/tr"
)

// Family lsp (C42): the board trees of the boards family, with the place of every board's block in the text.
// GetBoardAtPosition, GetRefRanges and GetCompletionItems of the real d2lsp package are called on them.

func init() { register("lsp", driveLsp) }

type lspBlock struct {
	Path        []string
	Open, Close int
}
type lspGap struct {
	Open, Close int
	Inner       []lspBlock
}

// renderBoardRec is renderBoard that also notes where blocks begin and end (byte offsets of the braces)
func renderBoardRec(al *irAlphabet, b *boardNode, path []string, ind string, sb *strings.Builder, blocks *[]lspBlock, gaps *[]lspGap) {
	emitKids := func(pos int) {
		for _, ks := range b.Kids {
			if ks.Pos != pos {
				continue
			}
			fmt.Fprintf(sb, "%s%s: {", ind, ks.Kind)
			g := lspGap{Open: sb.Len() - 1}
			sb.WriteString("\n")
			for i := range ks.Boards {
				fmt.Fprintf(sb, "%s  %s: {", ind, ks.Boards[i].Name)
				blk := lspBlock{Path: append(append([]string{}, path...), ks.Kind, ks.Boards[i].Name), Open: sb.Len() - 1}
				sb.WriteString("\n")
				renderBoardRec(al, &ks.Boards[i], blk.Path, ind+"    ", sb, blocks, gaps)
				fmt.Fprintf(sb, "%s  }", ind)
				blk.Close = sb.Len() - 1
				sb.WriteString("\n")
				*blocks = append(*blocks, blk)
				g.Inner = append(g.Inner, blk)
			}
			fmt.Fprintf(sb, "%s}", ind)
			g.Close = sb.Len() - 1
			sb.WriteString("\n")
			*gaps = append(*gaps, g)
		}
	}
	for i, d := range b.Decls {
		emitKids(i)
		for _, l := range strings.Split(al.Decls[d-1].render(b.Styles[i]), "\n") {
			fmt.Fprintf(sb, "%s%s\n", ind, l)
		}
	}
	emitKids(len(b.Decls))
}

func driveLsp(c *Ctx) error {
	al, err := loadAlphabet(c.Args["alphabet"])
	if err != nil {
		return err
	}
	var usable []int
	for i, d := range al.Decls {
		if (d.K == "attr" || d.K == "anull") && d.A == "label" || d.K == "enull" || d.K == "glob" || d.K == "eref" {
			continue
		}
		usable = append(usable, i+1)
	}
	var seeds []int64
	if c.Replay != nil {
		var in boardsInput
		if err := json.Unmarshal(c.Replay, &in); err != nil {
			return err
		}
		seeds = []int64{in.Seed}
	} else {
		n, space := 300, 2400
		fmt.Sscanf(c.Args["n"], "%d", &n)
		lo, hi := 0, space
		if !c.Thorough() {
			lo = int((c.Seed*7919)%int64(space/n)) * n
			hi = lo + n
		}
		for i := lo; i < hi; i++ {
			seeds = append(seeds, int64(i)+1)
		}
	}
	for _, seed := range seeds {
		in := genBoards(seed, usable)
		var sb strings.Builder
		var blocks []lspBlock
		var gaps []lspGap
		renderBoardRec(al, in.Root, nil, "", &sb, &blocks, &gaps)
		text := sb.String()
		r := rand.New(rand.NewSource(seed*313 + 1))
		var evs []tr.M
		blocksM := []tr.M{}
		for _, b := range blocks {
			blocksM = append(blocksM, tr.M{"path": b.Path, "open": b.Open, "close": b.Close})
		}
		gapsM := []tr.M{}
		for _, g := range gaps {
			inner := []tr.M{}
			for _, b := range g.Inner {
				inner = append(inner, tr.M{"open": b.Open, "close": b.Close})
			}
			gapsM = append(gapsM, tr.M{"open": g.Open, "close": g.Close, "inner": inner})
		}
		// ---- positions: every line start and line end, and a few random offsets
		lineStart := []int{0}
		for i, ch := range []byte(text) {
			if ch == '\n' && i+1 < len(text) {
				lineStart = append(lineStart, i+1)
			}
		}
		var offs []int
		for _, ls := range lineStart {
			offs = append(offs, ls)
		}
		for k := 0; k < 10 && len(text) > 0; k++ {
			offs = append(offs, r.Intn(len(text)))
		}
		// around every brace of a board block
		for _, b := range blocks {
			for _, o := range []int{b.Open, b.Open + 1, b.Close, b.Close + 1} {
				if o >= 0 && o < len(text) {
					offs = append(offs, o)
				}
			}
		}
		lineCol := func(off int) (int, int) {
			ln := 0
			for i, ls := range lineStart {
				if ls <= off {
					ln = i
				}
			}
			return ln, off - lineStart[ln]
		}
		for _, off := range offs {
			ln, col := lineCol(off)
			ev := tr.M{"ev": "pos", "off": off, "line": ln, "col": col, "got": []string{}, "panic": 0, "msg": "", "blocks": blocksM, "gaps": gapsM, "text": firstN(text, 500)}
			func() {
				defer func() {
					if p := recover(); p != nil {
						ev["panic"], ev["msg"] = 1, firstN(fmt.Sprint(p), 160)
					}
				}()
				got, _ := d2lsp.GetBoardAtPosition(text, d2ast.Position{Line: ln, Column: col})
				ev["got"] = nz2(got)
			}()
			evs = append(evs, ev)
		}
		// ---- references: for every board and key of the alphabet's objects
		fs := map[string]string{"index.d2": text}
		var boardsFlat []struct {
			path  []string
			decls []int
		}
		var walk func(b *boardNode, path []string, inherited []int)
		walk = func(b *boardNode, path []string, inherited []int) {
			own := append(append([]int{}, inherited...), b.Decls...)
			boardsFlat = append(boardsFlat, struct {
				path  []string
				decls []int
			}{path, own})
			for _, ks := range b.Kids {
				prev := []int(nil)
				for i := range ks.Boards {
					var inh []int
					switch ks.Kind {
					case "scenarios":
						inh = append(append([]int{}, inherited...), b.Decls[:ks.Pos]...)
					case "steps":
						if prev == nil {
							inh = append(append([]int{}, inherited...), b.Decls[:ks.Pos]...)
						} else {
							inh = prev
						}
					}
					walk(&ks.Boards[i], append(append([]string{}, path...), ks.Kind, ks.Boards[i].Name), inh)
					if ks.Kind == "steps" {
						prev = append(append([]int{}, inh...), ks.Boards[i].Decls...)
					}
				}
			}
		}
		walk(in.Root, nil, nil)
		keys := [][]string{{"a"}, {"b"}, {"a", "c"}, {"a", "b"}}
		for _, bf := range boardsFlat {
			for _, key := range keys {
				// how many declarations of the board's derivation declare the key (as their own path)
				declared := 0
				for _, di := range bf.decls {
					d := al.Decls[di-1]
					if d.K == "null" && len(d.P) <= len(key) && strings.EqualFold(strings.Join(d.P, "."), strings.Join(key[:len(d.P)], ".")) {
						declared = 0 // the key (or a container of it) is deleted: what was declared before no longer refers to it
						continue
					}
					if (d.K == "obj" || d.K == "attr") && strings.EqualFold(strings.Join(d.P, "."), strings.Join(key, ".")) {
						declared++
					}
				}
				// names of boards: kind and name alternate; GetRefRanges takes them as written
				ev := tr.M{"ev": "refs", "board": nz2(bf.path), "key": strings.Join(key, "."), "declared": declared, "ranges": []tr.M{}, "err": 0, "panic": 0, "msg": "", "text": firstN(text, 500)}
				func() {
					defer func() {
						if p := recover(); p != nil {
							ev["panic"], ev["msg"] = 1, firstN(fmt.Sprint(p), 160)
						}
					}()
					ranges, _, err := d2lsp.GetRefRanges("index.d2", fs, bf.path, strings.Join(key, "."))
					if err != nil {
						ev["err"], ev["msg"] = 1, firstN(err.Error(), 160)
						return
					}
					rs := []tr.M{}
					for _, rg := range ranges {
						m := tr.M{"start": rg.Start.Byte, "end": rg.End.Byte, "inside": 0, "names": 0, "covered": ""}
						if rg.Start.Byte >= 0 && rg.End.Byte <= len(text) && rg.Start.Byte <= rg.End.Byte {
							m["inside"] = 1
							cov := text[rg.Start.Byte:rg.End.Byte]
							m["covered"] = firstN(cov, 80)
							m["names"] = tr.B(coveredNames(cov, key[len(key)-1]))
						}
						rs = append(rs, m)
					}
					ev["ranges"] = rs
				}()
				evs = append(evs, ev)
			}
		}
		// ---- completion: at sampled positions of the text and of the text cut off there
		for k := 0; k < 12 && len(text) > 0; k++ {
			off := offs[r.Intn(len(offs))]
			cut := k % 2
			t := text
			if cut == 1 {
				t = text[:off]
			}
			ln, col := lineCol(off)
			ev := tr.M{"ev": "completion", "off": off, "cut": cut, "panic": 0, "hang": 0, "msg": ""}
			done := make(chan struct{})
			go func() {
				defer close(done)
				defer func() {
					if p := recover(); p != nil {
						ev["panic"], ev["msg"] = 1, firstN(fmt.Sprint(p), 160)
					}
				}()
				d2lsp.GetCompletionItems(t, ln, col)
			}()
			select {
			case <-done:
			case <-time.After(10 * time.Second):
				ev["hang"] = 1
			}
			evs = append(evs, ev)
		}
		c.W.Add(tr.M{"seed": seed}, evs, "C42")
		c.W.Sample("C42", tr.M{"seed": seed, "program": firstN(text, 400)})
	}
	return nil
}

// coveredNames: does the covered source text, read as a map key, mention the name (case-folded) among its
// key segments or connection ends?
func coveredNames(cov, name string) bool {
	mk, err := d2parser.ParseMapKey(strings.TrimSpace(cov))
	if err != nil || mk == nil {
		kp, err2 := d2parser.ParseKey(strings.TrimSpace(cov))
		if err2 != nil || kp == nil {
			return false
		}
		for _, p := range kp.Path {
			if strings.EqualFold(p.Unbox().ScalarString(), name) {
				return true
			}
		}
		return false
	}
	has := func(kp *d2ast.KeyPath) bool {
		if kp == nil {
			return false
		}
		for _, p := range kp.Path {
			if strings.EqualFold(p.Unbox().ScalarString(), name) {
				return true
			}
		}
		return false
	}
	if has(mk.Key) {
		return true
	}
	for _, e := range mk.Edges {
		if has(e.Src) || has(e.Dst) {
			return true
		}
	}
	return false
}
