package main

import (
	"encoding/json"
	"fmt"
	"math/big"
	"os"
	"regexp"
	"sort"
	"strconv"
	"strings"

	"oss.terrastruct.com/d2/d2compiler"
	"oss.terrastruct.com/d2/d2parser"

	"verifharness/internal/proj"
	"verifharness/internal/tr"
)

// Family attrs (C16): one declaration <context>.<attribute>: <value> per event, compiled by the real
// d2compiler.Compile. The value is described lexically (integer / decimal / neither, its size, lower case,
// hex length); whether it lies in the documented domain is decided by TraceD2Attrs.tla from
// specs/attr_domains.json, not here.

type attrInput struct {
	Ctx      string `json:"ctx"`  // obj, edge, arrowhead, config
	Attr     string `json:"attr"` // key in attr_domains.json
	Raw      string `json:"raw"`
	Gradient int    `json:"gradient,omitempty"` // 1: built as a valid gradient of valid colours
}

func init() { register("attrs", driveAttrs) }

type domEntry struct {
	Kind string   `json:"kind"`
	Lo   int      `json:"lo"`
	Hi   int      `json:"hi"`
	Set  []string `json:"set"`
	CI   int      `json:"ci"`
}

var reInt = regexp.MustCompile(`^[+-]?[0-9]+$`)
var reDec = regexp.MustCompile(`^[+-]?([0-9]+\.[0-9]*|\.[0-9]+)$`)
var reHex = regexp.MustCompile(`^#[0-9a-fA-F]+$`)

func lexValue(raw string, gradient int) tr.M {
	v := tr.M{"raw": raw, "lower": strings.ToLower(raw), "num": "none", "int": 0, "milli": 0, "excess": 0, "big": 0, "canon": "", "hex": -1, "gradient": gradient}
	if reHex.MatchString(raw) {
		v["hex"] = len(raw) - 1
	}
	if reInt.MatchString(raw) || reDec.MatchString(raw) {
		if reInt.MatchString(raw) {
			v["num"] = "int"
		} else {
			v["num"] = "dec"
		}
		s := raw
		if strings.HasSuffix(s, ".") {
			s += "0"
		}
		r, ok := new(big.Rat).SetString(s)
		if !ok {
			v["num"] = "none"
			return v
		}
		m := new(big.Rat).Mul(r, big.NewRat(1000, 1))
		fl := new(big.Int).Div(m.Num(), m.Denom()) // Euclidean division: floor for a positive denominator
		if !fl.IsInt64() || fl.Int64() > 1e12 || fl.Int64() < -1e12 {
			v["big"] = 1
			return v
		}
		v["milli"] = int(fl.Int64())
		if !m.IsInt() {
			v["excess"] = 1
		}
		if v["num"] == "int" {
			v["int"] = int(fl.Int64() / 1000)
			v["canon"] = r.Num().String()
		}
	}
	return v
}

// quote writes a value the way a user would: bare when the unquoted syntax carries it, else double-quoted
var reBare = regexp.MustCompile(`^[A-Za-z0-9_.+-][A-Za-z0-9_.+-]*$`)

func quoteVal(raw string) string {
	if reBare.MatchString(raw) && !strings.HasPrefix(raw, "-") || reInt.MatchString(raw) || reDec.MatchString(raw) {
		return raw
	}
	return strconv.Quote(raw)
}

func attrValues(d domEntry, named []string, rnd func(int) int) []attrInput {
	var vs []attrInput
	add := func(raws ...string) {
		for _, r := range raws {
			vs = append(vs, attrInput{Raw: r})
		}
	}
	garbage := []string{"abc", "x1", "1x", "--1", "1..2", "0,5", "١", "null-ish", "true1"}
	cases := func(s string) []string {
		if s == "" {
			return nil
		}
		return []string{s, strings.ToUpper(s), strings.ToUpper(s[:1]) + s[1:]}
	}
	ints := func(lo, hi int) {
		add(strconv.Itoa(lo-1), strconv.Itoa(lo), strconv.Itoa(lo+1), "-1", "0", "1", "+"+strconv.Itoa(lo+1), "0"+strconv.Itoa(lo+1), "99999999999999999999", "-99999999999999999999", "3.5", "5.0", "1e1", "0x10", "NaN", "Inf")
		if hi >= 0 {
			add(strconv.Itoa(hi-1), strconv.Itoa(hi), strconv.Itoa(hi+1), strconv.Itoa((lo+hi)/2), strconv.Itoa(hi*10+7))
			for k := 0; k < 4; k++ {
				add(strconv.Itoa(lo + rnd(hi-lo+1)))
				add(strconv.Itoa(hi + 1 + rnd(1000)))
			}
		} else {
			add("7", "120", "4096", "1000000")
			for k := 0; k < 4; k++ {
				add(strconv.Itoa(lo+rnd(5000)), strconv.Itoa(-1-rnd(5000)))
			}
		}
		add(garbage...)
	}
	switch d.Kind {
	case "unit":
		add("0", "1", "0.5", "0.0", "1.0", "0.999", "0.001", "1.001", "1.0001", "0.9999", "-0.1", "-0.001", "-0", "2", "1.5", "10", "-1", ".5", "1.", "+0.5", "00.5", "NaN", "Inf", "-Inf", "+Inf", "nan", "infinity", "99999999999999999999")
		for k := 0; k < 6; k++ {
			add(fmt.Sprintf("0.%03d", rnd(1000)), fmt.Sprintf("%d.%d", 1+rnd(9), rnd(10)), fmt.Sprintf("-0.%d", 1+rnd(9)))
		}
		add(garbage...)
		add("", " ")
	case "int":
		ints(d.Lo, d.Hi)
	case "anyint":
		add("0", "1", "-1", "100", "+7", "007", "3.5", "1e2", "NaN", "99999999999999999999")
		add(garbage...)
	case "intset":
		for _, s := range d.Set {
			add(s)
		}
		add("2", "9", "99", "106", "202", "304", "-1", "1000", "+1", "001", "1.0", "3.5", "NaN", "99999999999999999999")
		add(garbage...)
	case "bool":
		add("true", "false", "TRUE", "FALSE", "True", "False", "tRuE", "yes", "no", "on", "off", "2", "-1", "truee", "nil")
		add(garbage...)
	case "enum":
		for _, s := range d.Set {
			add(cases(s)...)
			add(s+"x", "x"+s, s+"-")
			if len(s) > 2 {
				add(s[:len(s)-1])
			}
		}
		add(garbage...)
	case "color":
		for k := 0; k < 12; k++ {
			add(cases(named[rnd(len(named))])...)
		}
		add(cases("red")...)
		add("reddish", "re d", "blu", "grey", "gray", "#abc", "#ABC", "#a1b2c3", "#A1B2C3", "#ab", "#abcde", "#abcdefg", "#ggg", "#gggggg", "abc", "a1b2c3", "#", "# abc", "rgb(1,2,3)", "0xfff")
		for k := 0; k < 6; k++ {
			add(fmt.Sprintf("#%06x", rnd(1<<24)), fmt.Sprintf("#%03x", rnd(1<<12)), fmt.Sprintf("#%05x", rnd(1<<20)), fmt.Sprintf("#%02x", rnd(1<<8)))
		}
		vs = append(vs,
			attrInput{Raw: "linear-gradient(red, blue)", Gradient: 1}, attrInput{Raw: "linear-gradient(#fff, #000)", Gradient: 1},
			attrInput{Raw: "radial-gradient(red, #00f)", Gradient: 1}, attrInput{Raw: "linear-gradient(45deg, red, blue)", Gradient: 1},
			attrInput{Raw: "linear-gradient(red, notacolor)"}, attrInput{Raw: "linear-gradient("}, attrInput{Raw: "linear-gradient()"}, attrInput{Raw: "gradient(red, blue)"})
		add(garbage...)
	}
	return vs
}

// where each attribute is exercised
func attrContexts(attr string) []string {
	switch {
	case attr == "arrowhead.shape":
		return []string{"arrowhead"}
	case attr == "style.filled":
		return []string{"arrowhead"}
	case strings.HasPrefix(attr, "config."):
		return []string{"config"}
	case attr == "style.animated":
		return []string{"edge"}
	case attr == "style.opacity", attr == "style.stroke", attr == "style.stroke-width", attr == "style.stroke-dash", attr == "style.bold", attr == "style.italic", attr == "style.underline",
		attr == "style.font-size", attr == "style.font-color":
		return []string{"obj", "edge"}
	}
	return []string{"obj"}
}

// attrProgram writes the declaration and returns the text with the byte range of "<key>: <value>"
func attrProgram(in attrInput) (text string, from, to int) {
	val := quoteVal(in.Raw)
	key := in.Attr
	var pre, post string
	switch in.Ctx {
	case "obj":
		pre, post = "x: {\n  icon: https://example.com/i.png\n  ", "\n}\n"
	case "edge":
		pre, post = "a -> b: {\n  ", "\n}\n"
	case "arrowhead":
		pre, post = "a -> b: {\n  source-arrowhead: {\n    ", "\n  }\n}\n"
		key = strings.TrimPrefix(key, "arrowhead.")
	case "config":
		pre, post = "vars: {\n  d2-config: {\n    ", "\n  }\n}\nx\n"
		key = strings.TrimPrefix(key, "config.")
	}
	decl := key + ": " + val
	return pre + decl + post, len(pre), len(pre) + len(decl)
}

func driveAttrs(c *Ctx) error {
	tp := c.Args["table"]
	if tp == "" {
		return fmt.Errorf("attrs: need -arg table=<attr_domains.json>")
	}
	b, err := os.ReadFile(tp)
	if err != nil {
		return err
	}
	var table struct {
		Attrs       map[string]domEntry `json:"attrs"`
		NamedColors []string            `json:"namedColors"`
	}
	if err := json.Unmarshal(b, &table); err != nil {
		return err
	}
	var inputs []attrInput
	if c.Replay != nil {
		var in attrInput
		if err := json.Unmarshal(c.Replay, &in); err != nil {
			return err
		}
		inputs = []attrInput{in}
	} else {
		names := make([]string, 0, len(table.Attrs))
		for k := range table.Attrs {
			names = append(names, k)
		}
		sort.Strings(names)
		rounds := 1
		if c.Thorough() {
			rounds = 6
		}
		for _, a := range names {
			for rd := 0; rd < rounds; rd++ {
				for _, v := range attrValues(table.Attrs[a], table.NamedColors, c.Rng.Intn) {
					for _, ctx := range attrContexts(a) {
						inputs = append(inputs, attrInput{Ctx: ctx, Attr: a, Raw: v.Raw, Gradient: v.Gradient})
					}
				}
			}
		}
	}
	seen := map[string]bool{}
	for _, in := range inputs {
		k := in.Ctx + "\x00" + in.Attr + "\x00" + in.Raw
		if seen[k] {
			continue
		}
		seen[k] = true
		ev := attrRun(in)
		c.W.Add(in, []tr.M{ev}, "C16")
		if ev["accepted"] == 0 {
			c.W.Sample("C16", tr.M{"ctx": in.Ctx, "attr": in.Attr, "value": in.Raw, "accepted": 0, "msg": ev["msg"]})
		}
	}
	return nil
}

func attrRun(in attrInput) (ev tr.M) {
	text, from, to := attrProgram(in)
	ev = tr.M{"ev": "decl", "ctx": in.Ctx, "attr": in.Attr, "v": lexValue(in.Raw, in.Gradient), "accepted": 0, "panic": 0, "msg": "", "errInDecl": 0, "compiled": "", "compiledLower": "", "compiledMilli": 0, "compiledIsNum": 0, "text": text}
	defer func() {
		if p := recover(); p != nil {
			ev["panic"] = 1
			ev["msg"] = firstN(fmt.Sprint(p), 200)
		}
	}()
	g, cfg, err := d2compiler.Compile("a.d2", strings.NewReader(text), nil)
	if err != nil {
		ev["msg"] = firstLine(err.Error())
		if pe, ok := err.(*d2parser.ParseError); ok && len(pe.Errors) > 0 {
			at := pe.Errors[0].Range.Start.Byte
			ev["errInDecl"] = tr.B(at >= from && at <= to)
		}
		return ev
	}
	ev["accepted"] = 1
	compiled, found := "", false
	key := strings.TrimPrefix(in.Attr, "config.")
	switch in.Ctx {
	case "obj":
		b := proj.Graph(g, nil)
		for _, o := range b.Objs {
			if o.ID == "x" {
				if in.Attr == "shape" {
					compiled, found = o.Shape, true
				} else {
					compiled, found = o.Attrs[projKey(in.Attr)], true
					_, found = o.Attrs[projKey(in.Attr)]
				}
			}
		}
	case "edge":
		b := proj.Graph(g, nil)
		if len(b.Edges) == 1 {
			compiled, found = b.Edges[0].Attrs[projKey(in.Attr)]
		}
	case "arrowhead":
		b := proj.Graph(g, nil)
		if len(b.Edges) == 1 {
			k := "source-arrowhead.shape"
			if in.Attr == "style.filled" {
				k = "source-arrowhead.style.filled"
			}
			compiled, found = b.Edges[0].Attrs[k]
		}
	case "config":
		if cfg != nil {
			switch key {
			case "theme-id":
				if cfg.ThemeID != nil {
					compiled, found = strconv.FormatInt(*cfg.ThemeID, 10), true
				}
			case "dark-theme-id":
				if cfg.DarkThemeID != nil {
					compiled, found = strconv.FormatInt(*cfg.DarkThemeID, 10), true
				}
			case "pad":
				if cfg.Pad != nil {
					compiled, found = strconv.FormatInt(*cfg.Pad, 10), true
				}
			case "sketch":
				if cfg.Sketch != nil {
					compiled, found = strconv.FormatBool(*cfg.Sketch), true
				}
			case "center":
				if cfg.Center != nil {
					compiled, found = strconv.FormatBool(*cfg.Center), true
				}
			}
		}
	}
	if !found {
		compiled = "<absent>"
	}
	ev["compiled"] = compiled
	ev["compiledLower"] = strings.ToLower(compiled)
	cv := lexValue(compiled, 0)
	if cv["num"] != "none" && cv["big"] == 0 {
		ev["compiledIsNum"] = 1
		ev["compiledMilli"] = cv["milli"]
	}
	return ev
}
