package main

import (
	"context"
	"encoding/json"
	"fmt"
	"io"
	"math/rand"
	"net/http"
	"os"
	"path/filepath"
	"regexp"
	"runtime"
	"strconv"
	"strings"
	"sync"
	"sync/atomic"
	"time"

	"github.com/coder/websocket"
	"oss.terrastruct.com/util-go/cmdlog"
	"oss.terrastruct.com/util-go/xmain"
	"oss.terrastruct.com/util-go/xos"

	"oss.terrastruct.com/d2/d2cli"

	"verifharness/internal/tr"
)

// Family watch (C44, C45): run the real `d2 --watch` entry point (d2cli.Run) in-process, drive it
// with file changes, websocket clients and shutdown, and record the verif hook events of
// d2cli/watch.go plus what every client really received. TraceD2Watch.tla judges the trace.

type watchInput struct {
	Seed     int64    `json:"seed"`
	Clients  int      `json:"clients"`
	Changes  int      `json:"changes"`
	SlowHook string   `json:"slowHook,omitempty"` // this hook always sleeps (targeted schedule)
	Perturb  int      `json:"perturb"`            // percent of hook calls that sleep 0-3 ms
	LateDial int      `json:"lateDial"`           // clients dialled while shutting down
	Chase    bool     `json:"chase,omitempty"`    // each change is made the moment the previous result was stored
	Ops      []string `json:"ops,omitempty"`      // filled in by the driver: the harness schedule
}

func init() { register("watch", driveWatch) }

var reVersion = regexp.MustCompile(`VERSION_(\d{4})`)

func versionOf(b []byte) int {
	m := reVersion.FindSubmatch(b)
	if m == nil {
		return 0
	}
	v, _ := strconv.Atoi(string(m[1]))
	return v
}

var slowHooks = []string{"setres", "notified", "wake", "register", "admit", "getres-begin", "getres-end", "take", "read", "closing", "close-cancel", "client", "unregister", "done", "request", "woke"}

func driveWatch(c *Ctx) error {
	var inputs []watchInput
	if c.Replay != nil {
		var in watchInput
		if err := json.Unmarshal(c.Replay, &in); err != nil {
			return err
		}
		in.Ops = nil
		inputs = []watchInput{in}
	} else {
		n := 6
		if c.Thorough() {
			n = 60
		}
		for i := 0; i < n; i++ {
			inputs = append(inputs, watchInput{Seed: c.Seed*1000 + int64(i), Clients: 1 + c.Rng.Intn(3), Changes: 1 + c.Rng.Intn(4), Perturb: []int{0, 30, 60}[i%3], LateDial: c.Rng.Intn(3)})
		}
		hooks := slowHooks
		if !c.Thorough() {
			hooks = []string{"setres", "notified", "admit", "getres-end", "closing", "register"}
		}
		for i, h := range hooks {
			inputs = append(inputs, watchInput{Seed: c.Seed*1000 + 500 + int64(i), Clients: 2, Changes: 3, SlowHook: h, Perturb: 10, LateDial: 2})
		}
		// chase schedules: a slow client-side point + changes chained to the previous broadcast
		for i, h := range []string{"getres-end", "getres-begin", "woke", "write"} {
			if !c.Thorough() && i >= 2 && int(c.Seed)%2 != i%2 {
				continue
			}
			inputs = append(inputs, watchInput{Seed: c.Seed*1000 + 700 + int64(i), Clients: 2, Changes: 3, SlowHook: h, Chase: true, LateDial: 1})
		}
	}
	for _, in := range inputs {
		evs, nt, err := watchRun(in)
		if err != nil {
			return err
		}
		in.Ops = opsOf(evs)
		c.W.Add(in, evs, nt...)
		c.W.Sample("C44", tr.M{"schedule": in, "events": len(evs)})
		c.W.Sample("C45", tr.M{"schedule": in, "events": len(evs)})
	}
	return nil
}

func opsOf(evs []tr.M) []string {
	var ops []string
	for _, e := range evs {
		switch e["ev"] {
		case "change-begin", "dial", "hangup", "shutdown", "quiesce":
			ops = append(ops, fmt.Sprint(e["ev"], " ", e["v"], e["c"]))
		}
	}
	if len(ops) > 40 {
		ops = ops[:40]
	}
	return ops
}

type watchTracer struct {
	mu         sync.Mutex
	evs        []tr.M
	inReq      bool
	clients    map[any]int // *wsclient -> id
	rng        *rand.Rand
	rngMu      sync.Mutex
	in         watchInput
	addr       chan string
	stopped    atomic.Bool
	lastEvent  atomic.Int64 // time of the last logged event: the harness's notion of "the watcher is idle"
	takeAt     int64
	maxCompile atomic.Int64
}

func (t *watchTracer) log(e tr.M) {
	t.evs = append(t.evs, e)
	now := time.Now().UnixNano()
	t.lastEvent.Store(now)
	// how long a compile takes on this machine right now (take -> setres), for the idleness threshold
	switch e["ev"] {
	case "take":
		t.takeAt = now
	case "setres":
		if t.takeAt != 0 {
			if d := now - t.takeAt; d > t.maxCompile.Load() {
				t.maxCompile.Store(d)
			}
		}
	}
}

// idleAfter: no event for this long means nothing is in flight (4 compile times, at least 1.5 s)
func (t *watchTracer) idleAfter() time.Duration {
	d := time.Duration(4 * t.maxCompile.Load())
	if d < 1500*time.Millisecond {
		d = 1500 * time.Millisecond
	}
	return d
}

func (t *watchTracer) emit(e tr.M) {
	t.mu.Lock()
	t.log(e)
	t.mu.Unlock()
}

func (t *watchTracer) maybeSleep(ev string) {
	if ev == "req-unlock" || ev == "request" || ev == "wake" {
		return
	}
	if t.in.SlowHook == ev {
		// targeted schedule: this point is held open long enough for a whole compile + broadcast to pass
		// (client-side points) or for clients to run ahead (server-side points)
		d := 6 * time.Millisecond
		switch ev {
		case "getres-begin", "getres-end", "woke", "write", "register", "client":
			d = 150 * time.Millisecond
			if mc := time.Duration(t.maxCompile.Load()) * 3 / 2; mc > d {
				d = mc // a loaded machine compiles more slowly: keep the window wider than one compile
			}
		}
		time.Sleep(d)
		return
	}
	if t.in.Perturb > 0 {
		t.rngMu.Lock()
		p := t.rng.Intn(100)
		d := t.rng.Intn(3000)
		t.rngMu.Unlock()
		if p < t.in.Perturb {
			time.Sleep(time.Duration(d) * time.Microsecond)
		}
	}
}

func reqID(a any) int {
	r, ok := a.(*http.Request)
	if !ok {
		return 0
	}
	id, _ := strconv.Atoi(r.URL.Query().Get("c"))
	return id
}

func resVersion(a any) int {
	if a == nil {
		return 0
	}
	b, err := json.Marshal(a)
	if err != nil || string(b) == "null" {
		return 0
	}
	var m struct {
		SVG string `json:"svg"`
		Err string `json:"err"`
	}
	json.Unmarshal(b, &m)
	return versionOf([]byte(m.SVG))
}

// hook is installed as d2cli.VerifHook. Every event is appended under t.mu, i.e. while the caller
// still holds the lock that protects the state the event describes.
func (t *watchTracer) hook(ev string, a ...any) {
	if t.stopped.Load() {
		return
	}
	switch ev {
	case "req-lock":
		t.maybeSleep(ev)
		t.mu.Lock()
		return
	case "req-unlock":
		t.mu.Unlock()
		return
	case "request":
		t.log(tr.M{"ev": "request", "sent": a[0].(int)}) // t.mu is held since req-lock
		return
	case "wake": // inside broadcast's req-lock .. req-unlock bracket: atomic with the channel send
		t.log(tr.M{"ev": "wake", "c": t.clients[a[0]], "sent": a[1].(int)})
		return
	case "notified":
		t.log(tr.M{"ev": "notified"})
		return
	case "pause": // pure delay point, nothing logged
		t.maybeSleep(a[0].(string))
		return
	}
	t.maybeSleep(ev)
	t.mu.Lock()
	defer t.mu.Unlock()
	switch ev {
	case "listening":
		select {
		case t.addr <- a[0].(string):
		default:
		}
	case "read":
		t.log(tr.M{"ev": "read", "v": versionOf(a[0].([]byte))})
	case "setres":
		t.log(tr.M{"ev": "setres", "v": resVersion(a[0])})
	case "wake":
		t.log(tr.M{"ev": "wake", "c": t.clients[a[0]], "sent": a[1].(int)})
	case "admit", "reject", "acceptfail", "done":
		t.log(tr.M{"ev": ev, "c": reqID(a[0])})
	case "client":
		t.clients[a[1]] = reqID(a[0])
		t.log(tr.M{"ev": "client", "c": reqID(a[0])})
	case "register", "unregister", "getres-begin", "woke", "cancelled":
		t.log(tr.M{"ev": ev, "c": t.clients[a[0]]})
	case "getres-end":
		t.log(tr.M{"ev": ev, "c": t.clients[a[0]], "v": resVersion(a[1])})
	case "write":
		ok := 1
		if len(a) > 2 && a[2] != nil {
			if err, isErr := a[2].(error); isErr && err != nil {
				ok = 0
			}
		}
		t.log(tr.M{"ev": "write", "c": t.clients[a[0]], "v": resVersion(a[1]), "ok": ok})
	default: // take, loop-exit, fsevent, timer, poll, notified, closing, close-noop, close-cancel, closed
		t.log(tr.M{"ev": ev})
	}
}

func watchRun(in watchInput) (evs []tr.M, nontrivial []string, err error) {
	dir, err := os.MkdirTemp("", "vwatch-")
	if err != nil {
		return nil, nil, err
	}
	defer os.RemoveAll(dir)
	content := func(v int) []byte { return []byte(fmt.Sprintf("x: VERSION_%04d\n", v)) }
	inPath := filepath.Join(dir, "in.d2")
	if err := os.WriteFile(inPath, content(1), 0o644); err != nil {
		return nil, nil, err
	}
	t := &watchTracer{clients: map[any]int{}, rng: rand.New(rand.NewSource(in.Seed)), in: in, addr: make(chan string, 1)}
	d2cli.VerifHook = t.hook
	defer func() { t.stopped.Store(true) }()
	hrng := rand.New(rand.NewSource(in.Seed + 7))

	env := xos.NewEnv([]string{"BROWSER=0", "HOME=" + dir, "PATH=" + os.Getenv("PATH")})
	ms := &xmain.State{
		Name:   "d2",
		Stdin:  io.LimitReader(nil, 0),
		Stdout: nopWC{io.Discard},
		Stderr: nopWC{io.Discard},
		Log:    cmdlog.New(env, io.Discard),
		Env:    env,
		Opts:   xmain.NewOpts(env, []string{"--watch", "--browser=0", "--host=127.0.0.1", "--port=0", "in.d2", "out.svg"}),
		PWD:    dir,
	}
	ctx, cancel := context.WithCancel(quietCtx())
	defer cancel()
	runDone := make(chan struct{})
	var runErr error
	var panicked any
	go func() {
		defer close(runDone)
		defer func() { panicked = recover() }()
		runErr = d2cli.Run(ctx, ms)
	}()
	var addr string
	select {
	case addr = <-t.addr:
	case <-runDone:
		return nil, nil, fmt.Errorf("watch: d2cli.Run returned before listening: %v %v", runErr, panicked)
	case <-time.After(20 * time.Second):
		return nil, nil, fmt.Errorf("watch: watcher did not start listening")
	}

	// ---- websocket clients
	type client struct {
		id     int
		conn   *websocket.Conn
		seen   []int
		mu     sync.Mutex
		done   chan struct{}
		hungup bool
		failed bool
	}
	var cmu sync.Mutex
	clients := map[int]*client{}
	nextID := 0
	dial := func() *client {
		cmu.Lock()
		nextID++
		cl := &client{id: nextID, done: make(chan struct{})}
		clients[cl.id] = cl
		cmu.Unlock()
		t.emit(tr.M{"ev": "dial", "c": cl.id})
		dctx, dcancel := context.WithTimeout(context.Background(), 10*time.Second)
		conn, _, err := websocket.Dial(dctx, fmt.Sprintf("ws://%s/watch?c=%d", addr, cl.id), nil)
		dcancel()
		if err != nil {
			cl.failed = true
			t.emit(tr.M{"ev": "dial-failed", "c": cl.id})
			close(cl.done)
			return cl
		}
		conn.SetReadLimit(1 << 26)
		cl.conn = conn
		go func() {
			defer close(cl.done)
			for {
				_, b, err := conn.Read(context.Background())
				if err != nil {
					t.emit(tr.M{"ev": "conn-closed", "c": cl.id})
					return
				}
				var m struct {
					SVG string `json:"svg"`
				}
				json.Unmarshal(b, &m)
				v := versionOf([]byte(m.SVG))
				cl.mu.Lock()
				cl.seen = append(cl.seen, v)
				cl.mu.Unlock()
				t.emit(tr.M{"ev": "recv", "c": cl.id, "v": v})
			}
		}()
		return cl
	}
	hangup := func(cl *client) {
		if cl.conn == nil || cl.hungup {
			return
		}
		cl.hungup = true
		t.emit(tr.M{"ev": "hangup", "c": cl.id})
		cl.conn.Close(websocket.StatusNormalClosure, "bye")
	}
	ver := 1
	change := func() {
		ver++
		t.emit(tr.M{"ev": "change-begin", "v": ver})
		f, err := os.OpenFile(inPath, os.O_WRONLY, 0)
		if err == nil {
			f.WriteAt(content(ver), 0) // same length: one write, no truncation, readers see old or new
			f.Close()
		}
		t.emit(tr.M{"ev": "change-end", "v": ver})
	}
	nap := func(maxMS int) { time.Sleep(time.Duration(hrng.Intn(maxMS*1000)) * time.Microsecond) }

	// ---- schedule: interleave dials, changes, hangups
	var live []*client
	toDial, toChange := in.Clients, in.Changes
	if in.Chase {
		// "chase" schedule: every change is made the moment the previous version's result has been stored,
		// so that each compile+broadcast lands while the clients are still busy with the previous result
		waitSetres := func(v int) {
			for dl := time.Now().Add(10 * time.Second); time.Now().Before(dl); time.Sleep(time.Millisecond) {
				t.mu.Lock()
				seen := false
				for i := len(t.evs) - 1; i >= 0 && !seen; i-- {
					if t.evs[i]["ev"] == "setres" && t.evs[i]["v"] == v {
						seen = true
					}
				}
				t.mu.Unlock()
				if seen {
					return
				}
			}
		}
		for ; toDial > 0; toDial-- {
			live = append(live, dial())
		}
		waitSetres(1)
		time.Sleep(20 * time.Millisecond)
		for ; toChange > 0; toChange-- {
			change()
			waitSetres(ver)
		}
	}
	for toDial > 0 || toChange > 0 {
		switch k := hrng.Intn(10); {
		case k < 4 && toDial > 0:
			live = append(live, dial())
			toDial--
		case k < 8 && toChange > 0:
			change()
			toChange--
		case k == 8 && len(live) > 1:
			i := hrng.Intn(len(live))
			hangup(live[i])
			live = append(live[:i], live[i+1:]...)
		default:
		}
		if hrng.Intn(3) == 0 {
			nap(120)
		} else {
			nap(5)
		}
	}
	// ---- quiescence: bounded liveness. Every live client must see the last version.
	// Bounded liveness without a wall-clock bet: wait while the watcher is doing something. The run counts as
	// not settled only when nothing has been logged for 1.5 s (the watcher is idle: nothing in flight can still
	// deliver the result) - well before the watcher's 10 s poll ticker could paper over a lost request - or
	// after 30 s of continuous activity.
	deadline := time.Now().Add(30 * time.Second)
	settled := false
	for time.Now().Before(deadline) {
		if idle := time.Since(time.Unix(0, t.lastEvent.Load())); idle > t.idleAfter() {
			break
		}
		ok := true
		for _, cl := range live {
			if cl.failed {
				continue
			}
			cl.mu.Lock()
			if len(cl.seen) == 0 || cl.seen[len(cl.seen)-1] != ver {
				ok = false
			}
			cl.mu.Unlock()
		}
		if ok {
			settled = true
			break
		}
		time.Sleep(10 * time.Millisecond)
	}
	liveIDs := []int{}
	for _, cl := range live {
		if !cl.failed {
			liveIDs = append(liveIDs, cl.id)
		}
	}
	t.emit(tr.M{"ev": "quiesce", "v": ver, "settled": tr.B(settled), "live": liveIDs})

	// ---- shutdown, with clients dialling and hanging up concurrently
	t.emit(tr.M{"ev": "shutdown"})
	var wg sync.WaitGroup
	for i := 0; i < in.LateDial; i++ {
		wg.Add(1)
		d := time.Duration(hrng.Intn(4000)) * time.Microsecond
		go func() {
			defer wg.Done()
			time.Sleep(d)
			dial()
		}()
	}
	if len(live) > 0 && hrng.Intn(2) == 0 {
		wg.Add(1)
		cl := live[0]
		go func() { defer wg.Done(); time.Sleep(time.Millisecond); hangup(cl) }()
	}
	time.Sleep(time.Duration(hrng.Intn(2500)) * time.Microsecond)
	cancel()
	returned := false
	select {
	case <-runDone:
		returned = true
	case <-time.After(30 * time.Second):
	}
	// handler goroutines still alive at the moment Run returned?
	buf := make([]byte, 1<<20)
	stack := string(buf[:runtime.Stack(buf, true)])
	alive := strings.Count(stack, "d2cli.(*wsclient).writeLoop")
	wg.Wait()
	// every server-side connection must get closed: clients' read loops end
	closedAll := true
	cmu.Lock()
	all := make([]*client, 0, len(clients))
	for _, cl := range clients {
		all = append(all, cl)
	}
	cmu.Unlock()
	for _, cl := range all {
		select {
		case <-cl.done:
		case <-time.After(5 * time.Second):
			closedAll = false
		}
	}
	t.emit(tr.M{"ev": "run-returned", "returned": tr.B(returned), "panicked": tr.B(panicked != nil), "handlersAlive": alive, "connsClosed": tr.B(closedAll)})
	t.stopped.Store(true)
	t.mu.Lock()
	evs = t.evs
	t.mu.Unlock()
	if !returned {
		// leave no watcher behind that would pollute the next trace
		return evs, []string{"C45"}, nil
	}
	nontrivial = []string{"C45"}
	if in.Changes >= 1 && len(liveIDs) > 0 {
		nontrivial = append(nontrivial, "C44")
	}
	return evs, nontrivial, nil
}

type nopWC struct{ io.Writer }

func (nopWC) Close() error { return nil }
