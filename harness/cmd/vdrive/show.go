package main

import (
	"crypto/sha256"
	"fmt"
	"math/rand"
	"os"
	"strings"
	"time"

	"oss.terrastruct.com/d2/d2compiler"
	"oss.terrastruct.com/d2/d2format"
	"oss.terrastruct.com/d2/d2parser"

	"verifharness/internal/gen"
	"verifharness/internal/proj"
)

// show: experiment helper. vdrive show -out /tmp/x -arg file=prog.d2 [-arg prefixes=1]
// prints the projection of the compiled program (and of every line prefix).
func init() { register("show", driveShow) }

func driveShow(c *Ctx) error {
	b, err := os.ReadFile(c.Args["file"])
	if err != nil {
		return err
	}
	lines := strings.Split(strings.TrimRight(string(b), "\n"), "\n")
	start := len(lines)
	if c.Args["prefixes"] != "" {
		start = 1
	}
	for n := start; n <= len(lines); n++ {
		src := strings.Join(lines[:n], "\n") + "\n"
		t0 := time.Now()
		g, _, err := d2compiler.Compile("x.d2", strings.NewReader(src), nil)
		fmt.Printf("--- after %d line(s): %q (compile %d ms)\n", n, lines[n-1], time.Since(t0).Milliseconds())
		if c.Args["count"] != "" {
			if err == nil {
				fmt.Println("objects", len(g.Objects), "edges", len(g.Edges))
			} else {
				fmt.Println("ERR", firstN(err.Error(), 150))
			}
			continue
		}
		if err != nil {
			fmt.Println("ERR", strings.ReplaceAll(err.Error(), "\n", " | "))
			continue
		}
		fmt.Print(proj.Digest(proj.Boards(g)))
	}
	return nil
}

// gendump: development aid. vdrive gendump -out DIR writes DIR/gendump.txt with one hash per (mode, seed): used to
// check that a change to the generator leaves the fixed input spaces of the existing modes untouched.
func init() { register("gendump", driveGenDump) }

func driveGenDump(c *Ctx) error {
	var sb strings.Builder
	for _, m := range strings.Split(c.Args["modes"], ",") {
		for seed := int64(1); seed <= 1200; seed++ {
			d := gen.Generate(rand.New(rand.NewSource(seed)), pipeOpts(m))
			fmt.Fprintf(&sb, "%s %d %x\n", m, seed, sha256.Sum256([]byte(d.Text)))
		}
	}
	return os.WriteFile(c.Out+"/gendump.txt", []byte(sb.String()), 0644)
}

// soupshow: development aid. vdrive soupshow -out DIR -arg seed=N prints the syntax soup of pipe input N.
func init() { register("soupshow", driveSoupShow) }

func driveSoupShow(c *Ctx) error {
	var seed int64
	fmt.Sscanf(c.Args["seed"], "%d", &seed)
	fmt.Print(gen.Soup(rand.New(rand.NewSource(seed*17 + 3))))
	return nil
}

// fmt2: development aid. vdrive fmt2 -out DIR -arg file=prog.d2 (or -arg seed=N for soup input N) formats the program
// twice and prints both results when they differ.
func init() { register("fmt2", driveFmt2) }

func driveFmt2(c *Ctx) error {
	var text string
	if c.Args["file"] != "" {
		b, err := os.ReadFile(c.Args["file"])
		if err != nil {
			return err
		}
		text = string(b)
	} else {
		var seed int64
		fmt.Sscanf(c.Args["seed"], "%d", &seed)
		text = gen.Soup(rand.New(rand.NewSource(seed*17 + 3)))
	}
	m, err := d2parser.Parse("x.d2", strings.NewReader(text), nil)
	if err != nil {
		fmt.Println("PARSE-ERR", firstN(err.Error(), 200))
		return nil
	}
	f1 := d2format.Format(m)
	m2, err := d2parser.Parse("x.d2", strings.NewReader(f1), nil)
	if err != nil {
		fmt.Printf("--- input\n%s--- formatted does not parse: %s\n%s", text, firstN(err.Error(), 200), f1)
		return nil
	}
	f2 := d2format.Format(m2)
	if f1 == f2 {
		fmt.Println("IDEMPOTENT")
		return nil
	}
	fmt.Printf("--- input\n%s--- formatted once\n%s--- formatted twice\n%s", text, f1, f2)
	return nil
}
