package main

import (
	"fmt"
	"os"
	"strings"

	"oss.terrastruct.com/d2/d2compiler"

	"verifharness/internal/proj"
)

// show: experiment helper. vdrive show -out /tmp/x -arg file=prog.d2 [-arg prefixes=1]
// prints the projection of the compiled program (and of every line prefix).
func init() { register("show", driveShow) }

func driveShow(c *Ctx) error {
	b, err := os.ReadFile(c.Args["file"])
	if err != nil {
		return err
	}
	lines := strings.Split(strings.TrimRight(string(b), "\n"), "\n")
	start := len(lines)
	if c.Args["prefixes"] != "" {
		start = 1
	}
	for n := start; n <= len(lines); n++ {
		src := strings.Join(lines[:n], "\n") + "\n"
		g, _, err := d2compiler.Compile("x.d2", strings.NewReader(src), nil)
		fmt.Printf("--- after %d line(s): %q\n", n, lines[n-1])
		if err != nil {
			fmt.Println("ERR", strings.ReplaceAll(err.Error(), "\n", " | "))
			continue
		}
		fmt.Print(proj.Digest(proj.Boards(g)))
	}
	return nil
}
