package main

import (
	"crypto/sha256"
	"fmt"
	"math/rand"
	"os"
	"strings"

	"oss.terrastruct.com/d2/d2compiler"

	"verifharness/internal/gen"
	"verifharness/internal/proj"
)

// show: experiment helper. vdrive show -out /tmp/x -arg file=prog.d2 [-arg prefixes=1]
// prints the projection of the compiled program (and of every line prefix).
func init() { register("show", driveShow) }

func driveShow(c *Ctx) error {
	b, err := os.ReadFile(c.Args["file"])
	if err != nil {
		return err
	}
	lines := strings.Split(strings.TrimRight(string(b), "\n"), "\n")
	start := len(lines)
	if c.Args["prefixes"] != "" {
		start = 1
	}
	for n := start; n <= len(lines); n++ {
		src := strings.Join(lines[:n], "\n") + "\n"
		g, _, err := d2compiler.Compile("x.d2", strings.NewReader(src), nil)
		fmt.Printf("--- after %d line(s): %q\n", n, lines[n-1])
		if err != nil {
			fmt.Println("ERR", strings.ReplaceAll(err.Error(), "\n", " | "))
			continue
		}
		fmt.Print(proj.Digest(proj.Boards(g)))
	}
	return nil
}

// gendump: development aid. vdrive gendump -out DIR writes DIR/gendump.txt with one hash per (mode, seed): used to
// check that a change to the generator leaves the fixed input spaces of the existing modes untouched.
func init() { register("gendump", driveGenDump) }

func driveGenDump(c *Ctx) error {
	var sb strings.Builder
	for _, m := range strings.Split(c.Args["modes"], ",") {
		for seed := int64(1); seed <= 1200; seed++ {
			d := gen.Generate(rand.New(rand.NewSource(seed)), pipeOpts(m))
			fmt.Fprintf(&sb, "%s %d %x\n", m, seed, sha256.Sum256([]byte(d.Text)))
		}
	}
	return os.WriteFile(c.Out+"/gendump.txt", []byte(sb.String()), 0644)
}
