package main

import (
	"fmt"
	"math/rand"
	"strings"
	"testing/fstest"

	"oss.terrastruct.com/d2/d2ast"
	"oss.terrastruct.com/d2/d2compiler"
	"oss.terrastruct.com/d2/d2format"
	"oss.terrastruct.com/d2/d2oracle"
	"oss.terrastruct.com/d2/d2parser"

	"verifharness/internal/tr"
)

// Import updates (C36: "... import update"): a program that imports files from several directories, some of whose
// names are prefixes of one another, in every import form; one path is renamed (a file, or a directory written with a
// trailing slash) or removed with d2oracle.UpdateImport. The event carries the import paths before and after (token
// lists), whether the program compiled before and compiles after against the renamed file system, and whether the
// formatter leaves the result alone; TraceD2Oracle computes which imports had to change.

var impPool = []string{"lib/a", "lib/b", "lib2/b", "foobar", "foo", "lib/deep/c", "x", "libs/a", "foo/bar"}

func importPathsOf(m *d2ast.Map, out *[]string) {
	for _, n := range m.Nodes {
		if n.Import != nil {
			*out = append(*out, n.Import.PathWithPre())
		}
		if n.MapKey != nil {
			if n.MapKey.Value.Import != nil {
				*out = append(*out, n.MapKey.Value.Import.PathWithPre())
			}
			if n.MapKey.Value.Map != nil {
				importPathsOf(n.MapKey.Value.Map, out)
			}
		}
	}
}

func importUpdateEvent(seed int64) tr.M {
	r := rand.New(rand.NewSource(seed*4441 + 9))
	fs := fstest.MapFS{}
	for i, p := range impPool {
		fs[p+".d2"] = &fstest.MapFile{Data: []byte(fmt.Sprintf("m%d: {shape: circle}\n", i))}
	}
	n := 2 + r.Intn(4)
	perm := r.Perm(len(impPool))[:n]
	var sb strings.Builder
	sb.WriteString("first: {tooltip: T0}\n")
	for k, pi := range perm {
		p := impPool[pi]
		q := p
		if r.Intn(2) == 0 || strings.Contains(p, "/") {
			q = "\"" + p + "\""
		}
		switch r.Intn(4) {
		case 0:
			fmt.Fprintf(&sb, "...@%s\n", q)
		case 1:
			fmt.Fprintf(&sb, "k%d: @%s\n", k, q)
		case 2:
			fmt.Fprintf(&sb, "k%d: {\n  ...@%s\n  own%d\n}\n", k, q, k)
		case 3:
			fmt.Fprintf(&sb, "box: {\n  inner%d: @%s\n}\n", k, q)
		}
	}
	text := sb.String()
	// what is renamed: an imported file, a directory of imported files, or one that only shares a prefix with them
	var old string
	var newp *string
	kind := ""
	switch r.Intn(4) {
	case 0:
		old, kind = impPool[perm[r.Intn(n)]], "file"
		v := []string{"shared/renamed", "renamed", "lib/zz", "foo2"}[r.Intn(4)]
		newp = &v
	case 1:
		old, kind = []string{"lib/", "foo/", "lib/deep/", "libs/"}[r.Intn(4)], "dir"
		v := []string{"shared/", "woof/", "lib3/"}[r.Intn(3)]
		newp = &v
	case 2:
		old, kind = impPool[perm[r.Intn(n)]], "remove"
	case 3:
		old, kind = []string{"li", "fo", "lib", "foo", "x"}[r.Intn(5)], "file"
		v := "other"
		newp = &v
	}
	ev := tr.M{"ev": "impupdate", "text": text, "old": strings.Split(strings.TrimSuffix(old, "/"), "/"), "new": []string{}, "kind": kind, "before": [][]string{}, "after": [][]string{},
		"compilesBefore": 0, "ok": 0, "err": "", "compilesAfter": 0, "compileErr": "", "fmtFixed": 0, "result": ""}
	if newp != nil {
		ev["new"] = strings.Split(strings.TrimSuffix(*newp, "/"), "/")
	}
	toks := func(ps []string) [][]string {
		out := [][]string{}
		for _, p := range ps {
			out = append(out, strings.Split(p, "/"))
		}
		return out
	}
	m0, err := d2parser.Parse("index.d2", strings.NewReader(text), nil)
	if err != nil {
		ev["err"] = "generated program does not parse: " + firstN(err.Error(), 120)
		return ev
	}
	var before []string
	importPathsOf(m0, &before)
	ev["before"] = toks(before)
	if _, _, err := d2compiler.Compile("index.d2", strings.NewReader(text), &d2compiler.CompileOptions{FS: fs}); err == nil {
		ev["compilesBefore"] = 1
	}
	func() {
		defer func() {
			if p := recover(); p != nil {
				ev["err"] = "PANIC: " + firstN(fmt.Sprint(p), 160)
			}
		}()
		res, err := d2oracle.UpdateImport(text, old, newp)
		if err != nil {
			ev["err"] = firstN(err.Error(), 160)
			return
		}
		ev["ok"], ev["result"] = 1, firstN(res, 600)
		// the file system after the rename
		fs2 := fstest.MapFS{}
		for p, f := range fs {
			np := p
			switch kind {
			case "file":
				if p == old+".d2" {
					np = *newp + ".d2"
				}
			case "dir":
				if strings.HasPrefix(p, old) {
					np = *newp + strings.TrimPrefix(p, old)
				}
			}
			fs2[np] = f
		}
		m1, err := d2parser.Parse("index.d2", strings.NewReader(res), nil)
		if err != nil {
			ev["compileErr"] = firstN(err.Error(), 160)
			return
		}
		var after []string
		importPathsOf(m1, &after)
		ev["after"] = toks(after)
		ev["fmtFixed"] = tr.B(d2format.Format(m1) == res)
		if _, _, err := d2compiler.Compile("index.d2", strings.NewReader(res), &d2compiler.CompileOptions{FS: fs2}); err == nil {
			ev["compilesAfter"] = 1
		} else {
			ev["compileErr"] = firstN(err.Error(), 160)
		}
	}()
	return ev
}
