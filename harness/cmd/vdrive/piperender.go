package main

import (
	"oss.terrastruct.com/d2/d2graph"
	"oss.terrastruct.com/d2/d2target"

	"verifharness/internal/tr"
)

// pipeRender: export/render stage events (filled in by the render families).
func pipeRender(in pipeInput, text string, diagram *d2target.Diagram, g *d2graph.Graph, evs *[]tr.M, nt map[string]bool) {
}
