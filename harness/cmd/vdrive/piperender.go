package main

import (
	"bytes"
	"context"
	"crypto/sha256"
	"encoding/xml"
	"fmt"
	"io"
	"math"
	"math/rand"
	"reflect"
	"regexp"
	"sort"
	"strconv"
	"strings"
	"sync"

	"oss.terrastruct.com/d2/d2graph"
	"oss.terrastruct.com/d2/d2lib"
	"oss.terrastruct.com/d2/d2renderers/d2svg"
	"oss.terrastruct.com/d2/d2target"
	"oss.terrastruct.com/d2/d2themes"
	"oss.terrastruct.com/d2/d2themes/d2themescatalog"
	"oss.terrastruct.com/d2/lib/geo"
	"oss.terrastruct.com/d2/lib/label"

	"verifharness/internal/tr"
)

// Export / render stage events: C28 (export one-to-one, user styles win), C29 (bounding box and
// viewport), C30 (well-formed SVG, no injection), C31 (themes and overrides), C25 (byte-identical output).

const injectMarker = "ZQXJ"

func allThemeIDs() []int64 {
	var ids []int64
	for _, t := range d2themescatalog.LightCatalog {
		ids = append(ids, t.ID)
	}
	for _, t := range d2themescatalog.DarkCatalog {
		ids = append(ids, t.ID)
	}
	return ids
}

var themeCodes = []string{"N1", "N2", "N3", "N4", "N5", "N6", "N7", "B1", "B2", "B3", "B4", "B5", "B6", "AA2", "AA4", "AA5", "AB4", "AB5"}

func themeColor(t d2themes.Theme, code string) string {
	v := reflect.ValueOf(t.Colors)
	if f := v.FieldByName(code); f.IsValid() {
		return f.String()
	}
	n := reflect.ValueOf(t.Colors.Neutrals)
	if f := n.FieldByName(code); f.IsValid() {
		return f.String()
	}
	return "?"
}

func compileWith(text, engine string, ro *d2svg.RenderOpts) (*d2target.Diagram, *d2graph.Graph, error) {
	lay := layoutFor(engine)
	return d2lib.Compile(quietCtx(), text, &d2lib.CompileOptions{Ruler: ruler(), LayoutResolver: func(string) (d2graph.LayoutGraph, error) { return lay, nil }}, ro)
}

func numEq(user string, exported float64) bool {
	f, err := strconv.ParseFloat(user, 64)
	return err == nil && math.Abs(f-exported) < 1e-9
}

// userStyles compares what the user wrote on an object/connection with what the export carries.
func userStyles(id string, a map[string]string, get func(k string) (string, bool, bool)) []tr.M {
	var res []tr.M
	keys := make([]string, 0, len(a))
	for k := range a {
		keys = append(keys, k)
	}
	sort.Strings(keys)
	for _, k := range keys {
		if !strings.HasPrefix(k, "style.") {
			continue
		}
		exp, same, known := get(strings.TrimPrefix(k, "style."))
		if !known {
			continue
		}
		res = append(res, tr.M{"id": id, "key": k, "user": a[k], "exported": exp, "same": tr.B(same)})
	}
	return res
}

func pipeRender(in pipeInput, text string, diagram0 *d2target.Diagram, g *d2graph.Graph, evs *[]tr.M, nt map[string]bool) {
	r := rand.New(rand.NewSource(in.Seed*131 + 3))
	eng := in.Engine
	if eng == "" {
		eng = "dagre"
	}
	themes := allThemeIDs()

	// ---------------------------------------------------------------- export under several themes (C28)
	pick := []int64{themes[r.Intn(len(themes))], []int64{300, 301, 303}[r.Intn(3)]} // + terminal, terminal grayscale, c4: themes with special rules
	if in.Mode == "render2" || in.Mode == "render2-plain" {
		pick = []int64{pick[0], 300, 301, 303} // every theme with special rules
	}
	if in.Mode == "render3" || in.Mode == "render3-plain" {
		pick = []int64{pick[0], 300, 301, 302, 303}
	}
	seenT := map[int64]bool{}
	for _, tid := range pick {
		if seenT[tid] || d2themescatalog.Find(tid).ID != tid {
			continue
		}
		seenT[tid] = true
		tid := tid
		guard("export", evs, func() {
			d, gg, err := compileWith(text, eng, &d2svg.RenderOpts{ThemeID: &tid})
			ev := tr.M{"ev": "export", "theme": int(tid), "ok": tr.B(err == nil), "objIDs": []string{}, "shapeIDs": []string{}, "edges": [][]string{}, "conns": [][]string{}, "styles": []tr.M{}}
			if err == nil {
				objIDs, shapeIDs := []string{}, []string{}
				for _, o := range gg.Objects {
					objIDs = append(objIDs, o.AbsID())
				}
				for _, s := range d.Shapes {
					shapeIDs = append(shapeIDs, s.ID)
				}
				edges, conns := [][]string{}, [][]string{}
				inBoard := map[*d2graph.Object]bool{}
				for _, o := range gg.Objects {
					inBoard[o] = true
				}
				for _, e := range gg.Edges {
					if inBoard[e.Src] && inBoard[e.Dst] {
						edges = append(edges, []string{e.AbsID(), e.Src.AbsID(), e.Dst.AbsID()})
					}
				}
				for _, c := range d.Connections {
					if !strings.Contains(c.Dst, "-lifeline-end-") {
						conns = append(conns, []string{c.ID, c.Src, c.Dst})
					}
				}
				styles := []tr.M{}
				shapeByID := map[string]d2target.Shape{}
				for _, s := range d.Shapes {
					shapeByID[s.ID] = s
				}
				for _, o := range gg.Objects {
					s, ok := shapeByID[o.AbsID()]
					if !ok {
						continue
					}
					a := map[string]string{}
					collectStyle(o.Style, a)
					styles = append(styles, userStyles(o.AbsID(), a, func(k string) (string, bool, bool) {
						switch k {
						case "opacity":
							return fmt.Sprint(s.Opacity), numEq(a["style.opacity"], s.Opacity), true
						case "stroke":
							return s.Stroke, s.Stroke == a["style.stroke"], true
						case "fill":
							return s.Fill, s.Fill == a["style.fill"], true
						case "strokeWidth":
							return fmt.Sprint(s.StrokeWidth), numEq(a["style.strokeWidth"], float64(s.StrokeWidth)), true
						case "strokeDash":
							return fmt.Sprint(s.StrokeDash), numEq(a["style.strokeDash"], s.StrokeDash), true
						case "borderRadius":
							return fmt.Sprint(s.BorderRadius), numEq(a["style.borderRadius"], float64(s.BorderRadius)), true
						case "shadow":
							return fmt.Sprint(s.Shadow), fmt.Sprint(s.Shadow) == a["style.shadow"], true
						case "3d":
							return fmt.Sprint(s.ThreeDee), fmt.Sprint(s.ThreeDee) == a["style.3d"], true
						case "multiple":
							return fmt.Sprint(s.Multiple), fmt.Sprint(s.Multiple) == a["style.multiple"], true
						case "fontSize":
							return fmt.Sprint(s.FontSize), numEq(a["style.fontSize"], float64(s.FontSize)), true
						case "fontColor":
							return s.Color, s.Color == a["style.fontColor"], true
						case "bold":
							return fmt.Sprint(s.Bold), fmt.Sprint(s.Bold) == a["style.bold"], true
						case "italic":
							return fmt.Sprint(s.Italic), fmt.Sprint(s.Italic) == a["style.italic"], true
						case "doubleBorder":
							return fmt.Sprint(s.DoubleBorder), fmt.Sprint(s.DoubleBorder) == a["style.doubleBorder"], true
						}
						return "", false, false
					})...)
				}
				connByID := map[string]d2target.Connection{}
				for _, c := range d.Connections {
					connByID[c.ID] = c
				}
				for _, e := range gg.Edges {
					c, ok := connByID[e.AbsID()]
					if !ok || !inBoard[e.Src] || !inBoard[e.Dst] {
						continue
					}
					a := map[string]string{}
					collectStyle(e.Style, a)
					styles = append(styles, userStyles(e.AbsID(), a, func(k string) (string, bool, bool) {
						switch k {
						case "opacity":
							return fmt.Sprint(c.Opacity), numEq(a["style.opacity"], c.Opacity), true
						case "stroke":
							return c.Stroke, c.Stroke == a["style.stroke"], true
						case "strokeWidth":
							return fmt.Sprint(c.StrokeWidth), numEq(a["style.strokeWidth"], float64(c.StrokeWidth)), true
						case "strokeDash":
							return fmt.Sprint(c.StrokeDash), numEq(a["style.strokeDash"], c.StrokeDash), true
						case "fontSize":
							return fmt.Sprint(c.FontSize), numEq(a["style.fontSize"], float64(c.FontSize)), true
						case "fontColor":
							return c.Color, c.Color == a["style.fontColor"], true
						case "bold":
							return fmt.Sprint(c.Bold), fmt.Sprint(c.Bold) == a["style.bold"], true
						case "italic":
							return fmt.Sprint(c.Italic), fmt.Sprint(c.Italic) == a["style.italic"], true
						case "animated":
							return fmt.Sprint(c.Animated), fmt.Sprint(c.Animated) == a["style.animated"], true
						case "borderRadius":
							return fmt.Sprint(c.BorderRadius), numEq(a["style.borderRadius"], c.BorderRadius), true
						}
						return "", false, false
					})...)
				}
				ev["objIDs"], ev["shapeIDs"], ev["edges"], ev["conns"], ev["styles"] = objIDs, shapeIDs, edges, conns, styles
			} else {
				ev["msg"] = firstN(err.Error(), 160)
			}
			*evs = append(*evs, ev)
		})
	}
	nt["C28"] = true

	// ---------------------------------------------------------------- render under option combinations (C29, C30, C31, C25)
	type combo struct {
		pad    int64
		sketch bool
		center bool
		scale  float64
		theme  int64
		dark   int64 // -1 none
		ovr    int   // number of overrides
		only   int   // 0: light and dark overrides as drawn; 1: light overrides only (dark ones nil); 2: dark overrides only (light ones nil)
	}
	combos := []combo{{pad: 100, theme: 0, dark: -1}, {pad: int64(r.Intn(200)), sketch: true, theme: themes[r.Intn(len(themes))], dark: -1},
		{pad: int64(r.Intn(9)), center: true, scale: 0.5 + r.Float64(), theme: themes[r.Intn(len(themes))], dark: []int64{200, 201}[r.Intn(2)], ovr: 1 + r.Intn(4)}}
	if in.Mode == "render2" || in.Mode == "render3" {
		// a dark theme with overrides given for one colour scheme only
		combos = append(combos, combo{pad: 10, theme: themes[r.Intn(len(themes))], dark: []int64{200, 201}[r.Intn(2)], ovr: 1 + r.Intn(3), only: 1 + r.Intn(2)})
	}
	for ci, cb := range combos {
		cb := cb
		guard("render", evs, func() {
			ro := &d2svg.RenderOpts{Pad: &cb.pad, Sketch: &cb.sketch, Center: &cb.center, ThemeID: &cb.theme}
			if cb.scale > 0 {
				ro.Scale = &cb.scale
			}
			if cb.dark >= 0 {
				ro.DarkThemeID = &cb.dark
			}
			ovr := map[string]string{}
			if cb.ovr > 0 {
				to := &d2target.ThemeOverrides{}
				dto := &d2target.ThemeOverrides{}
				for k := 0; k < cb.ovr; k++ {
					code := themeCodes[r.Intn(len(themeCodes))]
					col := fmt.Sprintf("#%02x%02x%02x", r.Intn(256), r.Intn(256), r.Intn(256))
					c2 := col
					if cb.only != 2 {
						reflect.ValueOf(to).Elem().FieldByName(code).Set(reflect.ValueOf(&c2))
						ovr[code] = col
					}
					if (k%2 == 0 && cb.only == 0) || cb.only == 2 {
						c3 := col
						reflect.ValueOf(dto).Elem().FieldByName(code).Set(reflect.ValueOf(&c3))
						ovr["dark:"+code] = col
					}
				}
				ro.ThemeOverrides = to
				ro.DarkThemeOverrides = dto
				if cb.only == 1 {
					ro.DarkThemeOverrides = nil
				}
				if cb.only == 2 {
					ro.ThemeOverrides = nil
				}
			}
			d, _, err := compileWith(text, eng, ro)
			if err != nil {
				*evs = append(*evs, tr.M{"ev": "render", "combo": ci, "ok": 0, "msg": firstN(err.Error(), 160)})
				return
			}
			svg, err := d2svg.Render(d, ro)
			ev := tr.M{"ev": "render", "combo": ci, "ok": tr.B(err == nil), "msg": "", "pad": int(cb.pad), "sketch": tr.B(cb.sketch), "theme": int(cb.theme), "dark": int(cb.dark)}
			if err != nil {
				ev["msg"] = firstN(err.Error(), 160)
				*evs = append(*evs, ev)
				return
			}
			// ---- C29 extents vs bounding box vs viewBox
			tl, br := d.BoundingBox()
			ev["bbox"] = []int{tl.X, tl.Y, br.X, br.Y}
			ev["extents"] = extentsOf(d)
			ev["viewBox"] = innerViewBox(svg)
			// ---- C30
			xmlOK, elems, attrs, bad := svgScan(svg)
			ev["xmlOK"], ev["elems"], ev["attrs"], ev["markerInNames"] = tr.B(xmlOK), elems, attrs, bad
			// ---- C31: theme colour classes in the stylesheet
			light := d2themescatalog.Find(cb.theme)
			ev["css"] = cssColors(svg, false)
			exp := tr.M{}
			for _, c := range themeCodes {
				v := themeColor(light, c)
				if o, ok := ovr[c]; ok {
					v = o
				}
				exp[c] = v
			}
			ev["cssExpected"] = exp
			ev["cssDark"] = tr.M{}
			ev["cssDarkExpected"] = tr.M{}
			if cb.dark >= 0 {
				dk := d2themescatalog.Find(cb.dark)
				ev["cssDark"] = cssColors(svg, true)
				de := tr.M{}
				for _, c := range themeCodes {
					v := themeColor(dk, c)
					if o, ok := ovr["dark:"+c]; ok {
						v = o
					}
					de[c] = v
				}
				ev["cssDarkExpected"] = de
			}
			ev["digest"] = fmt.Sprintf("%x", sha256.Sum256(svg))[:16]
			// ---- C25: the same input rendered again, sequentially and from concurrent goroutines
			digs := []string{}
			var mu sync.Mutex
			var wg sync.WaitGroup
			if ci < 2 {
				for k := 0; k < 2; k++ {
					wg.Add(1)
					go func() {
						defer wg.Done()
						defer func() { recover() }()
						d2, _, err := compileWith(text, eng, ro)
						dg := "ERR"
						if err == nil {
							if out, err := d2svg.Render(d2, ro); err == nil {
								dg = fmt.Sprintf("%x", sha256.Sum256(out))[:16]
							}
						}
						mu.Lock()
						digs = append(digs, dg)
						mu.Unlock()
					}()
				}
				wg.Wait()
			}
			ev["again"] = digs
			*evs = append(*evs, ev)
		})
	}
	for _, p := range []string{"C29", "C30", "C31", "C25"} {
		nt[p] = true
	}
	// unknown theme IDs are rejected (C31)
	guard("render", evs, func() {
		bad := int64(7777)
		_, _, err := compileWith(text, eng, &d2svg.RenderOpts{ThemeID: &bad})
		var err2 error
		if err == nil {
			d, _, _ := compileWith(text, eng, nil)
			_, err2 = d2svg.Render(d, &d2svg.RenderOpts{ThemeID: &bad})
		}
		*evs = append(*evs, tr.M{"ev": "badtheme", "rejected": tr.B(err != nil || err2 != nil)})
	})
}

func collectStyle(st d2graph.Style, out map[string]string) {
	v := reflect.ValueOf(st)
	t := v.Type()
	for i := 0; i < v.NumField(); i++ {
		f := v.Field(i)
		if f.IsNil() {
			continue
		}
		name := strings.Split(t.Field(i).Tag.Get("json"), ",")[0]
		out["style."+name] = f.Interface().(*d2graph.Scalar).Value
	}
}

// extentsOf lists the boxes the property names: shape boxes with half the stroke, shadow / 3D / multiple
// offsets, outside labels, connection route points with half the stroke, connection labels.
func extentsOf(d *d2target.Diagram) [][]int {
	var res [][]int
	add := func(kind int, x1, y1, x2, y2 float64) {
		res = append(res, []int{kind, int(math.Floor(x1)), int(math.Floor(y1)), int(math.Ceil(x2)), int(math.Ceil(y2))})
	}
	for _, s := range d.Shapes {
		hs := math.Ceil(float64(s.StrokeWidth) / 2)
		x, y, w, h := float64(s.Pos.X), float64(s.Pos.Y), float64(s.Width), float64(s.Height)
		add(1, x-hs, y-hs, x+w+hs, y+h+hs)
		if s.Shadow {
			add(2, x, y, x+w+hs+d2target.SHADOW_SIZE_X, y+h+hs+d2target.SHADOW_SIZE_Y)
		}
		if s.ThreeDee {
			off := float64(d2target.THREE_DEE_OFFSET)
			oy := off
			if s.Type == d2target.ShapeHexagon {
				oy = off / 2
			}
			add(3, x, y-oy, x+w+off, y+h)
		}
		if s.Multiple {
			off := float64(d2target.MULTIPLE_OFFSET)
			add(4, x, y-off, x+w+off, y+h)
		}
		if s.Label != "" && s.LabelPosition != "" {
			lp := label.FromString(s.LabelPosition)
			if lp.IsOutside() || lp.IsBorder() {
				// as d2svg draws it: outside and border labels are placed around the box enlarged by the 3d / multiple offsets
				box := geo.NewBox(geo.NewPoint(x, y), w, h)
				if s.ThreeDee {
					oy := float64(d2target.THREE_DEE_OFFSET)
					if s.Type == d2target.ShapeHexagon {
						oy /= 2
					}
					box.TopLeft.Y -= oy
					box.Height += oy
					box.Width += float64(d2target.THREE_DEE_OFFSET)
				} else if s.Multiple {
					box.TopLeft.Y -= float64(d2target.MULTIPLE_OFFSET)
					box.Height += float64(d2target.MULTIPLE_OFFSET)
					box.Width += float64(d2target.MULTIPLE_OFFSET)
				}
				tl := lp.GetPointOnBox(box, label.PADDING, float64(s.LabelWidth), float64(s.LabelHeight))
				add(5, tl.X, tl.Y, tl.X+float64(s.LabelWidth), tl.Y+float64(s.LabelHeight))
			}
		}
	}
	for _, c := range d.Connections {
		hs := math.Ceil(float64(c.StrokeWidth) / 2)
		for _, p := range c.Route {
			add(6, p.X-hs, p.Y-hs, p.X+hs, p.Y+hs)
		}
		if c.Label != "" {
			if tl := c.GetLabelTopLeft(); tl != nil {
				add(7, tl.X, tl.Y, tl.X+float64(c.LabelWidth), tl.Y+float64(c.LabelHeight))
			}
		}
	}
	return res
}

var reInnerSVG = regexp.MustCompile(`<svg[^>]*class="[^"]*d2-svg[^"]*"[^>]*viewBox="(-?\d+) (-?\d+) (-?\d+) (-?\d+)"`)
var reInnerSVG2 = regexp.MustCompile(`<svg[^>]*viewBox="(-?\d+) (-?\d+) (-?\d+) (-?\d+)"[^>]*class="d2-svg"`)

func innerViewBox(svg []byte) []int {
	m := reInnerSVG.FindSubmatch(svg)
	if m == nil {
		m = reInnerSVG2.FindSubmatch(svg)
	}
	if m == nil {
		return []int{0, 0, 0, 0}
	}
	out := make([]int, 4)
	for i := range out {
		out[i], _ = strconv.Atoi(string(m[i+1]))
	}
	return out
}

// svgScan tokenises the SVG with Go's strict XML decoder.
func svgScan(svg []byte) (ok bool, elems, attrs []string, markerInNames int) {
	dec := xml.NewDecoder(bytes.NewReader(svg))
	dec.Strict = true
	dec.Entity = xml.HTMLEntity
	es, as := map[string]bool{}, map[string]bool{}
	depth := 0
	for {
		tok, err := dec.Token()
		if err == io.EOF {
			break
		}
		if err != nil {
			return false, keys(es), keys(as), markerInNames
		}
		switch t := tok.(type) {
		case xml.StartElement:
			depth++
			es[t.Name.Local] = true
			if strings.Contains(t.Name.Local, injectMarker) {
				markerInNames++
			}
			seen := map[string]bool{}
			for _, a := range t.Attr {
				n := a.Name.Local
				if a.Name.Space != "" {
					n = a.Name.Space + ":" + n
				}
				as[n] = true
				if strings.Contains(n, injectMarker) || seen[n] {
					markerInNames++
				}
				seen[n] = true
			}
		case xml.EndElement:
			depth--
		}
	}
	return depth == 0, keys(es), keys(as), markerInNames
}

func keys(m map[string]bool) []string {
	r := make([]string, 0, len(m))
	for k := range m {
		r = append(r, k)
	}
	sort.Strings(r)
	return r
}

var reCSSRule = regexp.MustCompile(`\.fill-([A-Z]+[0-9])\{fill:([^;}]+);\}`)

// cssColors extracts code -> colour from the .fill-XX rules of the light block or of the dark media block.
func cssColors(svg []byte, dark bool) tr.M {
	s := string(svg)
	const media = "@media screen and (prefers-color-scheme:dark){"
	i := strings.Index(s, media)
	var part string
	if dark {
		if i < 0 {
			return tr.M{}
		}
		part = s[i+len(media):]
	} else {
		part = s
		if i >= 0 {
			part = s[:i]
		}
	}
	out := tr.M{}
	for _, m := range reCSSRule.FindAllStringSubmatch(part, -1) {
		if _, seen := out[m[1]]; !seen {
			out[m[1]] = m[2]
		}
	}
	return out
}

var _ = context.Background
