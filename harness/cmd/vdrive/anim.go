package main

import (
	"context"
	"encoding/json"
	"fmt"
	"io"
	"log/slog"
	"math/big"
	"regexp"
	"strings"

	"oss.terrastruct.com/d2/d2graph"
	"oss.terrastruct.com/d2/d2layouts/d2dagrelayout"
	"oss.terrastruct.com/d2/d2lib"
	"oss.terrastruct.com/d2/d2renderers/d2animate"
	"oss.terrastruct.com/d2/d2renderers/d2svg"
	"oss.terrastruct.com/d2/d2target"
	"oss.terrastruct.com/d2/lib/log"
	"oss.terrastruct.com/d2/lib/textmeasure"

	"verifharness/internal/tr"
)

// Family anim (C33): call the real d2animate.Wrap for (n boards, interval T), read the CSS
// @keyframes it emits and log them as exact integers; TraceD2Anim.tla judges them.

type animInput struct {
	N int `json:"n"`
	T int `json:"T"`
}

func init() { register("anim", driveAnim) }

var kfBlock = regexp.MustCompile(`@keyframes d2Transition-[^\s{]*-(\d+) \{`)
var kfRule = regexp.MustCompile(`([0-9.%,\s]+)\{\s*opacity:\s*([0-9.]+);\s*\}`)

func quietCtx() context.Context {
	return log.With(context.Background(), slog.New(slog.NewTextHandler(io.Discard, nil)))
}

func compileTiny() (*d2target.Diagram, error) {
	ruler, err := textmeasure.NewRuler()
	if err != nil {
		return nil, err
	}
	layout := func(ctx context.Context, g *d2graph.Graph) error { return d2dagrelayout.DefaultLayout(ctx, g) }
	d, _, err := d2lib.Compile(quietCtx(), "x", &d2lib.CompileOptions{Ruler: ruler, LayoutResolver: func(string) (d2graph.LayoutGraph, error) { return layout, nil }}, nil)
	return d, err
}

func driveAnim(c *Ctx) error {
	var pairs []animInput
	if c.Replay != nil {
		var in animInput
		if err := json.Unmarshal(c.Replay, &in); err != nil {
			return err
		}
		pairs = []animInput{in}
	} else {
		Ts := []int{1, 2, 3, 10, 16, 100, 1000, 1200, 2000, 5000}
		var ns []int
		if c.Thorough() {
			for n := 1; n <= 130; n++ {
				ns = append(ns, n)
			}
			Ts = append(Ts, 7, 33, 250, 3000, 7500)
		} else {
			for n := 1; n <= 24; n++ {
				ns = append(ns, n)
			}
			ns = append(ns, 50, 99, 100, 101, 102, 127, 128, 130)
			// seed picks a few extra board counts
			for k := 0; k < 4; k++ {
				ns = append(ns, 25+c.Rng.Intn(105))
			}
		}
		for _, n := range ns {
			for _, T := range Ts {
				if int64(n)*int64(T) <= 1_000_000 {
					pairs = append(pairs, animInput{n, T})
				}
			}
		}
	}
	root, err := compileTiny()
	if err != nil {
		return err
	}
	pad := int64(0)
	opts := d2svg.RenderOpts{Pad: &pad}
	for _, p := range pairs {
		svgs := make([][]byte, p.N)
		for i := range svgs {
			svgs[i] = []byte(fmt.Sprintf(`<g class="b%d"></g>`, i))
		}
		out, err := d2animate.Wrap(root, svgs, opts, p.T)
		if err != nil {
			return fmt.Errorf("Wrap(%d,%d): %v", p.N, p.T, err)
		}
		ev, err := animEvent(string(out), p)
		if err != nil {
			return err
		}
		nt := []string{}
		if p.N >= 2 && p.T >= 3 {
			nt = append(nt, "C33")
		}
		c.W.Add(p, []tr.M{ev}, nt...)
		c.W.Sample("C33", tr.M{"n": p.N, "T_ms": p.T, "board0_stops": ev["boards"].([]any)[0]})
	}
	return nil
}

// animEvent parses the emitted keyframes. Each stop: q = percent*1e6 (exact, from the decimal
// text), lo/hi = floor/ceil of the stop's time in microseconds, op = opacity*100.
func animEvent(svg string, p animInput) (tr.M, error) {
	total := int64(p.N) * int64(p.T)
	locs := kfBlock.FindAllStringSubmatchIndex(svg, -1)
	boards := make([]any, 0, p.N)
	ids := []any{}
	for k, loc := range locs {
		end := len(svg)
		if k+1 < len(locs) {
			end = locs[k+1][0]
		}
		body := svg[loc[1]:end]
		if j := strings.Index(body, "]]>"); j >= 0 {
			body = body[:j]
		}
		var id int
		fmt.Sscanf(svg[loc[2]:loc[3]], "%d", &id)
		ids = append(ids, id)
		stops := []any{}
		for _, m := range kfRule.FindAllStringSubmatch(body, -1) {
			op, err := decimalTimes(m[2], 100)
			if err != nil {
				return nil, err
			}
			for _, sel := range strings.Split(m[1], ",") {
				sel = strings.TrimSpace(sel)
				if !strings.HasSuffix(sel, "%") {
					return nil, fmt.Errorf("keyframe selector %q is not a percentage", sel)
				}
				q, err := decimalTimes(strings.TrimSuffix(sel, "%"), 1_000_000)
				if err != nil {
					return nil, err
				}
				// time in us = q/1e8 * total_ms * 1000 = q*total/1e5
				num := new(big.Int).Mul(q, big.NewInt(total))
				lo, rem := new(big.Int).DivMod(num, big.NewInt(100_000), new(big.Int))
				hi := new(big.Int).Set(lo)
				if rem.Sign() != 0 {
					hi.Add(hi, big.NewInt(1))
				}
				stops = append(stops, tr.M{"q": q.Int64(), "lo": lo.Int64(), "hi": hi.Int64(), "op": op.Int64()})
			}
		}
		boards = append(boards, stops)
	}
	// how many <g> carry the animation, and with which cycle length
	anim := regexp.MustCompile(`<g style="animation: d2Transition-[^\s"]*-(\d+) (\d+)ms infinite"`).FindAllStringSubmatch(svg, -1)
	cyc := []any{}
	for _, a := range anim {
		var v int
		fmt.Sscanf(a[2], "%d", &v)
		cyc = append(cyc, v)
	}
	return tr.M{"ev": "anim", "n": p.N, "T": p.T, "totalUs": total * 1000, "boards": boards, "ids": ids, "cycles": cyc}, nil
}

// decimalTimes parses a non-negative decimal string exactly and multiplies by scale (a power of ten
// no smaller than the number of decimals), erroring on loss.
func decimalTimes(s string, scale int64) (*big.Int, error) {
	r, ok := new(big.Rat).SetString(s)
	if !ok {
		return nil, fmt.Errorf("not a decimal: %q", s)
	}
	r.Mul(r, new(big.Rat).SetInt64(scale))
	if !r.IsInt() {
		return nil, fmt.Errorf("decimal %q has more precision than 1/%d", s, scale)
	}
	return r.Num(), nil
}
