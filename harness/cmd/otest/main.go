package main

import (
	"fmt"
	"os"
	"strings"

	"oss.terrastruct.com/d2/d2compiler"
	"oss.terrastruct.com/d2/d2format"
	"oss.terrastruct.com/d2/d2oracle"
)

// otest <file.d2> <op> <key> [arg] : apply one oracle edit and print the resulting text (experiments)
func main() {
	b, _ := os.ReadFile(os.Args[1])
	g, _, err := d2compiler.Compile("x.d2", strings.NewReader(string(b)), nil)
	if err != nil {
		fmt.Println("compile:", err)
		return
	}
	op, key := os.Args[2], os.Args[3]
	switch op {
	case "delete":
		g, err = d2oracle.Delete(g, nil, key)
	case "set":
		g, err = d2oracle.Set(g, nil, key, nil, &os.Args[4])
	case "rename":
		g, _, err = d2oracle.Rename(g, nil, key, os.Args[4])
	case "create":
		var nk string
		g, nk, err = d2oracle.Create(g, nil, key)
		fmt.Println("newKey:", nk)
	case "reconnect":
		var src, dst *string
		if os.Args[4] != "-" {
			src = &os.Args[4]
		}
		if len(os.Args) > 5 && os.Args[5] != "-" {
			dst = &os.Args[5]
		}
		d, derr := d2oracle.ReconnectEdgeIDDeltas(g, nil, key, src, dst)
		fmt.Println("deltas:", d, derr)
		g, err = d2oracle.ReconnectEdge(g, nil, key, src, dst)
	case "move":
		g, err = d2oracle.Move(g, nil, key, os.Args[4], len(os.Args) > 5)
	}
	if err != nil {
		fmt.Println("ERR:", err)
		return
	}
	fmt.Print(d2format.Format(g.AST))
}
