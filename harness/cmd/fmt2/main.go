package main

import (
	"fmt"
	"os"
	"strings"

	"oss.terrastruct.com/d2/d2format"
	"oss.terrastruct.com/d2/d2parser"
)

func main() {
	b, _ := os.ReadFile(os.Args[1])
	m, err := d2parser.Parse("x", strings.NewReader(string(b)), nil)
	if err != nil {
		fmt.Println("ERR", err)
	}
	f1 := d2format.Format(m)
	m2, _ := d2parser.Parse("x", strings.NewReader(f1), nil)
	f2 := d2format.Format(m2)
	fmt.Printf("--- f1\n%s--- f2\n%s--- same=%v\n", f1, f2, f1 == f2)
}
