package gen

import (
	"fmt"
	"math/rand"
	"strings"
)

// Soup writes syntactically rich D2 text from a small grammar of the language's constructs, nested and
// combined at random, without regard to whether the result means anything: keys of every spelling, maps,
// connections and chains, connection references with indexes and globs, globs with filters, vars blocks
// with nested, valueless and self-referring entries, substitutions (alone, inside unquoted and quoted
// text next to escapes, spread), arrays (one line, several lines, nested, with comments, at the end of the
// input), block strings with several delimiters, imports, nulls, underscores, classes, boards, d2-config,
// comments. It feeds the parse, format and compile stages, whose properties speak about every input.
type soup struct {
	r  *rand.Rand
	sb strings.Builder
}

func (s *soup) pick(a ...string) string { return a[s.r.Intn(len(a))] }
func (s *soup) p(n int) bool            { return s.r.Intn(100) < n }

func (s *soup) name() string {
	return s.pick("a", "b", "c", "x", "A", "a b", `"q.r"`, `'s t'`, "é", "k1", "_", "*", "a*", "**", "***", "x-y", "null", "Label", "shape", "style", "1", "a\\.b", `"it's"`, "vars", "classes", "k", "layers")
}

func (s *soup) key() string {
	k := s.name()
	for n := s.r.Intn(3); n > 0; n-- {
		k += "." + s.name()
	}
	if s.p(8) {
		k = "_." + k
	}
	if s.p(4) {
		k = "_._." + k
	}
	if s.p(5) {
		k += "." + s.pick("style.opacity", "style.fill", "shape", "label", "class", "near", "link", "width", "style", "constraint", "tooltip")
	}
	return k
}

func (s *soup) scalar() string {
	switch s.r.Intn(16) {
	case 0:
		return "${" + s.pick("x", "y", "m.a", "nope", "e") + "}"
	case 1:
		return s.pick("pre ", "0.", "") + "${" + s.pick("x", "y", "m.a") + "}" + s.pick(" post", "", "-${y}")
	case 2:
		return `"` + s.pick("q ", "") + "${" + s.pick("x", "y", "e") + "}" + s.pick(` said \"hi\"`, ` \\ back`, "", ` ${y}`) + `"`
	case 3:
		return `'single ${x}'`
	case 4:
		return "null"
	case 5:
		return s.pick("true", "false", "TRUE", "1", "0.5", "-3", "1e3", "007")
	case 6:
		return s.pick(`"quoted \"q\" \n"`, `"a\\b"`, `""`, `'it''s'`, `"tab\t"`)
	case 7:
		return "|md\n  # T\n  text ${x} `code`\n|"
	case 8:
		return s.pick("||| ts\n  let a = b | c\n|||", "|`go x := 1 `|", "|py\n  def f():\n    a = 1\n\n    return a\n|")
	case 9:
		return "@" + s.pick("f", "\"dir/f\"", "f.key", "../f")
	case 10:
		return s.pick("circle", "sql_table", "class", "sequence_diagram", "top-center", "red", "#ff0000", "https://example.com/?a=1&b=2")
	}
	return s.pick("hello", "two words", "ünï", "a: b", "x -> y", `semi\;colon`, "hash \\# no comment", "star*", "q?")
}

func (s *soup) array(depth int, ind string) string {
	n := s.r.Intn(4)
	items := []string{}
	for i := 0; i < n; i++ {
		switch s.r.Intn(9) {
		case 0:
			items = append(items, "...${"+s.pick("m", "arr", "x")+"}")
		case 1:
			items = append(items, "${"+s.pick("x", "y")+"}")
		case 2:
			if depth < 2 {
				items = append(items, s.array(depth+1, ind+"  "))
			}
		case 3:
			items = append(items, s.pick("# comment in array", `""" block comment """`))
		case 4:
			items = append(items, "...@"+s.pick("f", "g"))
		case 5:
			if depth < 2 {
				items = append(items, "{"+s.name()+": "+s.pick("v", "1")+"}")
			}
		default:
			items = append(items, s.pick("a", "unique", "primary_key", "1", `"q"`, "k", "j", "null"))
		}
	}
	hasComment := false
	for _, it := range items {
		if strings.HasPrefix(it, "#") || strings.HasPrefix(it, `"""`) {
			hasComment = true
		}
	}
	if s.p(50) && !hasComment {
		return "[" + strings.Join(items, "; ") + "]"
	}
	return "[\n" + ind + "  " + strings.Join(items, "\n"+ind+"  ") + "\n" + ind + "]"
}

func (s *soup) edge() string {
	ar := func() string { return s.pick("->", "->", "<-", "--", "<->") }
	e := s.key() + " " + ar() + " " + s.key()
	for n := s.r.Intn(3); n > 0 && s.p(40); n-- {
		e += " " + ar() + " " + s.key()
	}
	return e
}

func (s *soup) decl(depth int, ind string) {
	w := func(f string, a ...any) { fmt.Fprintf(&s.sb, ind+f+"\n", a...) }
	switch s.r.Intn(24) {
	case 0, 1, 2:
		w("%s", s.key())
	case 3, 4, 5:
		w("%s: %s", s.key(), s.scalar())
	case 6, 7:
		if depth < 3 {
			lbl := ""
			if s.p(40) {
				lbl = s.scalar() + " "
				if strings.Contains(lbl, "\n") {
					lbl = "lbl "
				}
			}
			w("%s: %s{", s.key(), lbl)
			for n := s.r.Intn(4); n > 0; n-- {
				s.decl(depth+1, ind+"  ")
			}
			w("}")
		}
	case 8, 9:
		e := s.edge()
		switch s.r.Intn(4) {
		case 0:
			w("%s", e)
		case 1:
			w("%s: %s", e, s.scalar())
		default:
			w("%s: %s{", e, s.pick("", "lbl "))
			if s.p(60) {
				w("  %s: %s", s.pick("style.stroke", "style.animated", "source-arrowhead", "target-arrowhead.shape", "class", "label", "style.opacity"), s.scalar())
			}
			w("}")
		}
	case 10:
		idx := s.pick("[0]", "[1]", "[*]", "", "[9]")
		w("(%s)%s%s: %s", s.edge(), idx, s.pick("", ".style.stroke", ".label", ".class", ".source-arrowhead.shape", ".style.opacity"), s.scalar())
	case 11:
		w("%s%s: %s", s.pick("*", "**", "***", "a*", "*.b", "**.c", "x.*"), s.pick(".shape", ".style.fill", ".style.opacity", ".class", ".label", ""), s.scalar())
	case 12:
		w("%s: {", s.pick("*", "**", "***"))
		w("  %s%s: %s", s.pick("&", "!&"), s.pick("shape", "label", "class", "connected", "leaf", "level", "style.fill"), s.pick("circle", "*", "true", "1", "[a; b]", "red"))
		w("  %s: %s", s.pick("style.fill", "shape", "label", "class"), s.scalar())
		w("}")
	case 13:
		w("%s -> %s%s", s.pick("*", "**", "a", "(* - a)"), s.pick("*", "**", "b", "_.x"), s.pick("", ": glob", ": {style.stroke: red}"))
	case 14:
		w("vars: {")
		for n := 1 + s.r.Intn(4); n > 0; n-- {
			switch s.r.Intn(7) {
			case 0:
				w("  %s", s.pick("e", "x", "y"))
			case 1:
				w("  m: {a: %s; b: {c: d}}", s.pick("1", "${x}", "v"))
			case 2:
				w("  arr: %s", s.array(1, ind+"  "))
			case 3:
				w("  %s: ${%s}%s", s.pick("x", "y", "z"), s.pick("x", "y", "z", "m.a"), s.pick("", "-b", " c"))
			case 4:
				w("  d2-config: {%s: %s}", s.pick("theme-id", "pad", "sketch", "layout-engine", "theme-overrides", "dark-theme-overrides", "data", "center", "bogus"), s.pick("1", "true", "{B1: red}", "{a: b}", "elk", "${x}", "null", "[1]", "300"))
			default:
				w("  %s: %s", s.pick("x", "y", "z"), s.scalar())
			}
		}
		w("}")
	case 15:
		w("%s: %s", s.pick("constraint", "class", "x.class", "a.constraint", "vars.arr", "y"), s.array(0, ind))
	case 16:
		w("...${%s}", s.pick("m", "x", "arr", "nope"))
	case 17:
		w("%s@%s", s.pick("...", "x: ", "x.y: ...", "a -> b: "), s.pick("f", "\"dir/f.d2\"", "f.k", "./f", "../up"))
	case 18:
		w("%s", s.pick("# comment", "#", "#  ", `""" block """`, "\"\"\"\nmulti\nline\n\"\"\""))
	case 19:
		w("classes: {")
		w("  %s: {%s: %s}", s.pick("k", "j", "K"), s.pick("style.fill", "shape", "label", "style.opacity", "class"), s.scalar())
		w("}")
	case 20:
		if depth == 0 || s.p(30) {
			kw := s.pick("layers", "scenarios", "steps")
			w("%s: {", kw)
			w("  %s: {", s.pick("l", "s", "1", "a b"))
			for n := s.r.Intn(3); n > 0; n-- {
				s.decl(depth+2, ind+"    ")
			}
			w("  }")
			w("}")
		}
	case 21:
		w("%s: null", s.pick(s.key(), "("+s.edge()+")[0]", s.key()+".style.fill", "vars.x", "classes.k"))
	case 22:
		w("%s: %s; %s: %s", s.key(), s.scalar2(), s.key(), s.scalar2())
	case 23:
		w("%s.%s: %s", s.key(), s.pick("link", "near", "icon", "tooltip", "width", "grid-rows", "direction", "label.near", "shape"), s.scalar())
	}
}

// scalar2: a scalar that fits on one line
func (s *soup) scalar2() string {
	for {
		v := s.scalar()
		if !strings.Contains(v, "\n") {
			return v
		}
	}
}

// Soup generates one text. With probability 1/4 the final newline is left out.
func Soup(r *rand.Rand) string {
	s := &soup{r: r}
	for n := 1 + r.Intn(8); n > 0; n-- {
		s.decl(0, "")
	}
	t := s.sb.String()
	if r.Intn(4) == 0 {
		t = strings.TrimRight(t, "\n")
	}
	return t
}
