// Package gen generates D2 diagrams from a seed: a random object tree with shapes, labels, styles,
// explicit sizes, connections, and optionally grids, sequence diagrams, constant-near shapes, boards.
// Everything it emits is meant to compile; Meta says what was generated so that checks can pick
// the objects a property talks about.
package gen

import (
	"fmt"
	"math/rand"
	"strings"
)

type Opts struct {
	MaxObjs     int
	MaxEdges    int
	Tricky      bool // names/labels with quotes, dots, unicode, XML metacharacters
	Containers  bool
	Grid        bool
	Sequence    bool
	Near        bool
	Styles      bool
	Sizes       bool
	AllShapes   bool
	Boards      bool
	Markdown    bool
	Icons       bool
	Classes     bool
	Direction   bool
	Tooltips    bool
	DeepNest    bool   // containers are likely and nest to depth 4
	LabelPos    bool   // label.near / icon.near positions on shapes, containers and near shapes
	CrossEdges  bool   // connections from outside into grids / sequence diagrams, some of them parallel
	SpecialOnly string // "grid" | "sequence" | "near": make that construct the point of the diagram
	// second-generation options (modes text2 / render2); none of them draws from the random source unless set,
	// so the diagrams of the older modes stay what they were
	Comments     bool // line comments (empty, blank, indented, trailing blanks), block comments, inside maps
	NumberLabels bool // labels spelled like numbers in unusual forms: 007, +5, 0x1F, 1_000, 1e3, .5
	Boundary     bool // explicit boundary values of styles (0, maxima, false) on shapes and connections
	EdgeLinks    bool // links (with metacharacters when Tricky) and tooltips on labelled connections
	Label3D      bool // 3d / multiple shapes with every outside label and icon position
	// third-generation options (mode text3), same rule
	Tables      bool // sql_table and class shapes: columns / fields named like other objects, connections to columns, fields and methods
	EdgeKeys    bool // connection references in every form: (a -> b).k, (a -> b)[i].k, c.(x -> y)[i].k, (a -> b)[*].k, with maps and flat keys
	BlockBlank  bool // block strings (markdown, code, latex-free) with whitespace-only lines, tabs and deeper indentation
	EmptyBoards bool // scenarios / steps / layers declared with an empty map, with a label and an empty map, or without a map
	EdgeExtras  bool // connections with a border radius and with (tricky) labels on both arrowheads (mode render3)
}

type ObjMeta struct {
	ID       string // absolute ID as written (quoted where needed)
	Shape    string
	W, H     int    // explicit size, 0 = none
	Role     string // "", "grid", "gridcell", "seq", "actor", "near", "container"
	Label    string
	HasLabel bool
}

type Diagram struct {
	Text      string
	Objs      []ObjMeta
	NEdges    int
	Feats     []string
	Markers   []string // user strings that carry the injection marker
	SeqIDs    []string
	SeqActors []int
	GridIDs   []string
	GridCells []int
}

var Shapes = []string{"rectangle", "square", "circle", "oval", "diamond", "hexagon", "cloud", "cylinder", "queue", "package", "step", "callout", "stored_data", "person", "page", "parallelogram", "document"}
var plainNames = []string{"a", "b", "c", "d", "e", "f", "g", "h", "k", "m"}
var trickyNames = []string{`"ZQXJ<x a=\"1\">"`, `"ZQXJ\" id=\"z"`, `"x y"`, `"a.b"`, `"q'uote"`, "ünï", `"<b>&amp;"`, `"tab\tsep"`, "A", `"1"`, `"->"`, `"nu ll"`, `"d$"`, `"semi;colon"`, `"brace{}"`, `"日本"`, `"😀"`}
var plainLabels = []string{"hello", "Hello World", "a longer label with several words", "x", "42", "UPPER lower", "multi\\nline"}
var trickyLabels = []string{`"ZQXJ\" onload=\"alert(1)"`, `"</text><script>ZQXJ()</script>"`, `"ZQXJ' x='1"`, `"<script>alert(1)</script>"`, `"a & b < c > d"`, `"quote \" inside"`, `"it's"`, `"]]> cdata"`, `"ünïcödé 日本語 😀"`, `"--> arrow"`, `"&lt;already&gt;"`, `"tab\there"`, `""`, `"x' y=\"1"`}
var colors = []string{"red", `"#ff0000"`, `"#0f0"`, "blue", `"#A1B2C3"`, "honeydew", `"linear-gradient(#f00, #00f)"`}
var labelPositions = []string{"outside-top-left", "outside-top-center", "outside-top-right", "outside-left-center", "outside-right-center", "outside-bottom-center", "outside-bottom-left",
	"top-center", "center-center", "bottom-right", "top-left", "outside-left-top", "outside-right-bottom", "border-top-center"}
var outsidePositions = []string{"outside-top-left", "outside-top-center", "outside-top-right", "outside-left-top", "outside-left-center", "outside-left-bottom", "outside-right-top", "outside-right-center",
	"outside-right-bottom", "outside-bottom-left", "outside-bottom-center", "outside-bottom-right"}
var NearConsts = []string{"top-left", "top-center", "top-right", "center-left", "center-right", "bottom-left", "bottom-center", "bottom-right"}

type g struct {
	r    *rand.Rand
	o    Opts
	sb   strings.Builder
	d    *Diagram
	used map[string]bool
}

func (x *g) pick(a []string) string { return a[x.r.Intn(len(a))] }
func (x *g) p(n int) bool           { return x.r.Intn(100) < n }

func (x *g) name(scope string) string {
	for tries := 0; tries < 50; tries++ {
		var n string
		if x.o.Tricky && x.p(35) {
			n = x.pick(trickyNames)
		} else {
			n = x.pick(plainNames)
		}
		k := scope + "\x00" + strings.ToLower(n)
		if !x.used[k] {
			x.used[k] = true
			return n
		}
	}
	n := fmt.Sprintf("n%d", len(x.used))
	x.used[scope+"\x00"+n] = true
	return n
}

var numberLabels = []string{"007", "+5", "0x1F", "1_000", "1e3", ".5", "5.", "-0", "00", "1.50", "0b11", "0o17", "1E2", "+.5e1", "9007199254740993", "0.10", "-007"}
var commentLines = []string{"#", "# ", "#   ", "#\t", "# note", "#note", "#  two  spaces", "# trailing blanks   ", "## double", "# ünï 日本", "#!shebang", "# a: b {", "\"\"\" block comment \"\"\"", "\"\"\"\nmulti\n  line\n\"\"\""}

// comment writes 0-2 comment lines at indentation ind
func (x *g) comment(ind string) {
	if !x.o.Comments || !x.p(30) {
		return
	}
	for k := 1 + x.r.Intn(2); k > 0; k-- {
		c := x.pick(commentLines)
		for _, l := range strings.Split(c, "\n") {
			fmt.Fprintf(&x.sb, "%s%s\n", ind, l)
		}
	}
	x.d.Feats = append(x.d.Feats, "comments")
}

// boundary writes explicit boundary values of style keywords
func (x *g) boundary(ind string, isEdge bool) {
	if !x.o.Boundary || !x.p(60) {
		return
	}
	for k := 1 + x.r.Intn(3); k > 0; k-- {
		switch x.r.Intn(10) {
		case 0:
			fmt.Fprintf(&x.sb, "%sstyle.stroke-dash: %s\n", ind, x.pick([]string{"0", "0", "10", "1"}))
		case 1:
			fmt.Fprintf(&x.sb, "%sstyle.stroke-width: %s\n", ind, x.pick([]string{"0", "0", "15", "1"}))
		case 2:
			fmt.Fprintf(&x.sb, "%sstyle.opacity: %s\n", ind, x.pick([]string{"0", "1", "0.0", "1.0"}))
		case 3:
			fmt.Fprintf(&x.sb, "%sstyle.font-size: %s\n", ind, x.pick([]string{"8", "100"}))
		case 4:
			fmt.Fprintf(&x.sb, "%sstyle.bold: false\n", ind)
		case 5:
			fmt.Fprintf(&x.sb, "%sstyle.italic: false\n", ind)
		case 6:
			if isEdge {
				fmt.Fprintf(&x.sb, "%sstyle.animated: false\n", ind)
			} else {
				fmt.Fprintf(&x.sb, "%sstyle.border-radius: %s\n", ind, x.pick([]string{"0", "1", "999"}))
			}
		case 7:
			if !isEdge {
				fmt.Fprintf(&x.sb, "%sstyle.shadow: false\n", ind)
			} else {
				fmt.Fprintf(&x.sb, "%sstyle.underline: false\n", ind)
			}
		case 8:
			if !isEdge {
				fmt.Fprintf(&x.sb, "%sstyle.multiple: false\n", ind)
			}
		case 9:
			if !isEdge {
				fmt.Fprintf(&x.sb, "%sstyle.double-border: false\n", ind)
			}
		}
	}
	x.d.Feats = append(x.d.Feats, "boundary-styles")
}

func (x *g) label() string {
	if x.o.NumberLabels && x.p(25) {
		return x.pick(numberLabels)
	}
	if x.o.Tricky && x.p(50) {
		return x.pick(trickyLabels)
	}
	return x.pick(plainLabels)
}

func (x *g) styles(ind string, isEdge bool) {
	if !x.o.Styles {
		return
	}
	n := x.r.Intn(4)
	for i := 0; i < n; i++ {
		switch x.r.Intn(12) {
		case 0:
			fmt.Fprintf(&x.sb, "%sstyle.opacity: 0.%d\n", ind, 1+x.r.Intn(9))
		case 1:
			fmt.Fprintf(&x.sb, "%sstyle.stroke: %s\n", ind, x.pick(colors[:6]))
		case 2:
			if !isEdge {
				fmt.Fprintf(&x.sb, "%sstyle.fill: %s\n", ind, x.pick(colors))
			}
		case 3:
			fmt.Fprintf(&x.sb, "%sstyle.stroke-width: %d\n", ind, x.r.Intn(16))
		case 4:
			if !isEdge {
				fmt.Fprintf(&x.sb, "%sstyle.shadow: true\n", ind)
			}
		case 5:
			fmt.Fprintf(&x.sb, "%sstyle.font-size: %d\n", ind, 8+x.r.Intn(40))
		case 6:
			fmt.Fprintf(&x.sb, "%sstyle.bold: true\n", ind)
		case 7:
			fmt.Fprintf(&x.sb, "%sstyle.italic: true\n", ind)
		case 8:
			fmt.Fprintf(&x.sb, "%sstyle.stroke-dash: %d\n", ind, 1+x.r.Intn(9))
		case 9:
			fmt.Fprintf(&x.sb, "%sstyle.font-color: %s\n", ind, x.pick(colors[:6]))
		case 10:
			if isEdge {
				fmt.Fprintf(&x.sb, "%sstyle.animated: true\n", ind)
			} else {
				fmt.Fprintf(&x.sb, "%sstyle.border-radius: %d\n", ind, x.r.Intn(20))
			}
		case 11:
			fmt.Fprintf(&x.sb, "%sstyle.text-transform: %s\n", ind, x.pick([]string{"uppercase", "lowercase", "capitalize", "none"}))
		}
	}
}

// obj emits one object (and its children) inside scope `abs` at indentation ind; returns its abs ID.
func (x *g) obj(abs, ind string, depth int, role string, budget *int) string {
	n := x.name(abs)
	id := n
	if abs != "" {
		id = abs + "." + n
	}
	*budget--
	m := ObjMeta{ID: id, Shape: "rectangle", Role: role}
	isContainer := x.o.Containers && depth < 3 && *budget > 0 && x.p(30) && role != "actor"
	if x.o.DeepNest {
		isContainer = depth < 4 && *budget > 0 && x.p(65)
	}
	x.comment(ind)
	fmt.Fprintf(&x.sb, "%s%s: ", ind, n)
	if x.p(45) {
		m.Label = x.label()
		m.HasLabel = true
		fmt.Fprintf(&x.sb, "%s ", m.Label)
	}
	x.sb.WriteString("{\n")
	in2 := ind + "  "
	x.comment(in2)
	if !isContainer && role != "actor" {
		if x.o.AllShapes || x.p(50) {
			m.Shape = x.pick(Shapes)
			if m.Shape != "rectangle" {
				fmt.Fprintf(&x.sb, "%sshape: %s\n", in2, m.Shape)
			}
		}
		if x.o.Sizes && x.p(35) && role != "gridcell" {
			m.W, m.H = 20+x.r.Intn(300), 20+x.r.Intn(200)
			if m.Shape == "circle" || m.Shape == "square" {
				m.H = m.W
			}
			fmt.Fprintf(&x.sb, "%swidth: %d\n%sheight: %d\n", in2, m.W, in2, m.H)
		}
		if x.o.Styles && x.p(15) && (m.Shape == "rectangle" || m.Shape == "square" || m.Shape == "hexagon") {
			fmt.Fprintf(&x.sb, "%sstyle.3d: true\n", in2)
			m.Shape3D()
		} else if x.o.Styles && x.p(15) {
			fmt.Fprintf(&x.sb, "%sstyle.multiple: true\n", in2)
		}
		if x.o.Icons && x.p(15) {
			fmt.Fprintf(&x.sb, "%sicon: https://icons.terrastruct.com/essentials/004-picture.svg\n", in2)
		}
	}
	if (x.o.Tricky || x.o.Tooltips) && x.p(20) {
		fmt.Fprintf(&x.sb, "%stooltip: %s\n", in2, x.label())
	}
	if (x.o.Tricky || x.o.Tooltips) && x.p(10) {
		if x.o.Tricky {
			fmt.Fprintf(&x.sb, "%slink: https://example.com/?q=%d&r=\"x\"\n", in2, x.r.Intn(9))
		} else {
			fmt.Fprintf(&x.sb, "%slink: https://example.com/%d\n", in2, x.r.Intn(9))
		}
	}
	x.styles(in2, false)
	x.boundary(in2, false)
	if x.o.Label3D && !isContainer && role == "" && x.p(70) {
		// every outside position next to the offsets that 3d and multiple add to the drawn extent
		if (m.Shape == "rectangle" || m.Shape == "square" || m.Shape == "hexagon") && x.p(60) {
			fmt.Fprintf(&x.sb, "%sstyle.3d: true\n", in2)
		} else {
			fmt.Fprintf(&x.sb, "%sstyle.multiple: true\n", in2)
		}
		if !m.HasLabel {
			fmt.Fprintf(&x.sb, "%slabel: a longer label with several words\n", in2)
		}
		fmt.Fprintf(&x.sb, "%slabel.near: %s\n", in2, x.pick(outsidePositions))
		x.d.Feats = append(x.d.Feats, "label-3d")
	}
	// label positions only on containers (and on near shapes, below): on leaves the engines' label padding
	// interacts with explicit sizes and connection ends in ways outside the properties' wording
	if x.o.LabelPos && isContainer && (x.p(35) || (x.o.DeepNest && x.p(60))) {
		fmt.Fprintf(&x.sb, "%slabel.near: %s\n", in2, x.pick(labelPositions))
	}
	if isContainer {
		m.Role = "container"
		if x.o.Direction && x.p(20) {
			// direction inside containers is only honoured by some engines; keep it at root only
		}
		k := 1 + x.r.Intn(3)
		for i := 0; i < k && *budget > 0; i++ {
			x.obj(id, in2, depth+1, "", budget)
		}
	}
	fmt.Fprintf(&x.sb, "%s}\n", ind)
	x.d.Objs = append(x.d.Objs, m)
	return id
}

func (m *ObjMeta) Shape3D() {}

func (x *g) edges(ids []string, ind string, n int) {
	if len(ids) == 0 {
		return
	}
	arrows := []string{"->", "->", "->", "<-", "--", "<->"}
	for i := 0; i < n; i++ {
		a, b := x.pick(ids), x.pick(ids)
		if a == b && !x.p(20) {
			continue
		}
		// no connection between an object and its own ancestor/descendant (d2 rejects some of those)
		if strings.HasPrefix(a, b+".") || strings.HasPrefix(b, a+".") {
			continue
		}
		x.comment(ind)
		fmt.Fprintf(&x.sb, "%s%s %s %s", ind, a, x.pick(arrows), b)
		x.d.NEdges++
		labelled := false
		if x.p(40) {
			fmt.Fprintf(&x.sb, ": %s", x.label())
			labelled = true
		}
		if x.p(30) || ((x.o.Boundary || x.o.EdgeLinks) && x.p(70)) {
			x.sb.WriteString(" {\n")
			x.styles(ind+"  ", true)
			x.boundary(ind+"  ", true)
			if x.o.EdgeExtras {
				if x.p(50) {
					fmt.Fprintf(&x.sb, "%s  style.border-radius: %s\n", ind, x.pick([]string{"0", "3", "10", "20"}))
				}
				if x.p(50) {
					fmt.Fprintf(&x.sb, "%s  source-arrowhead.label: %s\n", ind, x.label())
				}
				if x.p(50) {
					fmt.Fprintf(&x.sb, "%s  target-arrowhead: %s {shape: %s}\n", ind, x.label(), x.pick([]string{"triangle", "arrow", "diamond", "circle", "cf-one", "cf-many"}))
				}
				x.d.Feats = append(x.d.Feats, "edge-extras")
			}
			if x.o.EdgeLinks && x.p(50) {
				if !labelled {
					fmt.Fprintf(&x.sb, "%s  label: go\n", ind)
				}
				if x.o.Tricky {
					fmt.Fprintf(&x.sb, "%s  link: %s\n", ind, x.pick([]string{`'https://example.com/?q=" onclick="ZQXJ(1)'`, `"https://example.com/\"><ZQXJ/>"`, `"https://example.com/?a=1&b=<2>"`, `"https://example.com/'x'"`}))
				} else {
					fmt.Fprintf(&x.sb, "%s  link: https://example.com/e%d\n", ind, x.r.Intn(9))
				}
				if x.p(40) {
					fmt.Fprintf(&x.sb, "%s  tooltip: %s\n", ind, x.label())
				}
				x.d.Feats = append(x.d.Feats, "edge-link")
			}
			if x.p(30) {
				fmt.Fprintf(&x.sb, "%s  target-arrowhead: %s {shape: %s}\n", ind, x.pick([]string{"1", "*", `"n"`}), x.pick([]string{"triangle", "arrow", "diamond", "circle", "cf-one", "cf-many"}))
			}
			if x.p(20) {
				fmt.Fprintf(&x.sb, "%s  source-arrowhead.label: %s\n", ind, x.pick([]string{"s", "0..1"}))
			}
			fmt.Fprintf(&x.sb, "%s}", ind)
		}
		x.sb.WriteString("\n")
	}
}

func (x *g) grid(ind string) {
	n := x.name("")
	fmt.Fprintf(&x.sb, "%s%s: {\n", ind, n)
	rows, cols := 0, 0
	order := x.r.Intn(2)
	mode := x.r.Intn(3)
	if mode == 0 || mode == 2 {
		rows = 1 + x.r.Intn(4)
	}
	if mode == 1 || mode == 2 {
		cols = 1 + x.r.Intn(4)
	}
	emitR := func() {
		if rows > 0 {
			fmt.Fprintf(&x.sb, "%s  grid-rows: %d\n", ind, rows)
		}
	}
	emitC := func() {
		if cols > 0 {
			fmt.Fprintf(&x.sb, "%s  grid-columns: %d\n", ind, cols)
		}
	}
	if order == 0 {
		emitR()
		emitC()
	} else {
		emitC()
		emitR()
	}
	switch x.r.Intn(4) {
	case 0:
		fmt.Fprintf(&x.sb, "%s  grid-gap: %d\n", ind, x.r.Intn(60))
	case 1:
		fmt.Fprintf(&x.sb, "%s  vertical-gap: %d\n%s  horizontal-gap: %d\n", ind, x.r.Intn(60), ind, x.r.Intn(60))
	}
	cells := x.r.Intn(13)
	if x.o.SpecialOnly == "grid" {
		cells = x.r.Intn(31)
	}
	x.d.Objs = append(x.d.Objs, ObjMeta{ID: n, Role: "grid", Shape: "rectangle", W: rows, H: cols})
	for i := 0; i < cells; i++ {
		cn := fmt.Sprintf("c%d", i)
		m := ObjMeta{ID: n + "." + cn, Role: "gridcell", Shape: "rectangle"}
		fmt.Fprintf(&x.sb, "%s  %s", ind, cn)
		if x.p(40) {
			m.W, m.H = 20+x.r.Intn(150), 20+x.r.Intn(100)
			fmt.Fprintf(&x.sb, ": {width: %d; height: %d}", m.W, m.H)
		} else if x.p(20) {
			fmt.Fprintf(&x.sb, ": {\n%s    in%d\n%s  }", ind, i, ind)
			x.d.Objs = append(x.d.Objs, ObjMeta{ID: fmt.Sprintf("%s.%s.in%d", n, cn, i), Shape: "rectangle"})
		} else if x.p(30) {
			fmt.Fprintf(&x.sb, ": %s", x.pick(plainLabels))
		}
		x.sb.WriteString("\n")
		x.d.Objs = append(x.d.Objs, m)
	}
	fmt.Fprintf(&x.sb, "%s}\n", ind)
	x.d.GridIDs = append(x.d.GridIDs, n)
	x.d.GridCells = append(x.d.GridCells, cells)
	x.d.Feats = append(x.d.Feats, "grid")
}

func (x *g) sequence(ind string) {
	n := x.name("")
	fmt.Fprintf(&x.sb, "%s%s: {\n%s  shape: sequence_diagram\n", ind, n, ind)
	x.d.Objs = append(x.d.Objs, ObjMeta{ID: n, Role: "seq", Shape: "sequence_diagram"})
	na := 1 + x.r.Intn(4)
	if x.o.SpecialOnly == "sequence" {
		na = 1 + x.r.Intn(8)
	}
	actors := []string{}
	for i := 0; i < na; i++ {
		a := fmt.Sprintf("p%d", i)
		actors = append(actors, a)
		fmt.Fprintf(&x.sb, "%s  %s", ind, a)
		if x.p(30) {
			fmt.Fprintf(&x.sb, ": %s", x.pick(plainLabels))
		}
		x.sb.WriteString("\n")
		x.d.Objs = append(x.d.Objs, ObjMeta{ID: n + "." + a, Role: "actor", Shape: "rectangle"})
	}
	nm := x.r.Intn(8)
	if x.o.SpecialOnly == "sequence" {
		nm = x.r.Intn(31)
	}
	var pairs [][2]string
	for i := 0; i < nm; i++ {
		a, b := x.pick(actors), x.pick(actors)
		pairs = append(pairs, [2]string{a, b})
		switch {
		case x.p(12):
			pairs = pairs[:len(pairs)-1]
			fmt.Fprintf(&x.sb, "%s  %s.sp%d -> %s: m%d\n", ind, a, i%3, b, i)
		case x.p(8):
			pairs = pairs[:len(pairs)-1]
			fmt.Fprintf(&x.sb, "%s  %s.\"note %d\"\n", ind, a, i)
		case x.p(8) && len(actors) > 1:
			pairs = pairs[:len(pairs)-1]
			fmt.Fprintf(&x.sb, "%s  grp%d: {\n%s    %s -> %s: g%d\n%s  }\n", ind, i, ind, a, b, i, ind)
		default:
			fmt.Fprintf(&x.sb, "%s  %s -> %s: m%d\n", ind, a, b, i)
		}
		x.d.NEdges++
	}
	// later references to earlier messages by index (must not move them)
	if len(pairs) > 1 && x.p(40) {
		for k := 0; k < 1+x.r.Intn(2); k++ {
			pr := pairs[x.r.Intn(len(pairs)/2+1)] // one of the earlier messages
			fmt.Fprintf(&x.sb, "%s  (%s -> %s)[0].style.stroke: red\n", ind, pr[0], pr[1])
		}
		x.d.Feats = append(x.d.Feats, "seq-reref")
	}
	fmt.Fprintf(&x.sb, "%s}\n", ind)
	x.d.SeqIDs = append(x.d.SeqIDs, n)
	x.d.SeqActors = append(x.d.SeqActors, len(actors))
	x.d.Feats = append(x.d.Feats, "sequence")
}

func (x *g) near(ind string) {
	k := 1 + x.r.Intn(3)
	if x.o.SpecialOnly == "near" {
		k = 1 + x.r.Intn(8)
	}
	for i := 0; i < k; i++ {
		n := fmt.Sprintf("nr%d", i)
		c := x.pick(NearConsts)
		fmt.Fprintf(&x.sb, "%s%s: %s {\n%s  near: %s\n", ind, n, x.pick(plainLabels), ind, c)
		if x.o.LabelPos && x.p(40) {
			fmt.Fprintf(&x.sb, "%s  label.near: %s\n", ind, x.pick(labelPositions))
		}
		if x.p(25) {
			fmt.Fprintf(&x.sb, "%s  inner%d\n", ind, i)
			x.d.Objs = append(x.d.Objs, ObjMeta{ID: fmt.Sprintf("%s.inner%d", n, i), Shape: "rectangle"})
		} else if x.p(30) {
			fmt.Fprintf(&x.sb, "%s  shape: %s\n", ind, x.pick(Shapes))
		}
		fmt.Fprintf(&x.sb, "%s}\n", ind)
		x.d.Objs = append(x.d.Objs, ObjMeta{ID: n, Role: "near", Label: c, Shape: "rectangle"})
	}
	x.d.Feats = append(x.d.Feats, "near")
}

// tables writes sql_table and class shapes. Their columns, fields and methods are not objects of the diagram, also when
// they are named like one, and a connection to one of them is a connection to the shape.
func (x *g) tables(tops, ids []string) {
	colTypes := []string{"int", "varchar(255)", "string", `"timestamp with time zone"`, "void"}
	other := func() string { // a name some other object of the diagram already has (its last segment), else a plain one
		if len(ids) > 0 && x.p(50) {
			id := x.pick(ids)
			if i := strings.LastIndex(id, "."); i >= 0 && !strings.Contains(id, `"`) {
				return id[i+1:]
			}
			if !strings.Contains(id, ".") && !strings.Contains(id, `"`) {
				return id
			}
		}
		return x.pick([]string{"id", "name", "a", "b", "tbl0", "cls0", "x y"})
	}
	ind, pre := "", ""
	if x.p(30) {
		ind, pre = "  ", "box."
		x.sb.WriteString("box: {\n")
	}
	var ends []string
	if x.p(70) {
		fmt.Fprintf(&x.sb, "%stbl0: %s{\n%s  shape: sql_table\n", ind, x.pick([]string{"", "users ", ""}), ind)
		for k := 1 + x.r.Intn(4); k > 0; k-- {
			c := other()
			if strings.Contains(c, " ") {
				c = `"` + c + `"`
			}
			fmt.Fprintf(&x.sb, "%s  %s: %s", ind, c, x.pick(colTypes))
			if x.p(30) {
				cs := []string{"primary_key", "foreign_key", "unique", "[primary_key; unique]"}
				if x.o.Tricky && x.o.EdgeExtras {
					cs = append(cs, `"a<b & c"`, `"</text><script>ZQXJ()</script>"`, `"ZQXJ\" onload=\"x"`, `"it's"`)
				}
				fmt.Fprintf(&x.sb, " {constraint: %s}", x.pick(cs))
			}
			x.sb.WriteString("\n")
			ends = append(ends, pre+"tbl0."+c)
		}
		fmt.Fprintf(&x.sb, "%s}\n", ind)
		ends = append(ends, pre+"tbl0", pre+"tbl0.nocolumn")
		x.d.Objs = append(x.d.Objs, ObjMeta{ID: pre + "tbl0", Shape: "sql_table"})
	}
	if x.p(70) {
		fmt.Fprintf(&x.sb, "%scls0: {\n%s  shape: class\n", ind, ind)
		for k := 1 + x.r.Intn(4); k > 0; k-- {
			c := other()
			if strings.Contains(c, " ") {
				c = `"` + c + `"`
			}
			switch x.r.Intn(3) {
			case 0:
				fmt.Fprintf(&x.sb, "%s  %s: %s\n", ind, c, x.pick(colTypes))
			case 1:
				fmt.Fprintf(&x.sb, "%s  %s%s(%s): %s\n", ind, x.pick([]string{"+", "-", "\\#", ""}), strings.Trim(c, `"`+" "), x.pick([]string{"", "a int", "a, b"}), x.pick(colTypes))
			case 2:
				fmt.Fprintf(&x.sb, "%s  %s\n", ind, c)
			}
			ends = append(ends, pre+"cls0."+c)
		}
		fmt.Fprintf(&x.sb, "%s}\n", ind)
		ends = append(ends, pre+"cls0", pre+"cls0.nofield")
		x.d.Objs = append(x.d.Objs, ObjMeta{ID: pre + "cls0", Shape: "class"})
	}
	if ind != "" {
		x.sb.WriteString("}\n")
	}
	all := append(append([]string{}, ends...), tops...)
	for k := x.r.Intn(4); k > 0 && len(ends) > 0; k-- {
		a, b := x.pick(ends), x.pick(all)
		if x.p(50) {
			a, b = b, a
		}
		if strings.Contains(a, "(") || strings.Contains(b, "(") || strings.Contains(a, "#") || strings.Contains(b, "#") {
			continue
		}
		fmt.Fprintf(&x.sb, "%s %s %s\n", a, x.pick([]string{"->", "<-", "--", "<->"}), b)
		x.d.NEdges++
	}
	x.d.Feats = append(x.d.Feats, "tables")
}

// edgeKeys declares connections and then refers to them in every form the language has.
func (x *g) edgeKeys(ids []string) {
	var plain []string
	for _, id := range ids {
		if !strings.Contains(id, `"`) && !strings.Contains(id, ".") {
			plain = append(plain, id)
		}
	}
	if len(plain) < 2 {
		plain = append(plain, "ek0", "ek1")
	}
	arrows := []string{"->", "<-", "--", "<->"}
	attrs := []string{"label: hi", "style.stroke: red", "style.opacity: 0.4", "style.animated: true", "target-arrowhead.shape: diamond", "source-arrowhead.label: 1", "target-arrowhead: many {shape: cf-many}", "style.stroke-width: 3", "label: \"two words\""}
	for k := 1 + x.r.Intn(3); k > 0; k-- {
		a, b, ar := x.pick(plain), x.pick(plain), x.pick(arrows)
		if a == b {
			continue
		}
		n := 1 + x.r.Intn(2)
		for i := 0; i < n; i++ {
			fmt.Fprintf(&x.sb, "%s %s %s\n", a, ar, b)
			x.d.NEdges++
		}
		for j := 1 + x.r.Intn(3); j > 0; j-- {
			at := x.pick(attrs)
			switch x.r.Intn(6) {
			case 0: // a new connection declared in the group form
				fmt.Fprintf(&x.sb, "(%s %s %s).%s\n", a, ar, b, at)
				x.d.NEdges++
			case 1:
				fmt.Fprintf(&x.sb, "(%s %s %s)[%d].%s\n", a, ar, b, x.r.Intn(n), at)
			case 2:
				fmt.Fprintf(&x.sb, "(%s %s %s)[*].%s\n", a, ar, b, at)
			case 3:
				fmt.Fprintf(&x.sb, "(%s %s %s)[%d]: {\n  %s\n}\n", a, ar, b, x.r.Intn(n), at)
			case 4:
				fmt.Fprintf(&x.sb, "(%s %s %s): {%s}\n", a, ar, b, at)
				x.d.NEdges++
			case 5:
				fmt.Fprintf(&x.sb, "(%s %s *)[*].%s\n", a, ar, at)
			}
		}
	}
	if x.p(40) { // inside a container, referred to from outside with a key prefix
		fmt.Fprintf(&x.sb, "ekbox: {\n  p %s q\n  (p %s q).label: inner\n}\n", "->", "->")
		fmt.Fprintf(&x.sb, "ekbox.(p -> q)[%d].%s\n", x.r.Intn(2), x.pick(attrs))
		x.d.NEdges += 2
	}
	x.d.Feats = append(x.d.Feats, "edge-keys")
}

// blockBlank writes block strings whose lines include whitespace-only ones
func (x *g) blockBlank() {
	blanks := []string{"", "  ", "    ", "\t", "  \t", "      "}
	langs := []string{"md", "go", "py", "txt", "", "`md", "|md"}
	ind := ""
	if x.p(40) {
		ind = "  "
		x.sb.WriteString("bbox: {\n")
	}
	for k := 1 + x.r.Intn(2); k > 0; k-- {
		lang := x.pick(langs)
		open, close := "|"+lang, "|"
		if strings.HasPrefix(lang, "`") {
			open, close = "|`"+lang[1:], "`|"
		} else if strings.HasPrefix(lang, "|") {
			open, close = "||"+lang[1:], "||"
		}
		fmt.Fprintf(&x.sb, "%sblk%d: %s\n", ind, k, open)
		lines := []string{"first line", "  indented more", "last line", "func main() {", "}", "# title"}
		if close != "|" {
			lines = append(lines, "a | b")
		}
		fmt.Fprintf(&x.sb, "%s  %s\n", ind, x.pick(lines))
		for n := 1 + x.r.Intn(4); n > 0; n-- {
			if x.p(45) {
				fmt.Fprintf(&x.sb, "%s\n", x.pick(blanks))
			} else {
				fmt.Fprintf(&x.sb, "%s  %s\n", ind, x.pick(lines))
			}
		}
		fmt.Fprintf(&x.sb, "%s%s\n", ind, close)
	}
	if ind != "" {
		x.sb.WriteString("}\n")
	}
	x.d.Feats = append(x.d.Feats, "block-blank")
}

// boardsBlock returns a layers/scenarios/steps block; where it is placed relative to the other
// declarations matters for scenarios and steps (they inherit what was declared before them).
func (x *g) boardsBlock(tops []string) string {
	var sb strings.Builder
	kinds := []string{"layers", "scenarios", "steps"}
	kd := x.pick(kinds)
	fmt.Fprintf(&sb, "%s: {\n", kd)
	for i := 0; i < 1+x.r.Intn(2); i++ {
		if x.o.EmptyBoards && x.p(50) {
			fmt.Fprintf(&sb, "  e%d%s\n", i, x.pick([]string{": {}", ": {\n  }", ": Empty {}", "", ": Label"}))
			x.d.Feats = append(x.d.Feats, "empty-boards")
		}
		fmt.Fprintf(&sb, "  b%d: {\n    extra%d: %s\n", i, i, x.pick(plainLabels))
		if len(tops) > 0 && kd != "layers" && x.p(50) {
			fmt.Fprintf(&sb, "    %s.style.opacity: 0.5\n", tops[0])
		}
		sb.WriteString("  }\n")
	}
	sb.WriteString("}\n")
	x.d.Feats = append(x.d.Feats, "boards", "boards-"+kd)
	return sb.String()
}

// Generate builds one diagram.
func Generate(r *rand.Rand, o Opts) *Diagram {
	x := &g{r: r, o: o, d: &Diagram{}, used: map[string]bool{}}
	if o.MaxObjs == 0 {
		o.MaxObjs = 6
		x.o.MaxObjs = 6
	}
	if o.Direction && x.p(50) {
		fmt.Fprintf(&x.sb, "direction: %s\n", x.pick([]string{"up", "down", "left", "right"}))
	}
	if o.Classes && x.p(40) {
		x.sb.WriteString("classes: {\n  hot: {style.fill: red; style.stroke-width: 3}\n  cool: {shape: oval}\n}\n")
		x.d.Feats = append(x.d.Feats, "classes")
	}
	budget := 1 + r.Intn(x.o.MaxObjs)
	var tops []string
	for budget > 0 {
		tops = append(tops, x.obj("", "", 1, "", &budget))
	}
	var ids []string
	for _, m := range x.d.Objs {
		ids = append(ids, m.ID)
	}
	if o.Classes && len(ids) > 0 && x.p(50) {
		fmt.Fprintf(&x.sb, "%s.class: hot\n", x.pick(ids))
	}
	ne := 0
	if x.o.MaxEdges > 0 {
		ne = r.Intn(x.o.MaxEdges + 1)
	}
	x.edges(ids, "", ne)
	if o.Grid && (o.SpecialOnly == "grid" || x.p(35)) {
		x.grid("")
	}
	if o.Sequence && (o.SpecialOnly == "sequence" || x.p(30)) {
		x.sequence("")
	}
	if o.Near && (o.SpecialOnly == "near" || x.p(35)) {
		x.near("")
	}
	if o.CrossEdges && len(tops) > 0 {
		// connections from ordinary shapes into grids and sequence diagrams, some declared twice (parallel)
		for gi, gid := range x.d.GridIDs {
			if x.d.GridCells[gi] > 0 && x.p(60) {
				cell := fmt.Sprintf("%s.c%d", gid, x.r.Intn(x.d.GridCells[gi]))
				src := x.pick(tops)
				fmt.Fprintf(&x.sb, "%s -> %s: one\n", src, cell)
				x.d.NEdges++
				if x.p(50) {
					fmt.Fprintf(&x.sb, "%s -> %s\n%s -> %s: two\n", src, x.pick(tops), src, cell)
					x.d.NEdges += 2
				}
			}
		}
		for si, sid := range x.d.SeqIDs {
			if x.d.SeqActors[si] > 0 && x.p(40) {
				src := x.pick(tops)
				fmt.Fprintf(&x.sb, "%s -> %s\n", src, sid)
				x.d.NEdges++
				if x.p(50) {
					fmt.Fprintf(&x.sb, "%s -> %s: again\n", src, sid)
					x.d.NEdges++
				}
			}
		}
		x.d.Feats = append(x.d.Feats, "cross-edges")
	}
	if o.Tables && x.p(60) {
		x.tables(tops, ids)
	}
	if o.EdgeKeys && x.p(60) {
		x.edgeKeys(ids)
	}
	if o.BlockBlank && x.p(50) {
		x.blockBlank()
	}
	if o.Markdown && x.p(30) {
		x.sb.WriteString("mdnote: |md\n  # Title\n  Some *markdown* with `code` and a [link](https://example.com).\n|\n")
		x.d.Objs = append(x.d.Objs, ObjMeta{ID: "mdnote", Shape: "text"})
		x.d.Feats = append(x.d.Feats, "markdown")
	}
	if o.Boards && x.p(40) {
		blk := x.boardsBlock(tops)
		body := x.sb.String()
		x.sb.Reset()
		switch x.r.Intn(3) {
		case 0: // before everything else
			x.sb.WriteString(blk + body)
			x.d.Feats = append(x.d.Feats, "boards-first")
		case 1: // in the middle, at a top-level line boundary
			lines := strings.SplitAfter(body, "\n")
			cut := 0
			for tries := 0; tries < 20; tries++ {
				k := x.r.Intn(len(lines))
				if k < len(lines) && !strings.HasPrefix(lines[k], " ") && !strings.HasPrefix(lines[k], "}") && !strings.HasPrefix(lines[k], "|") {
					cut = k
					break
				}
			}
			x.sb.WriteString(strings.Join(lines[:cut], "") + blk + strings.Join(lines[cut:], ""))
			if cut == 0 {
				x.d.Feats = append(x.d.Feats, "boards-first")
			} else {
				x.d.Feats = append(x.d.Feats, "boards-middle")
			}
		default:
			x.sb.WriteString(body + blk)
		}
	}
	x.d.Text = x.sb.String()
	return x.d
}
