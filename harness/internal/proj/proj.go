// Package proj projects compiled d2 graphs onto the facts the properties talk about, as JSON-able
// records TLC can read (ints, strings, arrays, objects; never null, never floats).
package proj

import (
	"fmt"
	"reflect"
	"sort"
	"strings"

	"oss.terrastruct.com/d2/d2graph"
	"oss.terrastruct.com/d2/d2parser"
)

type M = map[string]any

// Obj is one object of a board.
type Obj struct {
	ID     string            `json:"id"`     // absolute ID as d2 prints it
	Key    string            `json:"key"`    // case-folded absolute ID (identity)
	Name   string            `json:"name"`   // own ID (last element)
	Parent string            `json:"parent"` // case-folded absolute ID of the parent, "" for top level
	Label  string            `json:"label"`
	Shape  string            `json:"shape"`
	Attrs  map[string]string `json:"attrs"` // every attribute/style the object carries, by keyword
	Path   []string          `json:"path"`  // absolute ID parsed back with the real parser, case-folded
	Spell  []string          `json:"spell"` // the same, as spelled
}

type Edge struct {
	Src   string            `json:"src"` // case-folded absolute IDs
	Dst   string            `json:"dst"`
	SA    int               `json:"sa"`
	DA    int               `json:"da"`
	Idx   int               `json:"idx"`
	ID    string            `json:"id"` // AbsID
	Label string            `json:"label"`
	Attrs map[string]string `json:"attrs"`
	SrcP  []string          `json:"srcp"`
	DstP  []string          `json:"dstp"`
	// Synthetic: an endpoint is not an object of the board (sequence-diagram lifeline pseudo-edges added by layout)
	Synthetic bool `json:"synthetic,omitempty"`
}

type Board struct {
	Path  []string `json:"path"` // e.g. ["layers","x","steps","1"]
	Objs  []Obj    `json:"objs"`
	Edges []Edge   `json:"edges"`
}

func fold(s string) string { return strings.ToLower(s) }

// KeyPath parses an ID with the real parser into its segments (as spelled).
func KeyPath(id string) []string {
	kp, err := d2parser.ParseKey(id)
	if err != nil || kp == nil {
		return []string{"<unparseable>", id}
	}
	res := []string{}
	for _, sb := range kp.Path {
		res = append(res, sb.Unbox().ScalarString())
	}
	return res
}

func foldAll(a []string) []string {
	r := make([]string, len(a))
	for i, s := range a {
		r[i] = fold(s)
	}
	return r
}

func styleMap(st d2graph.Style, prefix string, out map[string]string) {
	v := reflect.ValueOf(st)
	t := v.Type()
	for i := 0; i < v.NumField(); i++ {
		f := v.Field(i)
		if f.IsNil() {
			continue
		}
		sc := f.Interface().(*d2graph.Scalar)
		name := strings.Split(t.Field(i).Tag.Get("json"), ",")[0]
		out[prefix+name] = sc.Value
	}
}

func attrMap(a *d2graph.Attributes) map[string]string {
	out := map[string]string{}
	styleMap(a.Style, "style.", out)
	styleMap(a.IconStyle, "iconstyle.", out)
	put := func(k string, s *d2graph.Scalar) {
		if s != nil {
			out[k] = s.Value
		}
	}
	if a.Icon != nil {
		out["icon"] = a.Icon.String()
	}
	put("tooltip", a.Tooltip)
	put("link", a.Link)
	put("width", a.WidthAttr)
	put("height", a.HeightAttr)
	put("top", a.Top)
	put("left", a.Left)
	if a.NearKey != nil {
		out["near"] = strings.Join(d2graph.Key(a.NearKey), ".")
	}
	if a.Language != "" {
		out["language"] = a.Language
	}
	if a.Direction.Value != "" {
		out["direction"] = a.Direction.Value
	}
	if len(a.Constraint) > 0 {
		out["constraint"] = strings.Join(a.Constraint, ";")
	}
	put("grid-rows", a.GridRows)
	put("grid-columns", a.GridColumns)
	put("grid-gap", a.GridGap)
	put("vertical-gap", a.VerticalGap)
	put("horizontal-gap", a.HorizontalGap)
	put("label.near", a.LabelPosition)
	put("icon.near", a.IconPosition)
	put("tooltip.near", a.TooltipPosition)
	if len(a.Classes) > 0 {
		out["class"] = strings.Join(a.Classes, ";")
	}
	return out
}

// Graph projects one board (without nested boards).
func Graph(g *d2graph.Graph, path []string) Board {
	b := Board{Path: append([]string{}, path...), Objs: []Obj{}, Edges: []Edge{}}
	for _, o := range g.Objects {
		parent := ""
		if o.Parent != nil && o.Parent != g.Root {
			parent = fold(o.Parent.AbsID())
		}
		ob := Obj{ID: o.AbsID(), Key: fold(o.AbsID()), Name: o.ID, Parent: parent, Label: o.Label.Value, Shape: o.Shape.Value, Attrs: attrMap(&o.Attributes)}
		ob.Spell = KeyPath(o.AbsID())
		ob.Path = foldAll(ob.Spell)
		if o.SQLTable != nil {
			cols := []string{}
			for _, c := range o.SQLTable.Columns {
				cols = append(cols, c.Name.Label+":"+c.Type.Label+":"+strings.Join(c.Constraint, "+"))
			}
			ob.Attrs["sql.columns"] = strings.Join(cols, "|")
		}
		if o.Class != nil {
			fs := []string{}
			for _, f := range o.Class.Fields {
				fs = append(fs, f.Visibility+f.Name+":"+f.Type)
			}
			for _, m := range o.Class.Methods {
				fs = append(fs, m.Visibility+m.Name+"->"+m.Return)
			}
			ob.Attrs["class.members"] = strings.Join(fs, "|")
		}
		b.Objs = append(b.Objs, ob)
	}
	inBoard := map[*d2graph.Object]bool{}
	for _, o := range g.Objects {
		inBoard[o] = true
	}
	for _, e := range g.Edges {
		if !inBoard[e.Src] || !inBoard[e.Dst] {
			// lifeline pseudo-edge: its end object is not part of the board
			b.Edges = append(b.Edges, Edge{Synthetic: true, Src: fold(e.Src.AbsID()), Dst: fold(e.Dst.AbsID()), Attrs: map[string]string{}, SrcP: []string{}, DstP: []string{}})
			continue
		}
		ed := Edge{Src: fold(e.Src.AbsID()), Dst: fold(e.Dst.AbsID()), SA: bi(e.SrcArrow), DA: bi(e.DstArrow), Idx: e.Index, ID: e.AbsID(), Label: e.Label.Value, Attrs: attrMap(&e.Attributes)}
		ed.SrcP = foldAll(KeyPath(e.Src.AbsID()))
		ed.DstP = foldAll(KeyPath(e.Dst.AbsID()))
		if e.SrcArrowhead != nil {
			for k, v := range attrMap(e.SrcArrowhead) {
				ed.Attrs["source-arrowhead."+k] = v
			}
			if e.SrcArrowhead.Label.Value != "" {
				ed.Attrs["source-arrowhead.label"] = e.SrcArrowhead.Label.Value
			}
			if e.SrcArrowhead.Shape.Value != "" {
				ed.Attrs["source-arrowhead.shape"] = e.SrcArrowhead.Shape.Value
			}
		}
		if e.DstArrowhead != nil {
			for k, v := range attrMap(e.DstArrowhead) {
				ed.Attrs["target-arrowhead."+k] = v
			}
			if e.DstArrowhead.Label.Value != "" {
				ed.Attrs["target-arrowhead.label"] = e.DstArrowhead.Label.Value
			}
			if e.DstArrowhead.Shape.Value != "" {
				ed.Attrs["target-arrowhead.shape"] = e.DstArrowhead.Shape.Value
			}
		}
		b.Edges = append(b.Edges, ed)
	}
	return b
}

// Boards projects a graph and all its nested boards, depth first: layers, scenarios, steps.
func Boards(g *d2graph.Graph) []Board {
	var res []Board
	var rec func(g *d2graph.Graph, path []string)
	rec = func(g *d2graph.Graph, path []string) {
		res = append(res, Graph(g, path))
		for _, l := range g.Layers {
			rec(l, append(append([]string{}, path...), "layers", l.Name))
		}
		for _, l := range g.Scenarios {
			rec(l, append(append([]string{}, path...), "scenarios", l.Name))
		}
		for _, l := range g.Steps {
			rec(l, append(append([]string{}, path...), "steps", l.Name))
		}
	}
	rec(g, nil)
	return res
}

func bi(b bool) int {
	if b {
		return 1
	}
	return 0
}

// Digest is a stable textual digest of boards (order-sensitive), for equality checks by TLC.
func Digest(bs []Board) string {
	var sb strings.Builder
	for _, b := range bs {
		fmt.Fprintf(&sb, "#%s\n", strings.Join(b.Path, "/"))
		for _, o := range b.Objs {
			fmt.Fprintf(&sb, "o %s|%s|%s|%s|%s\n", o.ID, o.Parent, o.Label, o.Shape, sortedKV(o.Attrs))
		}
		for _, e := range b.Edges {
			if e.Synthetic {
				continue
			}
			fmt.Fprintf(&sb, "e %s|%s|%d%d|%d|%s|%s\n", e.Src, e.Dst, e.SA, e.DA, e.Idx, e.Label, sortedKV(e.Attrs))
		}
	}
	return sb.String()
}

func sortedKV(m map[string]string) string {
	ks := make([]string, 0, len(m))
	for k := range m {
		ks = append(ks, k)
	}
	sort.Strings(ks)
	var sb strings.Builder
	for _, k := range ks {
		fmt.Fprintf(&sb, "%s=%q;", k, m[k])
	}
	return sb.String()
}
