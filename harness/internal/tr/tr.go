// Package tr writes ndjson traces for TLC (Json module): ints, strings, arrays, objects only;
// never null, never floats. Traces of many inputs are concatenated with "reset" events and
// split into chunks at trace boundaries.
package tr

import (
	"bufio"
	"encoding/json"
	"fmt"
	"os"
	"path/filepath"
	"sort"
	"sync"
)

type M = map[string]any

// Writer collects traces. One trace = one input. Safe for concurrent Add.
type Writer struct {
	mu        sync.Mutex
	dir       string
	maxEvents int
	chunk     int
	curEvents int
	f         *os.File
	w         *bufio.Writer
	inF       *os.File
	inW       *bufio.Writer
	Traces    int
	Events    int
	Nontriv   map[string]int
	samples   map[string][]any
	Extra     M
}

func NewWriter(dir string, maxEvents int) (*Writer, error) {
	if err := os.MkdirAll(dir, 0o755); err != nil {
		return nil, err
	}
	inF, err := os.Create(filepath.Join(dir, "inputs.ndjson"))
	if err != nil {
		return nil, err
	}
	return &Writer{dir: dir, maxEvents: maxEvents, inF: inF, inW: bufio.NewWriter(inF),
		Nontriv: map[string]int{}, samples: map[string][]any{}, Extra: M{}}, nil
}

func (w *Writer) open() error {
	name := filepath.Join(w.dir, fmt.Sprintf("chunk_%04d.ndjson", w.chunk))
	f, err := os.Create(name)
	if err != nil {
		return err
	}
	w.f, w.w, w.curEvents = f, bufio.NewWriter(f), 0
	w.chunk++
	return nil
}

func (w *Writer) closeChunk() {
	if w.f != nil {
		w.w.Flush()
		w.f.Close()
		w.f = nil
	}
}

// Add appends one trace (its events, without the reset line) and remembers its input.
// nontrivial lists the property ids for which this trace exercised the property's antecedent.
// Returns the trace id.
func (w *Writer) Add(input any, events []M, nontrivial ...string) int {
	w.mu.Lock()
	defer w.mu.Unlock()
	if w.f == nil || (w.curEvents > 0 && w.curEvents+len(events)+1 > w.maxEvents) {
		w.closeChunk()
		if err := w.open(); err != nil {
			panic(err)
		}
	}
	w.Traces++
	tid := w.Traces
	must(writeLine(w.w, M{"ev": "reset", "tid": tid}))
	for i, e := range events {
		e["i"] = i + 1
		must(writeLine(w.w, e))
	}
	w.curEvents += len(events) + 1
	w.Events += len(events) + 1
	must(writeLine(w.inW, M{"tid": tid, "input": input}))
	for _, p := range nontrivial {
		w.Nontriv[p]++
	}
	return tid
}

// Sample records an example case under a property id (kept to at most 5 per id).
func (w *Writer) Sample(prop string, s any) {
	w.mu.Lock()
	defer w.mu.Unlock()
	if len(w.samples[prop]) < 5 {
		w.samples[prop] = append(w.samples[prop], s)
	}
}

func (w *Writer) Close() error {
	w.mu.Lock()
	defer w.mu.Unlock()
	w.closeChunk()
	w.inW.Flush()
	w.inF.Close()
	keys := make([]string, 0, len(w.Nontriv))
	for k := range w.Nontriv {
		keys = append(keys, k)
	}
	sort.Strings(keys)
	meta := M{"traces": w.Traces, "events": w.Events, "chunks": w.chunk, "nontrivial": w.Nontriv, "samples": w.samples, "extra": w.Extra}
	b, err := json.MarshalIndent(meta, "", " ")
	if err != nil {
		return err
	}
	return os.WriteFile(filepath.Join(w.dir, "meta.json"), b, 0o644)
}

func writeLine(w *bufio.Writer, m M) error {
	b, err := json.Marshal(m)
	if err != nil {
		return err
	}
	w.Write(b)
	return w.WriteByte('\n')
}

func must(err error) {
	if err != nil {
		panic(err)
	}
}

// B converts a bool to the 0/1 ints TLC reads.
func B(b bool) int {
	if b {
		return 1
	}
	return 0
}
